/* Positive fixture for rule C06.W1 (index-width): must be reported on every run. */
#include <stdint.h>
typedef struct { uint32_t child_index; uint32_t child_count; } FixtureIter;
int fixture_narrowing(FixtureIter *self) {
  if ((int8_t)self->child_index == -1) return 0;
  return 1;
}
