export default grammar({
  name: "g",
  word: $ => $.identifier,
  reserved: {
    global: $ => ['if'],
    r1: $ => ['for'],
  },
  rules: {
    s: $ => choice(
      seq('p', $.x, $.y1),
      seq('q', $.x, $.y2),
      'if',
      'for',
    ),
    x: $ => seq('k', 'j'),
    y1: $ => seq(reserved('r1', $.identifier), '!'),
    y2: $ => seq($.identifier, '?'),
    identifier: $ => /[a-z]+/,
  }
});
