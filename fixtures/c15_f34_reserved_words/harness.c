// Differential harness for property C15 (second clause):
// a parser generated with state merging and one generated with
// --disable-optimizations must accept the same strings and build the same
// trees.  Every string over ALPHABET up to MAXLEN tokens is parsed by both.
#include <stdio.h>
#include <stdlib.h>
#include <string.h>
#include <tree_sitter/api.h>

const TSLanguage *tree_sitter_g_opt(void);
const TSLanguage *tree_sitter_g_unopt(void);

static char *parse(TSParser *p, const char *src, int *has_error) {
  TSTree *tree = ts_parser_parse_string(p, NULL, src, (uint32_t)strlen(src));
  TSNode root = ts_tree_root_node(tree);
  *has_error = ts_node_has_error(root);
  char *s = ts_node_string(root);
  ts_tree_delete(tree);
  return s;
}

int main(int argc, char **argv) {
  if (argc < 3) {
    fprintf(stderr, "usage: %s MAXLEN TOKEN...\n", argv[0]);
    return 2;
  }
  int maxlen = atoi(argv[1]);
  int ntok = argc - 2;
  char **toks = argv + 2;

  TSParser *po = ts_parser_new(), *pu = ts_parser_new();
  ts_parser_set_language(po, tree_sitter_g_opt());
  ts_parser_set_language(pu, tree_sitter_g_unopt());

  long total = 0, accepted = 0, bad = 0;
  int idx[32];
  char buf[1024];
  for (int len = 1; len <= maxlen; len++) {
    memset(idx, 0, sizeof idx);
    for (;;) {
      buf[0] = 0;
      for (int i = 0; i < len; i++) {
        if (i) strcat(buf, " ");
        strcat(buf, toks[idx[i]]);
      }
      int eo, eu;
      char *so = parse(po, buf, &eo);
      char *su = parse(pu, buf, &eu);
      total++;
      if (!eu) accepted++;
      if (eo != eu) {
        bad++;
        printf("ACCEPTANCE DIFFERS on \"%s\"\n  optimised  : %s %s\n  unoptimised: %s %s\n",
               buf, eo ? "rejects" : "accepts", so, eu ? "rejects" : "accepts", su);
      } else if (!eu && strcmp(so, su) != 0) {
        bad++;
        printf("TREE DIFFERS on \"%s\"\n  optimised  : %s\n  unoptimised: %s\n", buf, so, su);
      }
      free(so);
      free(su);
      int k = len - 1;
      while (k >= 0 && ++idx[k] == ntok) idx[k--] = 0;
      if (k < 0) break;
    }
  }
  printf("%ld strings, %ld accepted by the unoptimised parser, %ld disagreements\n",
         total, accepted, bad);
  ts_parser_delete(po);
  ts_parser_delete(pu);
  return bad ? 1 : 0;
}
