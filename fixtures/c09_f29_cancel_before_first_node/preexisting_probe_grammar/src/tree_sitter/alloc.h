#ifndef TREE_SITTER_ALLOC_H_
#define TREE_SITTER_ALLOC_H_

#ifdef __cplusplus
extern "C" {
#endif

#include <stdbool.h>
#include <stdio.h>
#include <stdlib.h>

// Allow clients to override allocation functions
#ifdef TREE_SITTER_REUSE_ALLOCATOR

extern void *(*ts_current_malloc)(size_t size);
extern void *(*ts_current_calloc)(size_t count, size_t size);
extern void *(*ts_current_realloc)(void *ptr, size_t size);
extern void (*ts_current_free)(void *ptr);

#ifndef ts_malloc
#define ts_malloc  ts_current_malloc
#endif
#ifndef ts_calloc
#define ts_calloc  ts_current_calloc
#endif
#ifndef ts_realloc
#define ts_realloc ts_current_realloc
#endif
#ifndef ts_free
#define ts_free    ts_current_free
#endif

#else

#ifndef ts_malloc
#define ts_malloc  malloc
#endif
#ifndef ts_calloc
#define ts_calloc  calloc
#endif
#ifndef ts_realloc
#define ts_realloc realloc
#endif
#ifndef ts_free
#define ts_free    free
#endif

#endif

#ifdef __cplusplus
}
#endif

#endif // TREE_SITTER_ALLOC_H_
