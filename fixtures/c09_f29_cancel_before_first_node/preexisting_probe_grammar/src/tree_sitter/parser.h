#ifndef TREE_SITTER_PARSER_H_
#define TREE_SITTER_PARSER_H_

#ifdef __cplusplus
extern "C" {
#endif

#include <stdbool.h>
#include <stdint.h>
#include <stdlib.h>

#define ts_builtin_sym_error ((TSSymbol)-1)
#define ts_builtin_sym_end 0
#define TREE_SITTER_SERIALIZATION_BUFFER_SIZE 1024

#ifndef TREE_SITTER_API_H_
typedef uint16_t TSStateId;
typedef uint16_t TSSymbol;
typedef uint16_t TSFieldId;
typedef struct TSLanguage TSLanguage;
typedef struct TSLanguageMetadata {
  uint8_t major_version;
  uint8_t minor_version;
  uint8_t patch_version;
} TSLanguageMetadata;
#endif

typedef struct {
  TSFieldId field_id;
  uint8_t child_index;
  bool inherited;
} TSFieldMapEntry;

// Used to index the field and supertype maps.
typedef struct {
  uint16_t index;
  uint16_t length;
} TSMapSlice;

typedef struct {
  bool visible;
  bool named;
  bool supertype;
} TSSymbolMetadata;

typedef struct TSLexer TSLexer;

struct TSLexer {
  int32_t lookahead;
  TSSymbol result_symbol;
  void (*advance)(TSLexer *, bool);
  void (*mark_end)(TSLexer *);
  uint32_t (*get_column)(TSLexer *);
  bool (*is_at_included_range_start)(const TSLexer *);
  bool (*eof)(const TSLexer *);
  void (*log)(const TSLexer *, const char *, ...);
};

typedef enum {
  TSParseActionTypeShift,
  TSParseActionTypeReduce,
  TSParseActionTypeAccept,
  TSParseActionTypeRecover,
} TSParseActionType;

typedef union {
  struct {
    uint8_t type;
    TSStateId state;
    bool extra;
    bool repetition;
  } shift;
  struct {
    uint8_t type;
    uint8_t child_count;
    TSSymbol symbol;
    int16_t dynamic_precedence;
    uint16_t production_id;
  } reduce;
  uint8_t type;
} TSParseAction;

typedef struct {
  uint16_t lex_state;
  uint16_t external_lex_state;
} TSLexMode;

typedef struct {
  uint16_t lex_state;
  uint16_t external_lex_state;
  uint16_t reserved_word_set_id;
} TSLexerMode;

typedef union {
  TSParseAction action;
  struct {
    uint8_t count;
    bool reusable;
  } entry;
} TSParseActionEntry;

typedef struct {
  int32_t start;
  int32_t end;
} TSCharacterRange;

struct TSLanguage {
  uint32_t abi_version;
  uint32_t symbol_count;
  uint32_t alias_count;
  uint32_t token_count;
  uint32_t external_token_count;
  uint32_t state_count;
  uint32_t large_state_count;
  uint32_t production_id_count;
  uint32_t field_count;
  uint16_t max_alias_sequence_length;
  const uint16_t *parse_table;
  const uint16_t *small_parse_table;
  const uint32_t *small_parse_table_map;
  const TSParseActionEntry *parse_actions;
  const char * const *symbol_names;
  const char * const *field_names;
  const TSMapSlice *field_map_slices;
  const TSFieldMapEntry *field_map_entries;
  const TSSymbolMetadata *symbol_metadata;
  const TSSymbol *public_symbol_map;
  const uint16_t *alias_map;
  const TSSymbol *alias_sequences;
  const TSLexerMode *lex_modes;
  bool (*lex_fn)(TSLexer *, TSStateId);
  bool (*keyword_lex_fn)(TSLexer *, TSStateId);
  TSSymbol keyword_capture_token;
  struct {
    const bool *states;
    const TSSymbol *symbol_map;
    void *(*create)(void);
    void (*destroy)(void *);
    bool (*scan)(void *, TSLexer *, const bool *symbol_whitelist);
    unsigned (*serialize)(void *, char *);
    void (*deserialize)(void *, const char *, unsigned);
  } external_scanner;
  const TSStateId *primary_state_ids;
  const char *name;
  const TSSymbol *reserved_words;
  uint16_t max_reserved_word_set_size;
  uint32_t supertype_count;
  const TSSymbol *supertype_symbols;
  const TSMapSlice *supertype_map_slices;
  const TSSymbol *supertype_map_entries;
  TSLanguageMetadata metadata;
};

static inline bool set_contains(const TSCharacterRange *ranges, uint32_t len, int32_t lookahead) {
  uint32_t index = 0;
  uint32_t size = len - index;
  while (size > 1) {
    uint32_t half_size = size / 2;
    uint32_t mid_index = index + half_size;
    const TSCharacterRange *range = &ranges[mid_index];
    if (lookahead >= range->start && lookahead <= range->end) {
      return true;
    } else if (lookahead > range->end) {
      index = mid_index;
    }
    size -= half_size;
  }
  const TSCharacterRange *range = &ranges[index];
  return (lookahead >= range->start && lookahead <= range->end);
}

/*
 *  Lexer Macros
 */

#ifdef _MSC_VER
#define UNUSED __pragma(warning(suppress : 4101))
#else
#define UNUSED __attribute__((unused))
#endif

#define START_LEXER()           \
  bool result = false;          \
  bool skip = false;            \
  UNUSED                        \
  bool eof = false;             \
  int32_t lookahead;            \
  goto start;                   \
  next_state:                   \
  lexer->advance(lexer, skip);  \
  start:                        \
  skip = false;                 \
  lookahead = lexer->lookahead;

#define ADVANCE(state_value) \
  {                          \
    state = state_value;     \
    goto next_state;         \
  }

#define ADVANCE_MAP(...)                                              \
  {                                                                   \
    static const uint16_t map[] = { __VA_ARGS__ };                    \
    for (uint32_t i = 0; i < sizeof(map) / sizeof(map[0]); i += 2) {  \
      if (map[i] == lookahead) {                                      \
        state = map[i + 1];                                           \
        goto next_state;                                              \
      }                                                               \
    }                                                                 \
  }

#define SKIP(state_value) \
  {                       \
    skip = true;          \
    state = state_value;  \
    goto next_state;      \
  }

#define ACCEPT_TOKEN(symbol_value)     \
  result = true;                       \
  lexer->result_symbol = symbol_value; \
  lexer->mark_end(lexer);

#define END_STATE() return result;

/*
 *  Parse Table Macros
 */

#define SMALL_STATE(id) ((id) - LARGE_STATE_COUNT)

#define STATE(id) id

#define ACTIONS(id) id

#define SHIFT(state_value)            \
  {{                                  \
    .shift = {                        \
      .type = TSParseActionTypeShift, \
      .state = (state_value)          \
    }                                 \
  }}

#define SHIFT_REPEAT(state_value)     \
  {{                                  \
    .shift = {                        \
      .type = TSParseActionTypeShift, \
      .state = (state_value),         \
      .repetition = true              \
    }                                 \
  }}

#define SHIFT_EXTRA()                 \
  {{                                  \
    .shift = {                        \
      .type = TSParseActionTypeShift, \
      .extra = true                   \
    }                                 \
  }}

#define REDUCE(symbol_name, children, precedence, prod_id) \
  {{                                                       \
    .reduce = {                                            \
      .type = TSParseActionTypeReduce,                     \
      .symbol = symbol_name,                               \
      .child_count = children,                             \
      .dynamic_precedence = precedence,                    \
      .production_id = prod_id                             \
    },                                                     \
  }}

#define RECOVER()                    \
  {{                                 \
    .type = TSParseActionTypeRecover \
  }}

#define ACCEPT_INPUT()              \
  {{                                \
    .type = TSParseActionTypeAccept \
  }}

#ifdef __cplusplus
}
#endif

#endif  // TREE_SITTER_PARSER_H_
