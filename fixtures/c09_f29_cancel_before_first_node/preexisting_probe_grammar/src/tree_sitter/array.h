#ifndef TREE_SITTER_ARRAY_H_
#define TREE_SITTER_ARRAY_H_

#ifdef __cplusplus
extern "C" {
#endif

#include "./alloc.h"

#include <assert.h>
#include <stdbool.h>
#include <stdint.h>
#include <stdlib.h>
#include <string.h>

#ifdef _MSC_VER
#pragma warning(push)
#pragma warning(disable : 4101)
#elif defined(__GNUC__) || defined(__clang__)
#pragma GCC diagnostic push
#pragma GCC diagnostic ignored "-Wunused-variable"
#endif

#define Array(T)       \
  struct {             \
    T *contents;       \
    uint32_t size;     \
    uint32_t capacity; \
  }

/// Initialize an array.
#define array_init(self) \
  ((self)->size = 0, (self)->capacity = 0, (self)->contents = NULL)

/// Create an empty array.
#define array_new() \
  { NULL, 0, 0 }

/// Get a pointer to the element at a given `index` in the array.
#define array_get(self, _index) \
  (assert((uint32_t)(_index) < (self)->size), &(self)->contents[_index])

/// Get a pointer to the first element in the array.
#define array_front(self) array_get(self, 0)

/// Get a pointer to the last element in the array.
#define array_back(self) array_get(self, (self)->size - 1)

/// Clear the array, setting its size to zero. Note that this does not free any
/// memory allocated for the array's contents.
#define array_clear(self) ((self)->size = 0)

#ifdef __cplusplus
#define _array__cast(self, expr) (decltype((self)->contents))(expr)
#else
#define _array__cast(self, expr) (expr)
#endif

/// Reserve `new_capacity` elements of space in the array. If `new_capacity` is
/// less than the array's current capacity, this function has no effect.
#define array_reserve(self, new_capacity)                 \
  ((self)->contents = _array__cast(self, _array__reserve( \
    (void *)(self)->contents, &(self)->capacity,          \
    array_elem_size(self), new_capacity))                 \
  )

/// Free any memory allocated for this array. Note that this does not free any
/// memory allocated for the array's contents.
#define array_delete(self)                           \
  do {                                               \
    if ((self)->contents) ts_free((self)->contents); \
    (self)->contents = NULL;                         \
    (self)->size = 0;                                \
    (self)->capacity = 0;                            \
  } while (0)

/// Push a new `element` onto the end of the array.
#define array_push(self, element)                                 \
  do {                                                            \
    (self)->contents = _array__cast(self, _array__grow(           \
      (void *)(self)->contents, (self)->size, &(self)->capacity,  \
      1, array_elem_size(self)                                    \
    ));                                                           \
   (self)->contents[(self)->size++] = (element);                  \
  } while(0)

/// Increase the array's size by `count` elements.
/// New elements are zero-initialized.
#define array_grow_by(self, count)                                               \
  do {                                                                           \
    if ((count) == 0) break;                                                     \
    (self)->contents = _array__cast(self, _array__grow(                          \
      (self)->contents, (self)->size, &(self)->capacity,                         \
      count, array_elem_size(self)                                               \
    ));                                                                          \
    memset((self)->contents + (self)->size, 0, (count) * array_elem_size(self)); \
    (self)->size += (count);                                                     \
  } while (0)

/// Append all elements from one array to the end of another.
#define array_push_all(self, other) \
  array_extend((self), (other)->size, (other)->contents)

/// Append `count` elements to the end of the array, reading their values from the
/// `contents` pointer.
#define array_extend(self, count, other_contents)                 \
  ((self)->contents = _array__cast(self, _array__splice(          \
    (void*)(self)->contents, &(self)->size, &(self)->capacity,    \
    array_elem_size(self), (self)->size, 0, count, other_contents \
  )))

/// Remove `old_count` elements from the array starting at the given `index`. At
/// the same index, insert `new_count` new elements, reading their values from the
/// `new_contents` pointer.
#define array_splice(self, _index, old_count, new_count, new_contents) \
  ((self)->contents = _array__cast(self, _array__splice(              \
    (void *)(self)->contents, &(self)->size, &(self)->capacity,        \
    array_elem_size(self), _index, old_count, new_count, new_contents  \
  )))

/// Insert one `element` into the array at the given `index`.
#define array_insert(self, _index, element)                     \
  ((self)->contents = _array__cast(self, _array__splice(        \
    (void *)(self)->contents, &(self)->size, &(self)->capacity, \
    array_elem_size(self), _index, 0, 1, &(element)             \
  )))

/// Remove one element from the array at the given `index`.
#define array_erase(self, _index) \
  _array__erase((void *)(self)->contents, &(self)->size, array_elem_size(self), _index)

/// Pop the last element off the array, returning the element by value.
#define array_pop(self) ((self)->contents[--(self)->size])

/// Assign the contents of one array to another, reallocating if necessary.
#define array_assign(self, other)                                   \
  ((self)->contents = _array__cast(self, _array__assign(            \
    (void *)(self)->contents, &(self)->size, &(self)->capacity,     \
    (const void *)(other)->contents, (other)->size, array_elem_size(self) \
  )))

/// Swap one array with another
#define array_swap(self, other)                                     \
  do {                                                              \
    void *_array_swap_tmp = (void *)(self)->contents;               \
    (self)->contents = (other)->contents;                           \
    (other)->contents = _array__cast(other, _array_swap_tmp);       \
    _array__swap(&(self)->size, &(self)->capacity,                  \
                 &(other)->size, &(other)->capacity);               \
  } while (0)

/// Get the size of the array contents
#define array_elem_size(self) (sizeof *(self)->contents)

/// Search a sorted array for a given `needle` value, using the given `compare`
/// callback to determine the order.
///
/// If an existing element is found to be equal to `needle`, then the `index`
/// out-parameter is set to the existing value's index, and the `exists`
/// out-parameter is set to true. Otherwise, `index` is set to an index where
/// `needle` should be inserted in order to preserve the sorting, and `exists`
/// is set to false.
#define array_search_sorted_with(self, compare, needle, _index, _exists) \
  _array__search_sorted(self, 0, compare, , needle, _index, _exists)

/// Search a sorted array for a given `needle` value, using integer comparisons
/// of a given struct field (specified with a leading dot) to determine the order.
///
/// See also `array_search_sorted_with`.
#define array_search_sorted_by(self, field, needle, _index, _exists) \
  _array__search_sorted(self, 0, _compare_int, field, needle, _index, _exists)

/// Insert a given `value` into a sorted array, using the given `compare`
/// callback to determine the order.
#define array_insert_sorted_with(self, compare, value) \
  do { \
    unsigned _index, _exists; \
    array_search_sorted_with(self, compare, &(value), &_index, &_exists); \
    if (!_exists) array_insert(self, _index, value); \
  } while (0)

/// Insert a given `value` into a sorted array, using integer comparisons of
/// a given struct field (specified with a leading dot) to determine the order.
///
/// See also `array_search_sorted_by`.
#define array_insert_sorted_by(self, field, value) \
  do { \
    unsigned _index, _exists; \
    array_search_sorted_by(self, field, (value) field, &_index, &_exists); \
    if (!_exists) array_insert(self, _index, value); \
  } while (0)

// Private

// Pointers to individual `Array` fields (rather than the entire `Array` itself)
// are passed to the various `_array__*` functions below to address strict aliasing
// violations that arises when the _entire_ `Array` struct is passed as `Array(void)*`.
//
// The `Array` type itself was not altered as a solution in order to avoid breakage
// with existing consumers (in particular, parsers with external scanners).

/// This is not what you're looking for, see `array_erase`.
static inline void _array__erase(void* self_contents, uint32_t *size,
                                size_t element_size, uint32_t index) {
  assert(index < *size);
  char *contents = (char *)self_contents;
  memmove(contents + index * element_size, contents + (index + 1) * element_size,
          (*size - index - 1) * element_size);
  (*size)--;
}

/// This is not what you're looking for, see `array_reserve`.
static inline void *_array__reserve(void *contents, uint32_t *capacity,
                                  size_t element_size, uint32_t new_capacity) {
  void *new_contents = contents;
  if (new_capacity > *capacity) {
    if (contents) {
      new_contents = ts_realloc(contents, new_capacity * element_size);
    } else {
      new_contents = ts_malloc(new_capacity * element_size);
    }
    *capacity = new_capacity;
  }
  return new_contents;
}

/// This is not what you're looking for, see `array_assign`.
static inline void *_array__assign(void* self_contents, uint32_t *self_size, uint32_t *self_capacity,
                                 const void *other_contents, uint32_t other_size, size_t element_size) {
  void *new_contents = _array__reserve(self_contents, self_capacity, element_size, other_size);
  *self_size = other_size;
  memcpy(new_contents, other_contents, *self_size * element_size);
  return new_contents;
}

/// This is not what you're looking for, see `array_swap`.
static inline void _array__swap(uint32_t *self_size, uint32_t *self_capacity,
                               uint32_t *other_size, uint32_t *other_capacity) {
  uint32_t tmp_size = *self_size;
  uint32_t tmp_capacity = *self_capacity;
  *self_size = *other_size;
  *self_capacity = *other_capacity;
  *other_size = tmp_size;
  *other_capacity = tmp_capacity;
}

/// This is not what you're looking for, see `array_push` or `array_grow_by`.
static inline void *_array__grow(void *contents, uint32_t size, uint32_t *capacity,
                               uint32_t count, size_t element_size) {
  void *new_contents = contents;
  uint32_t new_size = size + count;
  if (new_size > *capacity) {
    uint32_t new_capacity = *capacity * 2;
    if (new_capacity < 8) new_capacity = 8;
    if (new_capacity < new_size) new_capacity = new_size;
    new_contents = _array__reserve(contents, capacity, element_size, new_capacity);
  }
  return new_contents;
}

/// This is not what you're looking for, see `array_splice`.
static inline void *_array__splice(void *self_contents, uint32_t *size, uint32_t *capacity,
                                 size_t element_size,
                                 uint32_t index, uint32_t old_count,
                                 uint32_t new_count, const void *elements) {
  uint32_t new_size = *size + new_count - old_count;
  uint32_t old_end = index + old_count;
  uint32_t new_end = index + new_count;
  assert(old_end <= *size);

  void *new_contents = _array__reserve(self_contents, capacity, element_size, new_size);

  char *contents = (char *)new_contents;
  if (*size > old_end) {
    memmove(
      contents + new_end * element_size,
      contents + old_end * element_size,
      (*size - old_end) * element_size
    );
  }
  if (new_count > 0) {
    if (elements) {
      memcpy(
        (contents + index * element_size),
        elements,
        new_count * element_size
      );
    } else {
      memset(
        (contents + index * element_size),
        0,
        new_count * element_size
      );
    }
  }
  *size += new_count - old_count;

  return new_contents;
}

/// A binary search routine, based on Rust's `std::slice::binary_search_by`.
/// This is not what you're looking for, see `array_search_sorted_with` or `array_search_sorted_by`.
#define _array__search_sorted(self, start, compare, suffix, needle, _index, _exists) \
  do { \
    *(_index) = start; \
    *(_exists) = false; \
    uint32_t size = (self)->size - *(_index); \
    if (size == 0) break; \
    int comparison; \
    while (size > 1) { \
      uint32_t half_size = size / 2; \
      uint32_t mid_index = *(_index) + half_size; \
      comparison = compare(&((self)->contents[mid_index] suffix), (needle)); \
      if (comparison <= 0) *(_index) = mid_index; \
      size -= half_size; \
    } \
    comparison = compare(&((self)->contents[*(_index)] suffix), (needle)); \
    if (comparison == 0) *(_exists) = true; \
    else if (comparison < 0) *(_index) += 1; \
  } while (0)

/// Helper macro for the `_sorted_by` routines below. This takes the left (existing)
/// parameter by reference in order to work with the generic sorting function above.
#define _compare_int(a, b) ((int)*(a) - (int)(b))

#ifdef _MSC_VER
#pragma warning(pop)
#elif defined(__GNUC__) || defined(__clang__)
#pragma GCC diagnostic pop
#endif

#ifdef __cplusplus
}
#endif

#endif  // TREE_SITTER_ARRAY_H_
