#include <stdio.h>
#include <stdlib.h>
#include <string.h>
#include <stdbool.h>
#include "tree_sitter/api.h"
#include "subtree.h"
#include "tree.h"
const TSLanguage *tree_sitter_c08hidden(void);
static long live = 0;
static void *m(size_t s){void*p=malloc(s); if(p) live++; return p;}
static void *c(size_t n,size_t s){void*p=calloc(n,s); if(p) live++; return p;}
static void *r(void*o,size_t s){ if(!o) live++; return realloc(o,s);}
static void f(void*p){ if(p){live--; free(p);} }
static int calls=0; static bool cancel_first=false;
static bool cb(TSParseState *st){ calls++; (void)st; return cancel_first; }
typedef struct {const char*s; uint32_t len;} In;
static const char *rd(void *payload, uint32_t byte, TSPoint pt, uint32_t *n){ In*in=payload; (void)pt; if(byte>=in->len){*n=0;return "";} *n=in->len-byte; return in->s+byte; }
int main(void){
  ts_set_allocator(m,c,r,f);
  char *src = malloc(100000); src[0]=0;
  for(int i=0;i<400;i++) strcat(src,"# c\n");
  strcat(src,"alpha beta\n");
  In in={src,(uint32_t)strlen(src)};
  TSInput input={&in,rd,TSInputEncodingUTF8,NULL};
  TSParser *p=ts_parser_new(); ts_parser_set_language(p,tree_sitter_c08hidden());
  TSTree *old=ts_parser_parse(p,NULL,input);
  char *s=ts_node_string(ts_tree_root_node(old)); printf("old: %s\n",s); f(s);
  printf("old root refcount %u\n", old->root.ptr->ref_count);
  TSParseOptions opt={NULL,cb};
  cancel_first=true;
  TSTree *t=ts_parser_parse_with_options(p,old,input,opt);
  printf("cancelled parse -> %p, callback calls %d, old root refcount %u\n",(void*)t,calls, old->root.ptr->ref_count);
  cancel_first=false;
  // A second, unrelated parse request (different old tree = NULL)
  In in2={"zeta eta\n",9};
  TSInput input2={&in2,rd,TSInputEncodingUTF8,NULL};
  TSTree *t2=ts_parser_parse_with_options(p,old,input,opt);
  if(t2){ s=ts_node_string(ts_tree_root_node(t2)); printf("second parse: %s  bytes=%u\n",s, ts_node_end_byte(ts_tree_root_node(t2))); f(s);} else printf("second parse NULL\n");
  printf("old root refcount now %u\n", old->root.ptr->ref_count);
  if(t2) ts_tree_delete(t2);
  ts_parser_delete(p);
  printf("after parser delete: old root refcount %u (only the handle 'old' remains)\n", old->root.ptr->ref_count);
  ts_tree_delete(old);
  printf("live allocations at end: %ld\n", live);
  return 0;
}
