// Probes for discrepancies that exist on the UNCHANGED tree (not caused by the seed).
#include <stdio.h>
#include <stdlib.h>
#include <string.h>
#include "tree_sitter/api.h"
const TSLanguage *tree_sitter_probe(void);

static const char *d(TSNode n, char *buf) {
  if (ts_node_is_null(n)) { sprintf(buf, "<null>"); return buf; }
  sprintf(buf, "%s[%u,%u)", ts_node_type(n), ts_node_start_byte(n), ts_node_end_byte(n));
  return buf;
}

int main(void) {
  char b1[64], b2[64];
  int found = 0;
  TSParser *p = ts_parser_new();
  ts_parser_set_language(p, tree_sitter_probe());
  const char *src = "a b x ; d < x > e";
  TSTree *t = ts_parser_parse_string(p, NULL, src, strlen(src));
  TSNode root = ts_tree_root_node(t);
  char *s = ts_node_string(root); printf("%s\n", s); free(s);

  // 1. first child for byte: goal inside the hidden token `;` (byte 6) that ends hidden `_h`.
  TSNode n = ts_node_first_child_for_byte(root, 6);
  TSTreeCursor c = ts_tree_cursor_new(root);
  int64_t idx = ts_tree_cursor_goto_first_child_for_byte(&c, 6);
  printf("P1 first_child_for_byte(6): node API -> %s ; cursor -> index %ld node %s ; expected d[8,9) index 3\n",
         d(n, b1), (long)idx, d(ts_tree_cursor_current_node(&c), b2));
  if (ts_node_is_null(n) || idx != 3) found++;
  ts_tree_cursor_delete(&c);
  {
    // Same shape, but the hidden node is the FIRST child: now node API and cursor disagree.
    const char *src2 = "x ; d";
    TSTree *t2 = ts_parser_parse_string(p, NULL, src2, strlen(src2));
    TSNode r2 = ts_tree_root_node(t2);
    char *s2 = ts_node_string(r2); printf("%s\n", s2); free(s2);
    TSNode n2 = ts_node_first_child_for_byte(r2, 2);
    TSTreeCursor c2 = ts_tree_cursor_new(r2);
    int64_t idx2 = ts_tree_cursor_goto_first_child_for_byte(&c2, 2);
    printf("P1b first_child_for_byte(2): node API -> %s ; cursor -> index %ld node %s ; expected d[4,5) index 1\n",
           d(n2, b1), (long)idx2, d(ts_tree_cursor_current_node(&c2), b2));
    if (ts_node_is_null(n2) != (idx2 < 0)) found++;
    ts_tree_cursor_delete(&c2); ts_tree_delete(t2);
  }

  // 2. named_child vs named_child_count through a named rule aliased as anonymous.
  uint32_t ncc = ts_node_named_child_count(root);
  printf("P2 named_child_count=%u:", ncc);
  for (uint32_t i = 0; i < ncc; i++) printf(" %s", d(ts_node_named_child(root, i), b1));
  printf(" ; expected last = e[16,17)\n");
  if (strcmp(ts_node_type(ts_node_named_child(root, ncc - 1)), "e") != 0) found++;
  TSNode dn = ts_node_child(root, 3);
  printf("P2 next_named_sibling(d) = %s ; expected e[16,17)\n", d(ts_node_next_named_sibling(dn), b1));
  for (uint32_t i = 0; i < ts_node_child_count(root); i++) {
    TSNode ch = ts_node_child(root, i);
    printf("   child %u = %s named=%d next_named=%s", i, d(ch, b1), ts_node_is_named(ch), d(ts_node_next_named_sibling(ch), b2));
    printf(" prev_named=%s\n", d(ts_node_prev_named_sibling(ch), b2));
  }
  TSNode en = ts_node_child(root, 5);
  printf("P2 prev_named_sibling(e) = %s ; expected d[8,9)\n", d(ts_node_prev_named_sibling(en), b1));

  // 3. descendant index / field after goto_previous_sibling.
  c = ts_tree_cursor_new(root);
  ts_tree_cursor_goto_last_child(&c);
  printf("P3 at last child %s: descendant_index=%u field=%s\n", d(ts_tree_cursor_current_node(&c), b1),
         ts_tree_cursor_current_descendant_index(&c), ts_tree_cursor_current_field_name(&c) ? ts_tree_cursor_current_field_name(&c) : "-");
  ts_tree_cursor_goto_previous_sibling(&c);
  printf("P3 after goto_previous_sibling at %s: descendant_index=%u (expected 5) field=%s (expected -)\n",
         d(ts_tree_cursor_current_node(&c), b1), ts_tree_cursor_current_descendant_index(&c),
         ts_tree_cursor_current_field_name(&c) ? ts_tree_cursor_current_field_name(&c) : "-");
  if (ts_tree_cursor_current_descendant_index(&c) != 5) found++;
  ts_tree_cursor_delete(&c);

  printf("%d pre-existing discrepancy probe(s) fired\n", found);
  ts_tree_delete(t); ts_parser_delete(p);
  return 0;
}
