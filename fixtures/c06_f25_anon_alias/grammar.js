module.exports = grammar({
  name: 'probe',
  rules: {
    top: $ => choice(
      seq($.a, $.b, $._h, $.d, alias($.w, 'anon'), field('last', $.e)),
      seq($._h, $.d),
    ),
    _h: $ => seq($.x, $._semi),
    _semi: _ => /;/,
    w: $ => seq('<', $.x, '>'),
    a: _ => 'a', b: _ => 'b', d: _ => 'd', e: _ => 'e', x: _ => 'x',
  },
});
