//! Observation on the UNCHANGED tree (not part of demo.sh's verdict): two combined
//! injection patterns whose query order is the reverse of their document order.
use tree_sitter::Language;
use tree_sitter_highlight::{HighlightConfiguration, HighlightEvent, Highlighter};
use tree_sitter_language::LanguageFn;

unsafe extern "C" {
    fn tree_sitter_c17demo() -> *const ();
}

const NAMES: &[&str] = &["hcomment", "hstring", "hident", "icomment", "istring"];

fn main() {
    let language: Language = unsafe { LanguageFn::from_raw(tree_sitter_c17demo) }.into();
    let mut host = HighlightConfiguration::new(
        language.clone(),
        "host",
        "(comment) @hcomment (string) @hstring (identifier) @hident",
        r#"
((string) @injection.content (#set! injection.language "inner") (#set! injection.combined))
((comment) @injection.content (#set! injection.language "inner") (#set! injection.combined))
"#,
        "",
    )
    .unwrap();
    host.configure(NAMES);
    let mut inner = HighlightConfiguration::new(
        language,
        "inner",
        "(comment) @icomment (string) @istring",
        "",
        "",
    )
    .unwrap();
    inner.configure(NAMES);

    let source = b"# ab\nx = \"cd\";\n";
    let mut highlighter = Highlighter::new();
    let events = highlighter
        .highlight(&host, source, None, None, |name| {
            (name == "inner").then_some(&inner)
        })
        .unwrap();
    let mut bad = false;
    let mut offset = 0;
    let mut stack: Vec<usize> = Vec::new();
    for event in events {
        match event.unwrap() {
            HighlightEvent::Source { start, end } => {
                println!("  source {start}..{end} {:?} under {:?}",
                    std::str::from_utf8(&source[start..end]).unwrap(),
                    stack.iter().map(|&i| NAMES[i]).collect::<Vec<_>>());
                offset = end;
            }
            HighlightEvent::HighlightStart(h) => {
                println!("  start {} at {offset}", NAMES[h.0]);
                // inner comment content is 0..4, inner string content is 9..13
                if NAMES[h.0] == "icomment" && offset >= 4 { bad = true; }
                if NAMES[h.0] == "istring" && !(9..13).contains(&offset) { bad = true; }
                stack.push(h.0);
            }
            HighlightEvent::HighlightEnd => {
                println!("  end   {} at {offset}", NAMES[stack.pop().unwrap()]);
            }
        }
    }
    if bad {
        println!("OBSERVATION: an injected-language highlight starts outside its injection content");
        std::process::exit(1);
    }
    println!("ok: injected highlights start inside their content");
}
