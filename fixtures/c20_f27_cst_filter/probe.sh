#!/usr/bin/env bash
# Reproduces four situations in which property C20 already fails on the UNCHANGED tree
# (they are independent of SEED/patch.diff).  Run from the worktree root after building
# the CLI:  bash SEED/baseline_probes/probe.sh
ROOT=$(cd "$(dirname "${BASH_SOURCE[0]}")/../.." && pwd)
TS="${CARGO_TARGET_DIR:-$ROOT/target}/debug/tree-sitter"
W=$(mktemp -d /tmp/c20r7-probe.XXXXXX)
trap 'rm -rf "$W"' EXIT
mkdir -p "$W/home" "$W/cache"
export HOME=$W/home XDG_CACHE_HOME=$W/cache NO_COLOR=1
unset RUST_BACKTRACE
cp -r "$ROOT/SEED/grammar" "$W/g"
cd "$W/g" || exit 1
"$TS" generate src/grammar.json >/dev/null 2>&1
mkdir -p test/corpus
C=test/corpus/a.txt

echo "### 1. a test with two :language attributes is written back twice (test is split in two)"
printf '=====\nTwo langs\n:language(words)\n:language(words)\n=====\nabc 12\n---\n\n(source_file (word))\n\n=====\nNext\n=====\nx\n---\n\n(source_file (word))\n' > $C
"$TS" test --update 2>&1 | tail -8
cat $C

echo "### 2. the writer drops delimiter suffixes; an input that relied on the suffix becomes a new test"
printf '=====|||\nSfx\n=====|||\nabc\n===\nnot a header\n===\n12\n---|||\n\n(source_file)\n' > $C
"$TS" test --update 2>&1 | head -20
cat $C
"$TS" test 2>&1 | tail -8

echo "### 3. --update --include X erases the expected output of a filtered-out :cst test"
printf '=====\nPlain\n=====\nabc\n---\n\n(source_file)\n\n=====\nCst one\n:cst\n=====\nabc\n---\n\n' > $C
"$TS" test --update 2>&1 | tail -8
cat $C
echo "--- now update with --include Plain"
"$TS" test --update --include Plain 2>&1 | tail -8
cat $C

echo "### 4. an input line '===x' in a suffix-less file makes the reader find no tests at all"
printf '=====\nFirst\n=====\nabc\n---\n\n(source_file (word))\n\n=====\nSecond\n=====\nabc\n===x\n\n12\n---\n\n(source_file (word))\n' > $C
"$TS" test 2>&1 | tail -8
