// F35 (C06.S15): walking a cursor backwards must report the same descendant index and field as walking forwards.
// Build: cc -std=c11 -w -D_POSIX_C_SOURCE=200112L -D_DEFAULT_SOURCE -I<repo>/lib/include -I<repo>/lib/src \
//          -I<grammar>/src <repo>/lib/src/lib.c <grammar>/src/parser.c backward_walk.c
// with <grammar> = seeded/C06-backtrack-from-undefined-position/grammar (language `prevsib`).
#include <stdio.h>
#include <string.h>
#include <tree_sitter/api.h>
const TSLanguage *tree_sitter_prevsib(void);
static int failures = 0, checks = 0;
typedef struct { const void *id; uint32_t di; TSFieldId f; uint32_t start; } Rec;
static void walk(TSTreeCursor *c, const char *input) {
  if (!ts_tree_cursor_goto_first_child(c)) return;
  Rec recs[256]; int n = 0;
  do {
    TSNode nd = ts_tree_cursor_current_node(c);
    recs[n++] = (Rec){nd.id, ts_tree_cursor_current_descendant_index(c), ts_tree_cursor_current_field_id(c), ts_node_start_byte(nd)};
    TSTreeCursor sub = ts_tree_cursor_copy(c);
    walk(&sub, input);
    ts_tree_cursor_delete(&sub);
  } while (n < 256 && ts_tree_cursor_goto_next_sibling(c));
  // now walk back from the last sibling
  for (int i = n - 1; i >= 0; i--) {
    TSNode nd = ts_tree_cursor_current_node(c);
    uint32_t di = ts_tree_cursor_current_descendant_index(c);
    TSFieldId f = ts_tree_cursor_current_field_id(c);
    checks++;
    if (nd.id != recs[i].id || di != recs[i].di || f != recs[i].f || ts_node_start_byte(nd) != recs[i].start) {
      failures++;
      printf("MISMATCH input=\"%s\" sibling %d (%s): backwards descendant_index=%u field=%u start=%u; forwards descendant_index=%u field=%u start=%u\n",
             input, i, ts_node_type(nd), di, f, ts_node_start_byte(nd), recs[i].di, recs[i].f, recs[i].start);
    }
    // a descent from here must continue from the right base
    TSTreeCursor sub = ts_tree_cursor_copy(c);
    if (ts_tree_cursor_goto_first_child(&sub)) {
      checks++;
      uint32_t want = recs[i].di + 1;
      if (ts_tree_cursor_current_descendant_index(&sub) != want) {
        failures++;
        printf("MISMATCH input=\"%s\" first child of sibling %d: descendant_index=%u, expected %u\n", input, i, ts_tree_cursor_current_descendant_index(&sub), want);
      }
    }
    ts_tree_cursor_delete(&sub);
    if (i > 0 && !ts_tree_cursor_goto_previous_sibling(c)) { failures++; printf("MISMATCH input=\"%s\": no previous sibling at %d\n", input, i); break; }
  }
}
int main(void) {
  const char *inputs[] = {
    "x = 1;", "x # c\n = 1;", "x = # c\n 1;", "# a\nx = 1; # b\ny = 2;", "{ x = 1; # c\n y = 2; }", "x =\n  1;\n{ # c\n a = 1; }",
    "# a\n# b\nx # c\n# d\n = # e\n 1 # f\n;", "{ { x = 1; } # c\n { y = 2; # d\n } }",
  };
  TSParser *p = ts_parser_new();
  ts_parser_set_language(p, tree_sitter_prevsib());
  for (unsigned i = 0; i < sizeof inputs / sizeof *inputs; i++) {
    TSTree *t = ts_parser_parse_string(p, NULL, inputs[i], (uint32_t)strlen(inputs[i]));
    TSTreeCursor c = ts_tree_cursor_new(ts_tree_root_node(t));
    walk(&c, inputs[i]);
    ts_tree_cursor_delete(&c);
    ts_tree_delete(t);
  }
  ts_parser_delete(p);
  printf("%d checks, %d mismatches\n", checks, failures);
  return failures ? 1 : 0;
}
