#include <tree_sitter/api.h>
#include <stdio.h>
#include <string.h>
const TSLanguage *tree_sitter_hidden_extra(void);
int main(void){
  const char *src = "a: [7!] b;";
  TSParser *p = ts_parser_new(); ts_parser_set_language(p, tree_sitter_hidden_extra());
  TSTree *t = ts_parser_parse_string(p, NULL, src, strlen(src));
  char *s = ts_node_string(ts_tree_root_node(t)); printf("%s\n", s);
  uint32_t eo; TSQueryError et;
  const char *qs = "(_ (number) @n) @p";
  TSQuery *q = ts_query_new(tree_sitter_hidden_extra(), qs, strlen(qs), &eo, &et);
  if(!q){printf("query error %u %d\n", eo, et); return 2;}
  TSQueryCursor *c = ts_query_cursor_new(); ts_query_cursor_exec(c, q, ts_tree_root_node(t));
  TSQueryMatch m; int bad=0;
  while (ts_query_cursor_next_match(c, &m)) for (int i=0;i<m.capture_count;i++){
    TSNode n=m.captures[i].node; uint32_t l; const char *nm=ts_query_capture_name_for_id(q,m.captures[i].index,&l);
    printf("@%.*s %s [%u,%u) named=%d  parent-by-node-api=%s\n",(int)l,nm,ts_node_type(n),ts_node_start_byte(n),ts_node_end_byte(n),ts_node_is_named(n), ts_node_is_null(ts_node_parent(n))?"null":ts_node_type(ts_node_parent(n)));
  }
  return 0;
}
