#include <stdio.h>
#include <stdlib.h>
#include <string.h>
#include "tree_sitter/api.h"
const TSLanguage *tree_sitter_g1(void);
typedef struct { const char *s; uint32_t n; } Doc;
static const char *rd(void *p, uint32_t off, TSPoint pt, uint32_t *len){ Doc *d=p; (void)pt; if(off>=d->n){*len=0;return "";} *len=d->n-off; return d->s+off; }
static int calls, stop_at;
static bool cb(TSParseState *st){ (void)st; calls++; return stop_at > 0 && calls == stop_at; }
static unsigned rng = 12345; static unsigned rnd(void){ rng = rng*1103515245u+12345u; return rng>>16; }
int main(void){
  const char *toks[] = {"a","b","foo","1","22","(",")","{","}",";","*","+","if","else"," ","\n"};
  int ntok = sizeof toks/sizeof *toks, bad = 0, docs = 0, checks = 0;
  for (int it = 0; it < 400; it++) {
    char buf[4096]; buf[0]=0; int n = 200 + rnd()%400;
    for (int i=0;i<n && strlen(buf) < 3900;i++){ strcat(buf, toks[rnd()%ntok]); strcat(buf, " "); }
    Doc d = {buf,(uint32_t)strlen(buf)}; TSInput in = {&d, rd, TSInputEncodingUTF8, NULL};
    TSParser *p = ts_parser_new(); ts_parser_set_language(p, tree_sitter_g1());
    calls=0; stop_at=0; TSParseOptions o = {NULL, cb};
    TSTree *ref = ts_parser_parse_with_options(p, NULL, in, o);
    char *rs = ts_node_string(ts_tree_root_node(ref)); int total = calls; ts_parser_delete(p);
    if (total < 2) { free(rs); ts_tree_delete(ref); continue; }
    docs++;
    for (int k = 1; k <= total; k++) {
      TSParser *q = ts_parser_new(); ts_parser_set_language(q, tree_sitter_g1());
      calls=0; stop_at=k; TSTree *t = ts_parser_parse_with_options(q, NULL, in, o);
      if (t) { ts_tree_delete(t); ts_parser_delete(q); continue; }
      stop_at=0; t = ts_parser_parse_with_options(q, NULL, in, o);   /* resume */
      char *s = ts_node_string(ts_tree_root_node(t)); checks++;
      if (strcmp(s, rs)) { if (bad < 3) printf("doc %d (%u bytes, has_error=%d): cancelled at callback #%d of %d and resumed -> different tree\n", it, d.n, ts_node_has_error(ts_tree_root_node(ref)), k, total); bad++; }
      free(s); ts_tree_delete(t); ts_parser_delete(q);
    }
    free(rs); ts_tree_delete(ref);
  }
  printf("%d documents, %d cancel/resume checks, %d differ\n", docs, checks, bad);
  return bad != 0;
}
