#include <stdio.h>
#include <string.h>
#include <stdlib.h>
#include "tree_sitter/api.h"
const TSLanguage *LANGFN(void);
static long live = 0;
static void *m(size_t n){ live++; return malloc(n ? n : 1); }
static void *c(size_t a, size_t b){ live++; return calloc(a ? a : 1, b ? b : 1); }
static void *r(void *p, size_t n){ if (!p) live++; return realloc(p, n ? n : 1); }
static void f(void *p){ if (p) live--; free(p); }
int main(int argc, char **argv) {
  ts_set_allocator(m, c, r, f);
  int which = atoi(argv[1]);
  if (which == 1) {
    const char *q = "nosuchfield: (identifier) @x";
    uint32_t off; TSQueryError e;
    TSQuery *query = ts_query_new(LANGFN(), q, strlen(q), &off, &e);
    printf("query=%p err=%d off=%u live=%ld\n", (void*)query, e, off, live);
    return live != 0;
  }
  if (which == 2) {
    TSParser *p = ts_parser_new(); ts_parser_set_language(p, LANGFN());
    TSTree *t = ts_parser_parse_string(p, NULL, "a;", 2);
    TSTreeCursor cur = ts_tree_cursor_new(ts_tree_root_node(t));
    ts_tree_cursor_goto_first_child(&cur);
    ts_tree_cursor_reset_to(&cur, &cur);
    TSNode n = ts_tree_cursor_current_node(&cur);
    printf("node %s\n", ts_node_type(n));
    return 0;
  }
  if (which == 3) {
    int depth = atoi(argv[2]);
    char *q = malloc((size_t)depth * 4 + 64); char *w = q;
    for (int i = 0; i < depth; i++) { *w++ = '('; *w++ = '_'; *w++=' '; }
    for (int i = 0; i < depth; i++) *w++ = ')';
    *w = 0;
    uint32_t off; TSQueryError e;
    TSQuery *query = ts_query_new(LANGFN(), q, strlen(q), &off, &e);
    printf("query=%p err=%d off=%u\n", (void*)query, e, off);
    if (query) ts_query_delete(query);
    printf("live=%ld\n", live);
  }
  return 0;
}
