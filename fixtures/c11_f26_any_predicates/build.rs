fn main() {
    cc::Build::new()
        .include("../grammar/src")
        .file("../grammar/src/parser.c")
        .warnings(false)
        .compile("kvparser");
}
