// Probe (not part of the seeded change): on the UNCHANGED tree, does `#any-eq?`
// accept a match in which NO captured node has the given text?
use tree_sitter::{Language, Parser, Query, QueryCursor, StreamingIterator};

extern "C" {
    fn tree_sitter_kv() -> *const ();
}

fn main() {
    let language = unsafe { Language::from_raw(tree_sitter_kv().cast()) };
    let mut parser = Parser::new();
    parser.set_language(&language).unwrap();
    let src = "aa: 11;\nbb: 22;\n";
    let tree = parser.parse(src, None).unwrap();
    let mut bad = 0;
    for (q, expected) in [
        ("((pair (key) @k) (#any-eq? @k \"zz\"))", 0usize),
        ("((pair (key) @k) (#any-eq? @k \"bb\"))", 1),
        ("((pair (key) @k) (#eq? @k \"zz\"))", 0),
        ("((pair (value) @v) (#any-match? @v \"^9\"))", 0),
        ("((document (pair (key) @k)+) (#any-eq? @k \"zz\"))", 0),
    ] {
        let query = Query::new(&language, q).unwrap();
        let mut cursor = QueryCursor::new();
        let mut n = 0;
        let mut it = cursor.matches(&query, tree.root_node(), src.as_bytes());
        while let Some(_m) = it.next() {
            n += 1;
        }
        println!("{q}: {n} matches (expected {expected})");
        if n != expected {
            bad += 1;
        }
    }
    std::process::exit(if bad > 0 { 1 } else { 0 });
}
