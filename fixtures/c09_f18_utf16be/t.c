#include <stdio.h>
#include <stdlib.h>
#include <string.h>
#include "tree_sitter/api.h"
const TSLanguage *tree_sitter_smile(void);
typedef struct { const char *t; uint32_t len; uint32_t chunk; } D;
static const char *rd(void *p, uint32_t b, TSPoint pt, uint32_t *n) {
  D *d = p; (void)pt;
  if (b >= d->len) { *n = 0; return ""; }
  uint32_t end = d->chunk ? (b / d->chunk + 1) * d->chunk : d->len;  // fixed chunk boundaries
  if (end > d->len) end = d->len;
  *n = end - b; return d->t + b;
}
static char *parse(const char *t, uint32_t len, uint32_t chunk, TSInputEncoding enc) {
  TSParser *p = ts_parser_new(); ts_parser_set_language(p, tree_sitter_smile());
  D d = {t, len, chunk};
  TSTree *tr = ts_parser_parse(p, NULL, (TSInput){&d, rd, enc, NULL});
  char *s = ts_node_string(ts_tree_root_node(tr)); ts_tree_delete(tr); ts_parser_delete(p); return s;
}
int main(void) {
  const char u8[] = "ab \xF0\x9F\x98\x80 cd";
  printf("utf8 whole     : %s\n", parse(u8, sizeof u8 - 1, 0, TSInputEncodingUTF8));
  for (uint32_t c = 1; c <= 6; c++) printf("utf8 chunk=%u   : %s\n", c, parse(u8, sizeof u8 - 1, c, TSInputEncodingUTF8));
  // same text in UTF-16
  uint16_t units[] = {'a','b',' ',0xD83D,0xDE00,' ','c','d'};
  unsigned n = sizeof units / 2; char le[64], be[64];
  for (unsigned i = 0; i < n; i++) { le[2*i] = units[i] & 0xff; le[2*i+1] = units[i] >> 8; be[2*i] = units[i] >> 8; be[2*i+1] = units[i] & 0xff; }
  printf("utf16le whole  : %s\n", parse(le, 2*n, 0, TSInputEncodingUTF16LE));
  printf("utf16be whole  : %s\n", parse(be, 2*n, 0, TSInputEncodingUTF16BE));
  return 0;
}
