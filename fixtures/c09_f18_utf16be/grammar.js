export default grammar({
  name: "smile",
  extras: $ => [/\s/],
  rules: {
    document: $ => repeat(choice($.smile, $.word)),
    smile: _ => '\u{1F600}',
    word: _ => /[a-z]+/,
  },
});
