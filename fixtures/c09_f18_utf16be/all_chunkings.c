#include <tree_sitter/api.h>
#include <stdio.h>
#include <string.h>
#include <stdlib.h>
const TSLanguage *tree_sitter_smile(void);
typedef struct { const char *s; uint32_t n; uint32_t mask; } In;   // bit i of mask set = split before byte i+1
static const char *rd(void *p, uint32_t off, TSPoint pt, uint32_t *len){ In *in=p; if(off>=in->n){*len=0;return "";} uint32_t e=off+1; while(e<in->n && !((in->mask>>(e-1))&1)) e++; *len=e-off; return in->s+off; }
static char *tree_str(TSTree *t){ return ts_node_string(ts_tree_root_node(t)); }
int main(void){
  const char *docs8[] = {"a \xF0\x9F\x98\x80 b", "\xF0\x9F\x98\x80\xF0\x9F\x98\x80", "x\xC3\xA9\xF0\x9F\x98\x80", "\xF0\x9F\x98 a", "ab\xF0"};
  int bad=0, n=0;
  for (int e=0;e<3;e++) for (unsigned d=0; d<5; d++){
    char buf[64]; uint32_t len;
    if (e==0){ len=strlen(docs8[d]); memcpy(buf,docs8[d],len);} else {
      // transcode valid prefix to utf16 (skip invalid docs for utf16)
      if (d>=3) continue; const unsigned char *s=(const unsigned char*)docs8[d]; len=0;
      while(*s){ uint32_t c; if(*s<0x80){c=*s++;} else if((*s&0xE0)==0xC0){c=((*s&0x1F)<<6)|(s[1]&0x3F); s+=2;} else {c=((*s&7)<<18)|((s[1]&0x3F)<<12)|((s[2]&0x3F)<<6)|(s[3]&0x3F); s+=4;}
        uint16_t u[2]; int k=1; if(c>=0x10000){c-=0x10000; u[0]=0xD800|(c>>10); u[1]=0xDC00|(c&0x3FF); k=2;} else u[0]=c;
        for(int i=0;i<k;i++){ if(e==1){buf[len++]=u[i]&0xFF; buf[len++]=u[i]>>8;} else {buf[len++]=u[i]>>8; buf[len++]=u[i]&0xFF;} } }
    }
    TSParser *p=ts_parser_new(); ts_parser_set_language(p,tree_sitter_smile());
    TSInputEncoding enc = e==0?TSInputEncodingUTF8: e==1?TSInputEncodingUTF16LE:TSInputEncodingUTF16BE;
    In whole={buf,len,0}; TSInput in={&whole,rd,enc,NULL};
    TSTree *t0=ts_parser_parse(p,NULL,in); char *s0=tree_str(t0);
    uint32_t lim = len>1 ? (1u<<(len-1)) : 1; if (len>17) lim=1u<<16;
    for (uint32_t m=0;m<lim;m++){ In c={buf,len,m}; TSInput ic={&c,rd,enc,NULL}; TSTree *t=ts_parser_parse(p,NULL,ic); char *s=tree_str(t); n++;
      if(strcmp(s,s0)){ if(bad<5) printf("DIFF enc=%d doc=%u mask=%x\n  whole: %s\n  split: %s\n",e,d,m,s0,s); bad++; } free(s); ts_tree_delete(t);} 
    free(s0); ts_tree_delete(t0); ts_parser_delete(p);
  }
  printf("%d chunked parses, %d differ\n", n, bad); return bad!=0;
}
