#!/usr/bin/env bash
# NOT the seeded defect: shows a C01 violation that exists on the UNCHANGED tree.
# Needs target/debug/tree-sitter to be built already (bash SEED/demo.sh does that).
set -eu
ROOT="$(cd "$(dirname "${BASH_SOURCE[0]}")/../.." && pwd)"
HERE="$ROOT/SEED/extra_colprobe"
CLI="${CARGO_TARGET_DIR:-$ROOT/target}/debug/tree-sitter"
WORK="$(mktemp -d "${TMPDIR:-/tmp}/c01r8-colprobe.XXXXXX")"
trap 'rm -rf "$WORK"' EXIT
mkdir -p "$WORK/home" "$WORK/cache" "$WORK/g/src"
cp "$HERE/grammar.js" "$WORK/g/"
cp "$HERE/scanner.c" "$WORK/g/src/"
(cd "$WORK/g" && HOME="$WORK/home" XDG_CACHE_HOME="$WORK/cache" "$CLI" generate grammar.js >/dev/null 2>&1)
cc -std=c11 -I"$ROOT/lib/include" -I"$ROOT/lib/src" -I"$WORK/g/src" \
   -D_POSIX_C_SOURCE=200112L -D_DEFAULT_SOURCE \
   "$HERE/probe.c" "$ROOT/lib/src/lib.c" "$WORK/g/src/parser.c" "$WORK/g/src/scanner.c" -o "$WORK/probe"
"$WORK/probe"
