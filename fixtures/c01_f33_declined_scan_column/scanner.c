#include "tree_sitter/parser.h"
#include <wctype.h>

enum TokenType { MARKER };

void *tree_sitter_colprobe_external_scanner_create(void) { return NULL; }
void tree_sitter_colprobe_external_scanner_destroy(void *p) { (void)p; }
unsigned tree_sitter_colprobe_external_scanner_serialize(void *p, char *b) { (void)p; (void)b; return 0; }
void tree_sitter_colprobe_external_scanner_deserialize(void *p, const char *b, unsigned n) { (void)p; (void)b; (void)n; }

// A '#' in column 4 is a marker; anywhere else it is left to the internal lexer.
bool tree_sitter_colprobe_external_scanner_scan(void *p, TSLexer *lexer, const bool *valid) {
  (void)p;
  if (!valid[MARKER]) return false;
  while (iswspace(lexer->lookahead)) lexer->advance(lexer, true);
  if (lexer->lookahead == '#' && lexer->get_column(lexer) == 4) {
    lexer->advance(lexer, false);
    lexer->result_symbol = MARKER;
    return true;
  }
  return false;
}
