#include <stdio.h>
#include <stdlib.h>
#include <string.h>
#include "tree_sitter/api.h"
const TSLanguage *tree_sitter_colprobe(void);
int main(void) {
  const char *old_text = "abc  #";
  const char *new_text = "ab  #";   // delete byte 2 ('c'): '#' moves from column 5 to column 4
  TSParser *p = ts_parser_new();
  ts_parser_set_language(p, tree_sitter_colprobe());
  TSTree *old = ts_parser_parse_string(p, NULL, old_text, strlen(old_text));
  char *s0 = ts_node_string(ts_tree_root_node(old));
  TSInputEdit e = {2, 3, 2, {0,2}, {0,3}, {0,2}};
  ts_tree_edit(old, &e);
  TSTree *inc = ts_parser_parse_string(p, old, new_text, strlen(new_text));
  TSParser *q = ts_parser_new();
  ts_parser_set_language(q, tree_sitter_colprobe());
  TSTree *scratch = ts_parser_parse_string(q, NULL, new_text, strlen(new_text));
  char *s1 = ts_node_string(ts_tree_root_node(inc));
  char *s2 = ts_node_string(ts_tree_root_node(scratch));
  printf("old tree    : %s\nincremental : %s\nfrom scratch: %s\n", s0, s1, s2);
  int bad = strcmp(s1, s2) != 0;
  puts(bad ? "MISMATCH" : "match");
  return bad;
}
