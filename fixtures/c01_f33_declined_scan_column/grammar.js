// Probe for a defect that exists on the UNCHANGED tree (not the seeded one):
// an external scanner that consults get_column() and then declines to produce
// a token leaves no trace on the internal token that is lexed instead.
module.exports = grammar({
  name: 'colprobe',
  externals: $ => [$.marker],
  rules: {
    doc: $ => repeat(choice($.marker, $.hash, $.word)),
    hash: _ => '#',
    word: _ => /[a-z]+/,
  },
});
