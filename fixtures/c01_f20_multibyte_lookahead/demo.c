#include <stdio.h>
#include <string.h>
#include <stdlib.h>
#include "tree_sitter/api.h"
const TSLanguage *tree_sitter_mb(void);
int main(void){
  char old[] = "abc\xE2\x82\xAD x";
  char new[] = "abc\xE2\x82\xAC x";
  TSParser *p=ts_parser_new(); ts_parser_set_language(p,tree_sitter_mb());
  TSTree *t=ts_parser_parse_string(p,NULL,old,strlen(old));
  char *s=ts_node_string(ts_tree_root_node(t)); printf("old: %s\n",s);
  TSInputEdit e={5,6,6,{0,5},{0,6},{0,6}};
  ts_tree_edit(t,&e);
  TSTree *inc=ts_parser_parse_string(p,t,new,strlen(new));
  TSParser *q=ts_parser_new(); ts_parser_set_language(q,tree_sitter_mb());
  TSTree *scr=ts_parser_parse_string(q,NULL,new,strlen(new));
  char *a=ts_node_string(ts_tree_root_node(inc)),*b=ts_node_string(ts_tree_root_node(scr));
  printf("inc: %s\nscr: %s\n",a,b);
  // old text "abc\u20AD x", new text "abc\u20AC x": only byte 5 (AD -> AC) is replaced.
  if (strcmp(a,b)!=0) { puts("C01 VIOLATED (pre-existing): incremental tree differs from from-scratch tree"); return 1; }
  puts("C01 holds");
  return 0;
}
