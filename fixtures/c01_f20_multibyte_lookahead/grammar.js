export default grammar({
  name: "mb",
  extras: _ => [/\s/],
  rules: {
    document: $ => repeat(choice($.word, $.sym)),
    word: _ => /[a-z€]+/,
    sym: _ => /[^\sa-z€]/,
  },
});
