// Observation on the UNCHANGED tree (not part of demo.sh): a cursor that was first run
// without a match limit keeps its grown capture-list pool, so lowering the limit afterwards
// is not honoured, while a fresh cursor with the same limit drops matches.
#include <stdio.h>
#include <string.h>
#include "tree_sitter/api.h"
const TSLanguage *tree_sitter_c11demo(void);
static unsigned run(TSQueryCursor *c, const TSQuery *q, TSNode root, bool *exceeded) {
  TSQueryMatch m; unsigned n = 0;
  ts_query_cursor_exec(c, q, root);
  while (ts_query_cursor_next_match(c, &m)) n++;
  *exceeded = ts_query_cursor_did_exceed_match_limit(c);
  return n;
}
int main(void) {
  const char *doc = "a: #x #y #z #w #v #u; b:2;";
  const char *src = "(pair (key) @k (tag) @t1 (tag) @t2)";
  TSParser *p = ts_parser_new();
  ts_parser_set_language(p, tree_sitter_c11demo());
  TSTree *t = ts_parser_parse_string(p, NULL, doc, strlen(doc));
  uint32_t eo; TSQueryError et;
  TSQuery *q = ts_query_new(tree_sitter_c11demo(), src, strlen(src), &eo, &et);
  TSNode root = ts_tree_root_node(t);
  bool ex;
  TSQueryCursor *fresh = ts_query_cursor_new();
  ts_query_cursor_set_match_limit(fresh, 2);
  unsigned n1 = run(fresh, q, root, &ex);
  printf("fresh cursor, limit 2:            %u matches, exceeded=%d\n", n1, ex);
  TSQueryCursor *reused = ts_query_cursor_new();
  unsigned n0 = run(reused, q, root, &ex);
  printf("reused cursor, 1st run unlimited: %u matches, exceeded=%d\n", n0, ex);
  ts_query_cursor_set_match_limit(reused, 2);
  bool ex2;
  unsigned n2 = run(reused, q, root, &ex2);
  printf("reused cursor, 2nd run limit 2:   %u matches, exceeded=%d\n", n2, ex2);
  return !(n1 == n2);
}
