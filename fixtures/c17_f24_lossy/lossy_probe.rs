//! Not part of demo.sh: probes behaviour of the UNCHANGED tree that already
//! looks like a C17 violation (see NOTES.md, "Observed on the unchanged tree").
use tree_sitter::LossyUtf8;
use tree_sitter_highlight::{HighlightEvent, HtmlRenderer};

fn main() {
    for input in [
        &b"hi\xc0"[..],
        &b"abc\xe2\x82"[..],
        &b"abc\xf0\x9f"[..],
        &b"abc\xe2\x82 def"[..],
    ] {
        let parts = LossyUtf8::new(input).collect::<Vec<_>>();
        let mut renderer = HtmlRenderer::new();
        let events = [Ok(HighlightEvent::Source { start: 0, end: input.len() })];
        renderer.render(events.into_iter(), input, &|_, _| {}).unwrap();
        println!(
            "input {:?}\n  LossyUtf8      -> {:?}\n  from_utf8_lossy -> {:?}\n  HtmlRenderer    -> {:?}",
            input.escape_ascii().to_string(),
            parts,
            String::from_utf8_lossy(input),
            String::from_utf8_lossy(&renderer.html),
        );
    }
}
