#!/usr/bin/env python3
"""False-alarm sweep #2 for the MIR-based rules: rewrites each simple comparison `a op b` of every Rust function
the evidence of a property names into the equivalent `b op' a` (one at a time, in a scratch copy of the workspace)
and requires the property's quick check to stay silent.  Sequential (one cargo target dir).

usage: tools/flip_sweep_rs.py [--prop Cxx] [--limit N]
"""
import json, os, re, shutil, subprocess, sys, tempfile

HERE = os.path.dirname(os.path.dirname(os.path.abspath(__file__)))
REPO = os.environ.get("VERIF_REPO", "/repo")
RS_TARGET = os.environ.get("VERIF_MUT_RS_TARGET") or "/tmp/ts-verif-mut-rs-target-%d" % os.getpid()
WITNESS_TARGET = "/tmp/ts-verif-mut-witness-target-%d" % os.getpid()
sys.path.insert(0, os.path.join(HERE, "engines"))
sys.path.insert(0, os.path.join(HERE, "engines", "rules"))
CRATES = ["tree_sitter_cli", "tree_sitter_loader", "tree_sitter_generate", "tree_sitter_highlight", "tree_sitter_tags", "tree_sitter"]
FLIP = {"==": "==", "!=": "!=", "<": ">", ">": "<", "<=": ">=", ">=": "<="}
ATOM = r"[*&]?[A-Za-z_][\w]*(?:\.[A-Za-z_0-9]\w*|\[[\w\s+\-]+\])*(?:\(\))?"
CMP = re.compile(r"(?:(?<=if )|(?<=&& )|(?<=\|\| )|(?<=while ))(" + ATOM + r") (==|!=|<=|>=|<|>) (" + ATOM + r"|\d+)(?=\s*(?:\{|&&|\|\||\n))")
KEYWORDS = {"self", "super", "crate", "in", "for", "if", "else", "match", "let", "mut", "ref", "fn", "move", "as", "loop", "while", "return", "break", "continue", "true", "false"}


def main():
    args = sys.argv[1:]
    prop, limit = None, None
    while args:
        a = args.pop(0)
        if a == "--prop": prop = args.pop(0)
        elif a == "--limit": limit = int(args.pop(0))
    import extract
    facts = {c: extract.rsfacts(c) for c in CRATES}
    props = [prop] if prop else ["C01", "C07", "C10", "C11", "C13", "C14", "C15", "C17", "C18", "C19", "C20"]
    jobs = []
    for p in props:
        ev = json.load(open(os.path.join(HERE, "evidence", p + ".json")))
        text = " ".join(i["key"] + " " + (i.get("detail") or "") + " " + json.dumps(i) for i in ev["coverage"]["instances"] if i["config"] in ("rust", "rustc"))
        for c, F in facts.items():
            for fn in F.fn_list:
                short = re.sub(r"::<[^>]*>", "", fn.name)
                last2 = "::".join(short.split("::")[-2:])
                if fn.j.get("derived") or "{closure" in fn.name or not fn.file.endswith(".rs"):
                    continue
                if last2 in text or short in text:
                    path = os.path.join(REPO, fn.file)
                    if not os.path.exists(path):
                        continue
                    lines = open(path).read().split("\n")
                    body = "\n".join(lines[fn.line - 1:fn.end])
                    for k, m in enumerate(CMP.finditer(body)):
                        a, op, b = m.group(1), m.group(2), m.group(3)
                        new = body[:m.start()] + "%s %s %s" % (b, FLIP[op], a) + body[m.end():]
                        jobs.append((p, fn.name, "%s %s %s#%d" % (a, op, b, k), fn.file, body, new))
    seen = set()
    jobs = [j for j in jobs if not ((j[0], j[1], j[2]) in seen or seen.add((j[0], j[1], j[2])))]
    if limit:
        jobs = jobs[:limit]
    print("rust flip sweep: %d variants" % len(jobs))
    counts, bad = {}, 0
    for p, fname, nm, file, body, new in jobs:
        scratch = tempfile.mkdtemp(prefix="ts-verif-flrs-")
        try:
            subprocess.run(["rsync", "-a", "--exclude", "target", "--exclude", ".git", "--exclude", "docs", REPO + "/", scratch + "/"], check=True)
            fp = os.path.join(scratch, file)
            s = open(fp).read()
            if body not in s:
                st, detail = "STALE", ""
            else:
                open(fp, "w").write(s.replace(body, new, 1))
                env = dict(os.environ, VERIF_REPO=scratch, VERIF_OUT=scratch + "/.out", VERIF_MUTANT="1", VERIF_CACHE=scratch + "/.cache",
                           VERIF_RS_TARGET=RS_TARGET, VERIF_WITNESS_TARGET=WITNESS_TARGET)
                r = subprocess.run([os.path.join(HERE, "check"), p, "quick"], env=env, stdout=subprocess.PIPE, stderr=subprocess.STDOUT, text=True)
                rep = os.path.join(scratch, ".out", "reports", p)
                keys = [json.load(open(os.path.join(rep, f)))["key"] for f in os.listdir(rep)] if os.path.isdir(rep) else []
                if r.returncode == 0 and not keys:
                    st, detail = "SILENT", ""
                elif "rsfacts failed" in r.stdout or "could not compile" in r.stdout:
                    st, detail = "SKIP", "renamed copy does not compile"
                else:
                    st, detail = "FALSE-ALARM", "; ".join(keys[:3]) or r.stdout[-200:]
            counts[st] = counts.get(st, 0) + 1
            if st == "FALSE-ALARM":
                bad += 1
                print("FALSE-ALARM %s %s: flip `%s` → %s" % (p, fname, nm, detail), flush=True)
        finally:
            shutil.rmtree(scratch, ignore_errors=True)
    shutil.rmtree(RS_TARGET, ignore_errors=True)
    print("rust flip sweep result:", counts)
    return 1 if bad else 0


if __name__ == "__main__":
    sys.exit(main())
