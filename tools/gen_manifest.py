#!/usr/bin/env python3
"""Writes MANIFEST.json from the table below (one place to keep claims, techniques and N/A reasons)."""
import json, os

HERE = os.path.dirname(os.path.dirname(os.path.abspath(__file__)))

LEVEL_TEXT = ("static rule instances over the resolved program (Clang AST/CFG of the C runtime, rustc MIR of the crates); "
              "decides the named structural clauses — necessary conditions of the property — on every path, not the behaviour itself")
NOTE = ("trusted: Clang 14 front end and CFG builder, rustc nightly MIR, the frozen rule tables in props/ (one reason per line); "
        "partial claim: see DESIGN.md for what is and is not decided")

CLAIMS = {
    # id: (technique, design_ref, extra level text)
    "C01": ("path-sensitive must-pass-through (gate) and ordering rules over Clang CFGs with flag tracking", "§4 C01",
            "every accept exit of node/token reuse is dominated by all reuse checks with the required outcome"),
    "C02": ("who-may-write tables for cached summary fields, bottom-up ordering rule, pairing rule for error-cost propagation over Clang CFGs", "§4 C02",
            "advertised child/descendant counts are the summariser's; rotations re-summarise bottom-up; error cost always reaches the parent and has_error is cost > 0"),
    "C04": ("must-pass-through gates with enum-flag tracking over Clang CFGs; who-may-append table for TSRangeArray", "§4 C04",
            "a pair of subtrees is skipped only after every difference test and the included-range-difference test failed; changed steps are recorded; ranges appended only via the merging helper"),
    "C06": ("sibling agreement (CFG isomorphism under substitution), field coverage of cursor entries, index-width cast scan, gates on field selection", "§4 C06",
            "byte/point and all/named variants are the same algorithm; iterators keep the structural-index discipline; no narrowed tree index"),
    "C09": ("field-coverage classification of parser/lexer state + all-paths reset rules + resume-path store discipline over Clang CFGs", "§4 C09",
            "every piece of parser state is reset between documents and none is clobbered when a cancelled parse is resumed"),
    "C10": ("ordering rules (mark + write back every visited node), licensed-skip monitor, gates on early loop exit and in-place inline rewrite, field coverage of leaf promotion", "§4 C10",
            "everything on the edited path is marked; a child is skipped only by the look-ahead-aware tests; stored ranges and stand-alone point/node edits use the same entry points"),
    "C11": ("pairing rule (flag set before every exhaustion-caused discard), field coverage of cursor re-initialisation, gate on match removal", "§4 C11",
            "a match limit that drops matches is always reported; re-executing a cursor starts from clean per-execution state"),
    "C12": ("feasibility of the reuse accept exits under constant/flag propagation; ordering (reuse → token cache → lexer); loop-progress monitor on the old-tree walk; gates on what the edit marks", "§4 C12",
            "necessary conditions for reuse only — the quantitative fractions are runtime quantities and are not decided"),
    "C13": ("must-pass-through gates on the range setter's validation loop and on the lexer's range-boundary handling; wiring checks of what the tree records", "§4 C13",
            "a range list is installed only after each element passed both ordering tests; trees record/report exactly the lexer's ranges; tokens never end inside a gap"),
    "C14": ("must-pass-through gates on the runtime keyword re-lex and word-token fall-back (Clang CFG) and on the generator's keyword identification (rustc MIR)", "§4 C14",
            "ONLY the keyword clause: a keyword replaces the word token only when it covers the whole word; the precedence/longest-match/ordering clauses are not decided"),
    "C07": ("bounded-write rule (interval tracking of each index over tests and increments on every path), who-may-call table for libc's allocator, field coverage of delete functions", "§4 C07",
            "discipline, not safety: every write into a constant-size array has its own bound; only alloc.c touches libc's allocator; delete functions release every owning field"),
    "C15": ("determinism scan over all resolved calls/casts of tree-sitter-generate's MIR (expected zero + positive fixture); vet-before-advance monitor and gates on the state-merging licence", "§4 C15",
            "no iteration over RandomState-hashed containers or other process-dependent sources; states are merged only after every consumed entry was vetted; tree equality of optimised/unoptimised parsers is not decided"),
    "C17": ("pairing rules in both directions (push↔HighlightStart, pop↔HighlightEnd), who-may-construct table for events, gates on Source emission, termination and HTML escaping (rustc MIR)", "§4 C17",
            "events are emitted exactly where the end-position stack changes; raw bytes reach the HTML only when escape-free; a reused renderer/parser is reset; injected layers parse only ranges produced by intersect_ranges, which re-clamps against every parent range; ordering across layers and local-reference colouring are not decided"),
    "C16": ("must-pass-through gates over Clang CFGs of language.c / language.h (exact-match licence of name look-ups, loop ranges, table bounds, termination and skip conditions of the look-ahead iterator) and store-shape / per-iteration obligation rules over rustc MIR of node_types.rs and render.rs (merged claims only weaken, every contributing rule merged, aliases reuse symbols by published name)", "§10.8 C16",
            "symbol and field names are resolved only by exact match over the whole id range and id→name reads stay inside the tables; the look-ahead iterator stops only at the end of the row / group list and skips only empty entries; conformance to node-types.json and superset look-ahead sets (generated data) are not decided"),
    "C18": ("value-flow (expression provenance) rules over rustc MIR of tree-sitter-tags: which node and positions every Tag / per-line-cache field is computed from; gates on cache reuse, on dropping local names and on the line window bounds", "§10.7 C18",
            "range is the hull of tag and name ranges, span/line/UTF-16 columns are computed from the name node, the same-row cache stores and is used for consistent positions, the line window is clamped to the text; the numeric relations themselves (UTF-16 lengths, rows/columns) and doc text are not decided"),
    "C19": ("typestate monitor (lock held / dropped) and publish-after-success monitor over rustc MIR; who-may-call table for the compile functions; data-dependence of the compiler's output argument on temp_path", "§4 C19",
            "compile only under the lock, lock dropped on every exit, atomic publication via temp+rename after success, waiter re-checks freshness; interleavings and crash points themselves are not decided"),
    "C20": ("field-flow tracing of TestCorrection arguments, type-aware taint from the reader's delimiter tuple to the entry, path counting of recorded corrections with correlated pure conditions (rustc MIR)", "§4 C20",
            "what the reader extracts is what the writer gets, and every test is recorded exactly once on update; byte-for-byte idempotence is not decided"),
    "C08": ("who-may-write tables + licence-class gates over the Clang-resolved program; call-graph closure of the read-only API; compile-fail witnesses", "§4 C08",
            "no non-atomic write to shared nodes, every in-place mutation licensed by fresh/ref_count==1/dec-to-zero"),
}

NA = {
    "C03": "quantifies over grammars × strings; truth lives in generated table contents, not in code shape — no sound static rule in reach",
    "C05": "match semantics of the query automaton over all trees is a runtime relation; no structural necessary condition that is not a frozen fragment",
}


def main():
    ids = []
    for l in open(os.path.join(HERE, "properties.jsonl")):
        ids.append(json.loads(l)["id"])
    checks = []
    for pid in ids:
        if pid not in CLAIMS:
            continue
        tech, ref, extra = CLAIMS[pid]
        checks.append({
            "property_id": pid,
            "quick_cmd": "./check %s quick" % pid,
            "thorough_cmd": "./check %s thorough" % pid,
            "evidence_file": "evidence/%s.json" % pid,
            "replay_cmd_template": "./check %s quick --explain {path}" % pid,
            "engine": "rules",
            "level_claimed": {"category": "other", "text": LEVEL_TEXT + "; here: " + extra, "design_ref": "DESIGN.md " + ref},
            "level_note": NOTE,
            "technique": "static analysis: " + tech,
        })
    na = []
    for pid in ids:
        if pid in CLAIMS:
            continue
        na.append({"property_id": pid, "reason": NA.get(pid, "not yet covered by a rule that is exact on the pinned tree (static analysis only); see DESIGN.md")})
    man = {
        "version": 1,
        "setup_cmd": "./setup.sh",
        "hooks": {"guard": "tree_sitter_verif", "enable": "none needed: the checks analyse source and never instrument or run it",
                  "baseline_off_cmd": "cd /repo && cargo nextest run --workspace --no-fail-fast --test-threads 8 --offline || cargo test --workspace --no-fail-fast --offline",
                  "source_commits": [], "add_only": True},
        "engines": [
            {"name": "cfacts", "path": "engines/cfacts", "serves_properties": [c for c in CLAIMS], "kind_free_text": "LibTooling extractor: Clang AST + CFG of lib/src/lib.c with build.rs flags → JSON facts"},
            {"name": "rsfacts", "path": "engines/rsfacts", "serves_properties": ["C19", "C20", "C15", "C16", "C17", "C18", "C01", "C13", "C14", "C07", "C10", "C11"], "kind_free_text": "rustc_private driver: MIR/HIR facts of the workspace crates → JSON facts"},
            {"name": "rules", "path": "engines/rules", "serves_properties": [c for c in CLAIMS], "kind_free_text": "Python rule engine: patterns, path-sensitive CFG search with flag tracking, who-may/field/sibling rules; tables in props/"},
        ],
        "checks": checks,
        "not_applicable": na,
        "notes": "Technique family: static analysis only. Every check re-extracts facts from /repo's working tree; nothing under test is executed.",
    }
    with open(os.path.join(HERE, "MANIFEST.json"), "w") as f:
        json.dump(man, f, indent=1)
    print("MANIFEST.json: %d checks, %d not applicable" % (len(checks), len(na)))


if __name__ == "__main__":
    main()
