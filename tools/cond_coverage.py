#!/usr/bin/env python3
"""Gap finder (development aid, not a check): runs a property's C rules and lists, for every function
some rule looked into, the branch conditions that no gate pattern ever matched — candidates for
clauses no rule covers yet.

usage: tools/cond_coverage.py Cxx
"""
import importlib, os, sys
HERE = os.path.dirname(os.path.dirname(os.path.abspath(__file__)))
for d in ("engines", os.path.join("engines", "rules"), "props"):
    sys.path.insert(0, os.path.join(HERE, d))
os.environ.setdefault("VERIF_MUTANT", "1")
os.environ["VERIF_OUT"] = "/tmp/ts-verif-condcov-%d" % os.getpid()
import pat
pat.COND_HITS = set()
import rsrules
rsrules.RS_COND_HITS = set()
from core import Ctx
import extract
from facts import show


def main():
    prop = sys.argv[1]
    ctx = Ctx(prop, "quick", 0)
    ctx.repo = extract.REPO
    ctx.extract = extract
    mod = importlib.import_module(prop)
    devnull = open(os.devnull, "w")
    so = sys.stdout
    sys.stdout = devnull
    try:
        mod.run(ctx)
    finally:
        sys.stdout = so
    if len(sys.argv) > 3 and sys.argv[2] == "--rust":
        import rsrules
        F = extract.rsfacts(sys.argv[3])
        hits = rsrules.RS_COND_HITS or set()
        for name in sorted({f for f, _ in hits}):
            fn = next((f for f in F.fn_list if f.name == name), None)
            if fn is None:
                continue
            rows = []
            total = 0
            for b in fn.blocks.values():
                c = fn.cond(b.id)
                if c is None or len(b.succs) < 2:
                    continue
                txt = rsrules.cond_text(fn, c, True)[0]
                if txt.startswith("discriminant(") and ("Try>::branch" in txt or "Iterator>::next" in txt or "IntoIterator" in txt):
                    continue
                if any(getattr(e, "lab", None) and isinstance(e.lab, dict) and e.lab.get("unreachable") for e in b.succs) and "assert" in txt:
                    continue
                total += 1
                if (name, b.id) not in hits:
                    rows.append("%s  %s" % (fn.loc((b.id, max(0, len(b.elems) - 1))), txt[:120]))
            print("%s: %d of %d branch conditions never matched by a text gate" % (name, len(rows), total))
            for r in rows:
                print("    " + r)
        return
    F = extract.cfacts("A")
    hit_fns = {f for f, _ in pat.COND_HITS}
    for name in sorted(hit_fns):
        fn = F.fns.get(name)
        if fn is None:
            continue
        rows = []
        for b in fn.blocks.values():
            c = fn.cond(b.id)
            if c is None or len(b.succs) < 2:
                continue
            if (name, show(c)) not in pat.COND_HITS:
                rows.append("%s  %s" % (fn.loc((b.id, max(0, len(b.elems) - 1))), show(c)[:110]))
        total = sum(1 for b in fn.blocks.values() if fn.cond(b.id) is not None and len(b.succs) >= 2)
        print("%s: %d of %d branch conditions never matched by a rule" % (name, len(rows), total))
        for r in rows:
            print("    " + r)
    import shutil
    shutil.rmtree(os.environ["VERIF_OUT"], ignore_errors=True)


if __name__ == "__main__":
    main()
