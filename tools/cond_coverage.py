#!/usr/bin/env python3
"""Gap finder (development aid, not a check): runs a property's C rules and lists, for every function
some rule looked into, the branch conditions that no gate pattern ever matched — candidates for
clauses no rule covers yet.

usage: tools/cond_coverage.py Cxx
"""
import importlib, os, sys
HERE = os.path.dirname(os.path.dirname(os.path.abspath(__file__)))
for d in ("engines", os.path.join("engines", "rules"), "props"):
    sys.path.insert(0, os.path.join(HERE, d))
os.environ.setdefault("VERIF_MUTANT", "1")
os.environ["VERIF_OUT"] = "/tmp/ts-verif-condcov-%d" % os.getpid()
import pat
pat.COND_HITS = set()
from core import Ctx
import extract
from facts import show


def main():
    prop = sys.argv[1]
    ctx = Ctx(prop, "quick", 0)
    ctx.repo = extract.REPO
    ctx.extract = extract
    mod = importlib.import_module(prop)
    devnull = open(os.devnull, "w")
    so = sys.stdout
    sys.stdout = devnull
    try:
        mod.run(ctx)
    finally:
        sys.stdout = so
    F = extract.cfacts("A")
    hit_fns = {f for f, _ in pat.COND_HITS}
    for name in sorted(hit_fns):
        fn = F.fns.get(name)
        if fn is None:
            continue
        rows = []
        for b in fn.blocks.values():
            c = fn.cond(b.id)
            if c is None or len(b.succs) < 2:
                continue
            if (name, show(c)) not in pat.COND_HITS:
                rows.append("%s  %s" % (fn.loc((b.id, max(0, len(b.elems) - 1))), show(c)[:110]))
        total = sum(1 for b in fn.blocks.values() if fn.cond(b.id) is not None and len(b.succs) >= 2)
        print("%s: %d of %d branch conditions never matched by a rule" % (name, len(rows), total))
        for r in rows:
            print("    " + r)
    import shutil
    shutil.rmtree(os.environ["VERIF_OUT"], ignore_errors=True)


if __name__ == "__main__":
    main()
