#!/usr/bin/env python3
"""Runs the checks against the externally written breaking changes kept under seeded/<name>/.

Each change is applied to a scratch copy of the repository (outside /repo and /verif, removed
afterwards); the property's quick check (or every claimed property with --all) is run on the copy
and the rule instances that fire are listed.  Prints a catch matrix; exits 1 if a seeded change
that meta.json marks as "expected_caught" is missed.

usage: tools/seeded.py [--name substr] [--all] [--write]
"""
import json, os, shutil, subprocess, sys, tempfile

HERE = os.path.dirname(os.path.dirname(os.path.abspath(__file__)))
REPO = os.environ.get("VERIF_REPO", "/repo")
RS_TARGET = os.environ.get("VERIF_MUT_RS_TARGET") or "/tmp/ts-verif-mut-rs-target-%d" % os.getpid()
WITNESS_TARGET = "/tmp/ts-verif-mut-witness-target-%d" % os.getpid()


def claimed():
    return [c["property_id"] for c in json.load(open(os.path.join(HERE, "MANIFEST.json")))["checks"]]


def run_one(d, props, rs_facts):
    meta = json.load(open(os.path.join(d, "meta.json")))
    patch = os.path.join(d, "patch.diff")
    scratch = tempfile.mkdtemp(prefix="ts-verif-seed-")
    try:
        subprocess.run(["rsync", "-a", "--exclude", "target", "--exclude", ".git", "--exclude", "docs", "--exclude", "SEED", REPO + "/", scratch + "/"], check=True)
        r = subprocess.run(["patch", "-p1", "-s", "-i", patch], cwd=scratch, stdout=subprocess.PIPE, stderr=subprocess.STDOUT, text=True)
        if r.returncode != 0:
            return meta, {"error": "patch does not apply: " + r.stdout[-300:]}
        files = [l[6:].strip() for l in open(patch) if l.startswith("+++ b/")]
        c_only = all(f.startswith("lib/src/") or f.startswith("lib/include/") for f in files)
        env = dict(os.environ, VERIF_REPO=scratch, VERIF_OUT=scratch + "/.out", VERIF_MUTANT="1", VERIF_CACHE=scratch + "/.cache",
                   VERIF_RS_TARGET=RS_TARGET, VERIF_WITNESS_TARGET=WITNESS_TARGET)
        if c_only and rs_facts:
            env["VERIF_RS_FACTS_DIR"] = rs_facts
            env["VERIF_WITNESS_REPO"] = REPO
        out = {}
        for p in props:
            r = subprocess.run([os.path.join(HERE, "check"), p, "quick"], env=env, stdout=subprocess.PIPE, stderr=subprocess.STDOUT, text=True)
            keys = []
            rep = os.path.join(scratch, ".out", "reports", p)
            if os.path.isdir(rep):
                for f in sorted(os.listdir(rep)):
                    keys.append(json.load(open(os.path.join(rep, f)))["key"])
            if r.returncode not in (0, 1):
                out[p] = {"error": r.stdout[-400:]}
            elif keys:
                out[p] = {"keys": keys}
        return meta, out
    finally:
        shutil.rmtree(scratch, ignore_errors=True)


def main():
    args = sys.argv[1:]
    name = None
    allp = "--all" in args
    write = "--write" in args
    if "--name" in args:
        name = args[args.index("--name") + 1]
    base = os.path.join(HERE, "seeded")
    sys.path.insert(0, os.path.join(HERE, "engines"))
    rs_facts = None
    try:
        import extract
        rs_facts = extract.rsfacts_dir()
    except SystemExit:
        pass
    missed = 0
    rows = []
    for n in sorted(os.listdir(base)) if os.path.isdir(base) else []:
        d = os.path.join(base, n)
        if not os.path.exists(os.path.join(d, "meta.json")) or (name and name not in n):
            continue
        meta = json.load(open(os.path.join(d, "meta.json")))
        if meta.get("retired"):
            print("%-7s %-28s %s %s" % ("RETIRED", n, meta["property"], meta["retired"][:90]))
            continue
        props = claimed() if allp else [meta["property"]] if meta["property"] in claimed() else []
        meta, out = run_one(d, props, rs_facts)
        caught = {p: v["keys"] for p, v in out.items() if isinstance(v, dict) and v.get("keys")}
        status = "CAUGHT" if caught else ("N/A" if not props else "MISSED")
        if "error" in out:
            status = "ERROR " + out["error"]
        print("%-7s %-28s %s %s" % (status, n, meta["property"], "; ".join("%s" % k for p in caught for k in caught[p][:3])))
        rows.append({"name": n, "property": meta["property"], "status": status, "caught_by": caught})
        if status == "MISSED" and meta.get("expected_caught", False):
            missed += 1
        if write:
            json.dump({"status": status, "caught_by": caught}, open(os.path.join(d, "result.json"), "w"), indent=1)
    shutil.rmtree(RS_TARGET, ignore_errors=True)
    shutil.rmtree(WITNESS_TARGET, ignore_errors=True)
    print("seeded changes: %d, caught %d, missed %d" % (len(rows), sum(1 for r in rows if r["status"] == "CAUGHT"), sum(1 for r in rows if r["status"] == "MISSED")))
    return 1 if missed else 0


if __name__ == "__main__":
    sys.exit(main())
