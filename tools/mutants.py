#!/usr/bin/env python3
"""E5 — self-validation of the checkers: apply each mutant (a small source edit that still compiles)
to a scratch copy of the repository outside /repo and /verif, run the property's quick check on it
and require that the named rule instance fires.  This tests the *checker*, not tree-sitter.

usage: tools/mutants.py [--prop Cxx] [--name substr] [-j N]
Mutant files: mutants/<prop>/<name>.json = {"file": ..., "find": ..., "replace": ..., "expect": substr of a violation key,
                                            "edits": [ {file, find, replace}, ... ] (optional, instead of file/find/replace)}
"""
import json, os, shutil, subprocess, sys, tempfile, concurrent.futures, time

import threading
RS_FACTS = [None]
BENIGN = False
RUST_LOCK = threading.Lock()   # Rust mutants share one cargo target dir: one at a time
HERE = os.path.dirname(os.path.dirname(os.path.abspath(__file__)))
REPO = os.environ.get("VERIF_REPO", "/repo")
RS_TARGET = os.environ.get("VERIF_MUT_RS_TARGET") or "/tmp/ts-verif-mut-rs-target-%d" % os.getpid()
WITNESS_TARGET = "/tmp/ts-verif-mut-witness-target-%d" % os.getpid()


def run_one(path):
    m = json.load(open(path))
    prop = os.path.basename(os.path.dirname(path))
    name = os.path.basename(path)[:-5]
    edits = m.get("edits") or [{"file": m["file"], "find": m["find"], "replace": m["replace"]}]
    scratch = tempfile.mkdtemp(prefix="ts-verif-mut-")
    try:
        rust = any(not e["file"].startswith("lib/src") for e in edits) or m.get("rust")
        c_only = not rust
        if rust:
            subprocess.run(["rsync", "-a", "--exclude", "target", "--exclude", ".git", "--exclude", "docs", "--exclude", "test/fixtures/grammars",
                            REPO + "/", scratch + "/"], check=True)
        else:
            os.makedirs(scratch + "/lib")
            subprocess.run(["rsync", "-a", REPO + "/lib/src", REPO + "/lib/include", scratch + "/lib/"], check=True)
            os.makedirs(scratch + "/lib/binding_rust")
            shutil.copy(REPO + "/lib/binding_rust/build.rs", scratch + "/lib/binding_rust/build.rs")
        for e in edits:
            p = os.path.join(scratch, e["file"])
            s = open(p).read()
            if s.count(e["find"]) < 1:
                return name, prop, "STALE", "fragment not found in %s" % e["file"]
            s = s.replace(e["find"], e["replace"], e.get("count", 1))
            open(p, "w").write(s)
        env = dict(os.environ, VERIF_REPO=scratch, VERIF_OUT=scratch + "/.out", VERIF_MUTANT="1", VERIF_CACHE=scratch + "/.cache",
                   VERIF_RS_TARGET=RS_TARGET,
                   VERIF_WITNESS_TARGET=WITNESS_TARGET)
        if c_only and RS_FACTS[0]:
            env["VERIF_RS_FACTS_DIR"] = RS_FACTS[0]     # C-only mutation: Rust facts are those of the real tree
            env["VERIF_WITNESS_REPO"] = REPO
        if rust:
            RUST_LOCK.acquire()
        t = time.time()
        r = subprocess.run([os.path.join(HERE, "check"), prop, "quick"], env=env, stdout=subprocess.PIPE, stderr=subprocess.STDOUT, text=True)
        out = r.stdout
        keys = []
        rep = os.path.join(scratch, ".out", "reports", prop)
        if os.path.isdir(rep):
            for f in os.listdir(rep):
                keys.append(json.load(open(os.path.join(rep, f)))["key"])
        if m.get("benign"):
            # behaviour-preserving variant: the check must stay silent
            if r.returncode == 0 and not keys:
                return name, prop, "SILENT", "no alarm on a behaviour-preserving variant %.1fs" % (time.time() - t)
            if r.returncode not in (0, 1):
                return name, prop, "ERROR", out[-600:]
            return name, prop, "FALSE-ALARM", "keys=%s" % keys[:4]
        exp = m["expect"]
        exps = exp if isinstance(exp, list) else [exp]
        hit = [k for k in keys if any(x in k for x in exps)]
        if r.returncode == 1 and hit:
            return name, prop, "KILLED", "%s (+%d other) %.1fs" % (hit[0], len(keys) - len(hit), time.time() - t)
        if r.returncode not in (0, 1):
            return name, prop, "ERROR", out[-600:]
        return name, prop, "SURVIVED", "exit=%d keys=%s" % (r.returncode, keys[:5])
    finally:
        if RUST_LOCK.locked() and 'rust' in dir() and rust:
            try:
                RUST_LOCK.release()
            except RuntimeError:
                pass
        shutil.rmtree(scratch, ignore_errors=True)


def main():
    args = sys.argv[1:]
    prop = name = None
    j = 8
    global BENIGN
    while args:
        a = args.pop(0)
        if a == "--benign": BENIGN = True
        elif a == "--prop": prop = args.pop(0)
        elif a == "--name": name = args.pop(0)
        elif a == "-j": j = int(args.pop(0))
    paths = []
    base = os.path.join(HERE, "benign" if BENIGN else "mutants")
    for d in sorted(os.listdir(base)):
        if prop and d != prop: continue
        dd = os.path.join(base, d)
        if not os.path.isdir(dd): continue
        for f in sorted(os.listdir(dd)):
            if f.endswith(".json") and (not name or name in f):
                paths.append(os.path.join(dd, f))
    sys.path.insert(0, os.path.join(HERE, "engines"))
    try:
        import extract
        RS_FACTS[0] = extract.rsfacts_dir()
    except SystemExit as e:
        print("warning: could not extract Rust facts of the real tree:", e)
    res = []
    with concurrent.futures.ThreadPoolExecutor(j) as ex:
        for r in ex.map(run_one, paths):
            res.append(r)
            print("%-8s %s/%s  %s" % (r[2], r[1], r[0], r[3]))
    bad = [r for r in res if r[2] not in ("KILLED", "SILENT")]
    shutil.rmtree(RS_TARGET, ignore_errors=True)
    shutil.rmtree(WITNESS_TARGET, ignore_errors=True)
    print("%s: %d total, %d as expected, %d not" % ("benign variants" if BENIGN else "mutants", len(res), len(res) - len(bad), len(bad)))
    out = os.environ.get("VERIF_MUTANT_SUMMARY")
    if out:
        json.dump([{"name": r[0], "property": r[1], "status": r[2], "detail": r[3]} for r in res], open(out, "w"), indent=1)
    return 1 if bad else 0


if __name__ == "__main__":
    sys.exit(main())
