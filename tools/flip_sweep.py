#!/usr/bin/env python3
"""False-alarm sweep #2: for every C function a property's rules are anchored in, rewrite each simple
comparison `A op B` into the equivalent `B op' A` (one at a time, a behaviour-preserving edit) and
each `!x` test of a whole condition into `x == 0`, in a scratch copy, and require the property's
quick check to stay silent.

usage: tools/flip_sweep.py [--prop Cxx] [-j N] [--limit N]
"""
import json, os, re, sys, concurrent.futures

HERE = os.path.dirname(os.path.dirname(os.path.abspath(__file__)))
sys.path.insert(0, os.path.join(HERE, "tools"))
import rename_sweep as RS

FLIP = {"==": "==", "!=": "!=", "<": ">", ">": "<", "<=": ">=", ">=": "<="}
ATOM = r"[A-Za-z_][\w]*(?:(?:->|\.)[A-Za-z_]\w*|\[[\w]+\])*(?:\([\w\s,\*&\.\->]*\))?"
CMP = re.compile(r"(?:(?<=\()|(?<=&& )|(?<=\|\| ))(" + ATOM + r") (==|!=|<=|>=|<|>) (" + ATOM + r"|\d+)(?=\s*(?:\)|&&|\|\|))")


def variants(F, fname):
    fn = F.fns[fname]
    path = os.path.join(RS.REPO, fn.file)
    lines = open(path).read().split("\n")
    body = "\n".join(lines[fn.line - 1:fn.end])
    out = []
    for k, m in enumerate(CMP.finditer(body)):
        a, op, b = m.group(1), m.group(2), m.group(3)
        if a in ("sizeof",) or b in ("sizeof",):
            continue
        new = body[:m.start()] + "%s %s %s" % (b, FLIP[op], a) + body[m.end():]
        out.append(("%s %s %s#%d" % (a, op, b, k), fn.file, body, new))
    return out


def main():
    args = sys.argv[1:]
    prop, j, limit = None, 8, None
    while args:
        a = args.pop(0)
        if a == "--prop": prop = args.pop(0)
        elif a == "-j": j = int(args.pop(0))
        elif a == "--limit": limit = int(args.pop(0))
    sys.path.insert(0, os.path.join(HERE, "engines"))
    sys.path.insert(0, os.path.join(HERE, "engines", "rules"))
    import extract
    F = extract.cfacts("A")
    rs = None
    try:
        rs = extract.rsfacts_dir()
    except SystemExit:
        pass
    props = [prop] if prop else [c["property_id"] for c in json.load(open(os.path.join(HERE, "MANIFEST.json")))["checks"]]
    jobs = []
    for p in props:
        if not os.path.exists(os.path.join(HERE, "evidence", p + ".json")):
            continue
        for fname in RS.anchored_functions(p, F):
            for nm, file, body, new in variants(F, fname):
                jobs.append((p, fname, nm, file, body, new, rs))
    if limit:
        jobs = jobs[:limit]
    print("flip sweep: %d variants" % len(jobs))
    bad, counts = 0, {}
    with concurrent.futures.ThreadPoolExecutor(j) as ex:
        for p, fname, nm, st, detail in ex.map(RS.run_variant, jobs):
            counts[st] = counts.get(st, 0) + 1
            if st == "FALSE-ALARM":
                bad += 1
                print("FALSE-ALARM %s %s: flip `%s` → %s" % (p, fname, nm, detail))
    print("flip sweep result:", counts)
    return 1 if bad else 0


if __name__ == "__main__":
    sys.exit(main())
