#!/usr/bin/env python3
"""False-alarm sweep: for every C function a property's rules are anchored in, rename each local
variable / parameter (one at a time, a behaviour-preserving edit) in a scratch copy and require the
property's quick check to stay silent.  Anchored functions are taken from the evidence files.

usage: tools/rename_sweep.py [--prop Cxx] [-j N] [--limit N]
"""
import json, os, re, shutil, subprocess, sys, tempfile, concurrent.futures

HERE = os.path.dirname(os.path.dirname(os.path.abspath(__file__)))
REPO = os.environ.get("VERIF_REPO", "/repo")
sys.path.insert(0, os.path.join(HERE, "engines"))
sys.path.insert(0, os.path.join(HERE, "engines", "rules"))


def anchored_functions(prop, F):
    ev = json.load(open(os.path.join(HERE, "evidence", prop + ".json")))
    names = set()
    for i in ev["coverage"]["instances"]:
        for tok in re.findall(r"[A-Za-z_][A-Za-z_0-9]*", i["key"] + " " + (i.get("detail") or "")):
            if tok in F.fns and F.fns[tok].file.startswith("lib/src"):
                names.add(tok)
    return sorted(names)


def variants(F, fname):
    from facts import walk
    fn = F.fns[fname]
    path = os.path.join(REPO, fn.file)
    lines = open(path).read().split("\n")
    body = "\n".join(lines[fn.line - 1:fn.end])
    fn.defs(0)
    fields = set(re.findall(r"(?:\.|->)\s*([A-Za-z_][A-Za-z_0-9]*)", body))
    out = []
    for nm in sorted(set(fn._names.values())):
        if nm in fields or len(nm) < 2 or nm.startswith("_"):
            continue
        if not re.search(r"\b%s\b" % re.escape(nm), body):
            continue       # introduced by a macro expansion only
        new = re.sub(r"\b%s\b" % re.escape(nm), nm + "_rn", body)
        if new != body:
            out.append((nm, fn.file, body, new))
    return out


def run_variant(args):
    prop, fname, nm, file, body, new, rs_facts = args
    scratch = tempfile.mkdtemp(prefix="ts-verif-rn-")
    try:
        os.makedirs(scratch + "/lib")
        subprocess.run(["rsync", "-a", REPO + "/lib/src", REPO + "/lib/include", scratch + "/lib/"], check=True)
        os.makedirs(scratch + "/lib/binding_rust")
        shutil.copy(REPO + "/lib/binding_rust/build.rs", scratch + "/lib/binding_rust/build.rs")
        p = os.path.join(scratch, file)
        s = open(p).read()
        if body not in s:
            return prop, fname, nm, "STALE", ""
        open(p, "w").write(s.replace(body, new, 1))
        # must still compile
        cc = subprocess.run(["clang", "-fsyntax-only", "-std=c11", "-I" + scratch + "/lib/src", "-I" + scratch + "/lib/include", "-D_POSIX_C_SOURCE=200112L",
                             "-D_DEFAULT_SOURCE", "-Wno-everything", scratch + "/lib/src/lib.c"], stdout=subprocess.PIPE, stderr=subprocess.STDOUT, text=True)
        if cc.returncode != 0:
            return prop, fname, nm, "SKIP", "renamed copy does not compile (macro captures the name)"
        env = dict(os.environ, VERIF_REPO=scratch, VERIF_OUT=scratch + "/.out", VERIF_MUTANT="1", VERIF_CACHE=scratch + "/.cache", VERIF_WITNESS_REPO=REPO)
        if rs_facts:
            env["VERIF_RS_FACTS_DIR"] = rs_facts
        r = subprocess.run([os.path.join(HERE, "check"), prop, "quick"], env=env, stdout=subprocess.PIPE, stderr=subprocess.STDOUT, text=True)
        keys = []
        rep = os.path.join(scratch, ".out", "reports", prop)
        if os.path.isdir(rep):
            keys = [json.load(open(os.path.join(rep, f)))["key"] for f in os.listdir(rep)]
        if r.returncode == 0 and not keys:
            return prop, fname, nm, "SILENT", ""
        return prop, fname, nm, "FALSE-ALARM", "; ".join(keys[:3]) or r.stdout[-200:]
    finally:
        shutil.rmtree(scratch, ignore_errors=True)


def main():
    args = sys.argv[1:]
    prop = None
    j = 8
    limit = None
    while args:
        a = args.pop(0)
        if a == "--prop": prop = args.pop(0)
        elif a == "-j": j = int(args.pop(0))
        elif a == "--limit": limit = int(args.pop(0))
    import extract
    F = extract.cfacts("A")
    rs = None
    try:
        rs = extract.rsfacts_dir()
    except SystemExit:
        pass
    props = [prop] if prop else [c["property_id"] for c in json.load(open(os.path.join(HERE, "MANIFEST.json")))["checks"]]
    jobs = []
    for p in props:
        if not os.path.exists(os.path.join(HERE, "evidence", p + ".json")):
            continue
        for fname in anchored_functions(p, F):
            for nm, file, body, new in variants(F, fname):
                jobs.append((p, fname, nm, file, body, new, rs))
    if limit:
        jobs = jobs[:limit]
    print("rename sweep: %d variants" % len(jobs))
    bad = 0
    counts = {}
    with concurrent.futures.ThreadPoolExecutor(j) as ex:
        for p, fname, nm, st, detail in ex.map(run_variant, jobs):
            counts[st] = counts.get(st, 0) + 1
            if st == "FALSE-ALARM":
                bad += 1
                print("FALSE-ALARM %s %s: rename `%s` → %s" % (p, fname, nm, detail))
    print("rename sweep result:", counts)
    return 1 if bad else 0


if __name__ == "__main__":
    sys.exit(main())
