// cfacts — C fact extractor for the tree-sitter runtime (engine E1, see DESIGN.md §2).
//
// Parses one translation unit with the flags given after `--`, and writes a JSON fact file:
//   records, enums, typedefs, globals, and for every function *defined in a file under the
//   given root*: its parameters, locals and its Clang CFG with every element as a small
//   expression tree (callees and fields resolved, integer constants evaluated).
//
// usage: cfacts <root-prefix> <out.json> <source.c> -- <compiler flags...>
//
// Nothing is executed; this is a front-end-only pass (Sema + CFG builder).

#include "clang/AST/ASTConsumer.h"
#include "clang/AST/ASTContext.h"
#include "clang/AST/Decl.h"
#include "clang/AST/Expr.h"
#include "clang/AST/RecursiveASTVisitor.h"
#include "clang/AST/Stmt.h"
#include "clang/Analysis/CFG.h"
#include "clang/Basic/SourceManager.h"
#include "clang/Frontend/CompilerInstance.h"
#include "clang/Frontend/FrontendAction.h"
#include "clang/Lex/Lexer.h"
#include "clang/Tooling/CompilationDatabase.h"
#include "clang/Tooling/Tooling.h"
#include "llvm/Support/JSON.h"
#include "llvm/Support/raw_ostream.h"

#include <functional>
#include <map>
#include <set>
#include <string>

using namespace clang;
namespace json = llvm::json;

static std::string gRoot;
static std::string gOut;

namespace {

struct Extractor {
  ASTContext &Ctx;
  SourceManager &SM;
  PrintingPolicy PP;
  std::map<const Decl *, int> DeclIds;
  // per function: Stmt -> (block, index) for every CFG element
  std::map<const Stmt *, std::pair<int, int>> ElemOf;
  const Stmt *CurrentElem = nullptr;

  Extractor(ASTContext &C) : Ctx(C), SM(C.getSourceManager()), PP(C.getLangOpts()) {
    PP.AnonymousTagLocations = false;
    PP.SuppressTagKeyword = false;
  }

  int idOf(const Decl *D) {
    D = D->getCanonicalDecl();
    auto It = DeclIds.find(D);
    if (It != DeclIds.end()) return It->second;
    int Id = (int)DeclIds.size() + 1;
    DeclIds[D] = Id;
    return Id;
  }

  std::string ty(QualType T) { return T.getAsString(PP); }

  // name of a record; anonymous members take the name of the nearest named enclosing record
  std::string recName(const RecordDecl *RD) {
    while (RD) {
      std::string N = RD->getNameAsString();
      if (N.empty()) if (auto *TD = RD->getTypedefNameForAnonDecl()) N = TD->getNameAsString();
      if (!N.empty()) return N;
      if (!RD->isAnonymousStructOrUnion()) return "";   // an unnamed struct *type* of a named field
      RD = dyn_cast_or_null<RecordDecl>(RD->getParent());
    }
    return "";
  }

  std::string fileOf(SourceLocation L) {
    L = SM.getExpansionLoc(L);
    auto F = SM.getFilename(L);
    return F.str();
  }
  bool inRoot(SourceLocation L) {
    std::string F = fileOf(L);
    return F.compare(0, gRoot.size(), gRoot) == 0;
  }
  std::string relFile(SourceLocation L) {
    std::string F = fileOf(L);
    if (F.compare(0, gRoot.size(), gRoot) == 0) F = F.substr(gRoot.size());
    // normalise "./x.c" fragments produced by the unity includes
    std::string Out;
    size_t i = 0;
    while (i < F.size()) {
      if (F.compare(i, 2, "./") == 0 && (i == 0 || F[i - 1] == '/')) { i += 2; continue; }
      Out.push_back(F[i++]);
    }
    return Out;
  }
  unsigned lineOf(SourceLocation L) { return SM.getExpansionLineNumber(L); }

  json::Array macroStack(SourceLocation L) {
    json::Array A;
    std::vector<std::string> Names;
    while (L.isMacroID()) {
      if (SM.isMacroBodyExpansion(L)) {
        StringRef N = Lexer::getImmediateMacroName(L, SM, Ctx.getLangOpts());
        Names.push_back(N.str());
        L = SM.getImmediateExpansionRange(L).getBegin();
      } else {
        L = SM.getImmediateSpellingLoc(L);  // macro argument: climb to the use inside the body
        if (!L.isMacroID()) break;
        // after spelling loc of an argument we are in the caller's text (possibly another macro)
      }
      if (Names.size() > 8) break;
    }
    for (auto It = Names.rbegin(); It != Names.rend(); ++It) A.push_back(*It);
    return A;
  }

  json::Object loc(const Stmt *S) {
    json::Object O;
    SourceLocation L = S->getBeginLoc();
    O["f"] = relFile(L);
    O["l"] = (int64_t)lineOf(L);
    if (L.isMacroID()) O["m"] = macroStack(L);
    return O;
  }

  bool evalInt(const Expr *E, llvm::APSInt &Out) {
    if (E->isValueDependent()) return false;
    if (!E->getType()->isIntegralOrEnumerationType()) return false;
    if (!E->isPRValue()) return false;
    if (E->HasSideEffects(Ctx)) return false;
    Expr::EvalResult R;
    if (!E->EvaluateAsInt(R, Ctx)) return false;
    Out = R.Val.getInt();
    return true;
  }

  json::Value E(const Stmt *S) {
    if (!S) return nullptr;
    json::Value V = E1(S);
    if (auto *O = V.getAsObject()) {
      if (S != CurrentElem) {
        auto It = ElemOf.find(S);
        if (It != ElemOf.end())
          (*O)["el"] = json::Array{It->second.first, It->second.second};
      }
    }
    return V;
  }

  json::Value E1(const Stmt *S) {
    if (auto *P = dyn_cast<ParenExpr>(S)) return E(P->getSubExpr());
    if (auto *F = dyn_cast<FullExpr>(S)) return E(F->getSubExpr());
    if (auto *Ex = dyn_cast<Expr>(S)) {
      // null pointer constants
      if (Ex->getType()->isPointerType() && !Ex->isValueDependent() &&
          Ex->isNullPointerConstant(Ctx, Expr::NPC_ValueDependentIsNotNull)) {
        return json::Object{{"k", "null"}};
      }
      // enumerator reference: keep the name
      if (auto *DR = dyn_cast<DeclRefExpr>(Ex->IgnoreParenImpCasts())) {
        if (auto *EC = dyn_cast<EnumConstantDecl>(DR->getDecl())) {
          return json::Object{{"k", "int"},
                              {"v", EC->getInitVal().getExtValue()},
                              {"name", EC->getNameAsString()}};
        }
      }
      llvm::APSInt I;
      if (!isa<DeclRefExpr>(Ex) && evalInt(Ex, I)) {
        json::Object O{{"k", "int"}};
        if (I.isSigned()) O["v"] = I.getSExtValue();
        else if (I.getActiveBits() <= 63) O["v"] = (int64_t)I.getZExtValue();
        else O["v"] = std::to_string(I.getZExtValue());
        if (auto *U = dyn_cast<UnaryExprOrTypeTraitExpr>(Ex->IgnoreParenImpCasts())) {
          if (U->getKind() == UETT_SizeOf) {
            O["sizeof"] = U->isArgumentType() ? ty(U->getArgumentType())
                                              : ty(U->getArgumentExpr()->getType());
            if (!U->isArgumentType()) O["of"] = E(U->getArgumentExpr());
          }
        }
        return std::move(O);
      }
    }
    if (auto *C = dyn_cast<ImplicitCastExpr>(S)) return E(C->getSubExpr());
    if (auto *C = dyn_cast<CStyleCastExpr>(S)) {
      json::Object O{{"k", "cast"},
                     {"to", ty(C->getType())},
                     {"from", ty(C->getSubExpr()->IgnoreParenImpCasts()->getType())},
                     {"e", E(C->getSubExpr())}};
      QualType To = C->getType(), From = C->getSubExpr()->IgnoreParenImpCasts()->getType();
      if (To->isIntegralOrEnumerationType()) {
        O["tobits"] = (int64_t)Ctx.getTypeSize(To);
        O["tosigned"] = To->isSignedIntegerOrEnumerationType();
      }
      if (From->isIntegralOrEnumerationType()) {
        O["frombits"] = (int64_t)Ctx.getTypeSize(From);
        O["fromsigned"] = From->isSignedIntegerOrEnumerationType();
      }
      if (To->isPointerType() && From->isPointerType()) {
        bool FromConst = From->getPointeeType().isConstQualified();
        bool ToConst = To->getPointeeType().isConstQualified();
        if (FromConst && !ToConst) O["dropconst"] = true;
      }
      return std::move(O);
    }
    if (auto *L = dyn_cast<StringLiteral>(S)) {
      return json::Object{{"k", "str"}, {"v", L->getBytes().str()}};
    }
    if (auto *L = dyn_cast<FloatingLiteral>(S)) {
      return json::Object{{"k", "float"}, {"v", L->getValueAsApproximateDouble()}};
    }
    if (auto *DR = dyn_cast<DeclRefExpr>(S)) {
      const ValueDecl *D = DR->getDecl();
      json::Object O{{"k", "ref"}, {"name", D->getNameAsString()}, {"id", idOf(D)}};
      if (isa<ParmVarDecl>(D)) O["dk"] = "param";
      else if (auto *VD = dyn_cast<VarDecl>(D)) O["dk"] = VD->isLocalVarDecl() ? "local" : "global";
      else if (isa<FunctionDecl>(D)) O["dk"] = "fn";
      else O["dk"] = "other";
      O["t"] = ty(DR->getType());
      return std::move(O);
    }
    if (auto *M = dyn_cast<MemberExpr>(S)) {
      // members of anonymous structs/unions: collapse the implicit accesses, so that
      // `x->visible_child_count` is one node whose record is the nearest *named* record
      const Expr *Base = M->getBase();
      bool Arrow = M->isArrow();
      if (auto *FD0 = dyn_cast<FieldDecl>(M->getMemberDecl())) {
        if (FD0->isAnonymousStructOrUnion()) return E(Base);  // never the outermost node in practice
      }
      while (true) {
        const Expr *B2 = Base->IgnoreParenImpCasts();
        auto *BM = dyn_cast<MemberExpr>(B2);
        if (!BM) break;
        auto *BF = dyn_cast<FieldDecl>(BM->getMemberDecl());
        if (!BF || !BF->isAnonymousStructOrUnion()) break;
        Arrow = BM->isArrow();
        Base = BM->getBase();
      }
      json::Object O{{"k", "mem"}, {"f", M->getMemberDecl()->getNameAsString()}, {"arrow", Arrow}};
      if (auto *FD = dyn_cast<FieldDecl>(M->getMemberDecl())) {
        const RecordDecl *RD = FD->getParent();
        O["rec"] = recName(RD);
        O["fid"] = idOf(FD);
      }
      QualType BT = Base->IgnoreParenImpCasts()->getType();
      if (Arrow && BT->isPointerType()) BT = BT->getPointeeType();
      O["bt"] = ty(BT.getUnqualifiedType());
      O["t"] = ty(M->getType());
      O["b"] = E(Base);
      return std::move(O);
    }
    if (auto *A = dyn_cast<ArraySubscriptExpr>(S)) {
      json::Object O{{"k", "idx"}, {"b", E(A->getBase())}, {"i", E(A->getIdx())}};
      QualType BT = A->getBase()->IgnoreParenImpCasts()->getType();
      if (auto *CAT = Ctx.getAsConstantArrayType(BT)) O["bound"] = (int64_t)CAT->getSize().getZExtValue();
      O["t"] = ty(A->getType());
      return std::move(O);
    }
    if (auto *C = dyn_cast<CallExpr>(S)) {
      json::Object O{{"k", "call"}};
      if (const FunctionDecl *FD = C->getDirectCallee()) {
        O["fn"] = FD->getNameAsString();
        if (FD->getBuiltinID()) O["builtin"] = true;
        if (FD->isNoReturn()) O["noreturn"] = true;
      } else {
        O["fn"] = nullptr;
        O["fe"] = E(C->getCallee());
      }
      json::Array Args;
      for (const Expr *A : C->arguments()) Args.push_back(E(A));
      O["a"] = std::move(Args);
      O["loc"] = loc(C);
      return std::move(O);
    }
    if (auto *A = dyn_cast<AtomicExpr>(S)) {
      json::Object O{{"k", "call"}, {"builtin", true}, {"atomic", true}};
      std::string N;
      switch (A->getOp()) {
#define BUILTIN(ID, TYPE, ATTRS)
#define ATOMIC_BUILTIN(ID, TYPE, ATTRS) case AtomicExpr::AO##ID: N = #ID; break;
#include "clang/Basic/Builtins.def"
      default: N = "__atomic_unknown"; break;
      }
      O["fn"] = N;
      json::Array Args;
      for (const Expr *Sub : llvm::make_range(const_cast<AtomicExpr *>(A)->getSubExprs(),
                                              const_cast<AtomicExpr *>(A)->getSubExprs() + A->getNumSubExprs()))
        Args.push_back(E(Sub));
      O["a"] = std::move(Args);
      O["loc"] = loc(A);
      return std::move(O);
    }
    if (auto *B = dyn_cast<BinaryOperator>(S)) {
      json::Object O{{"k", B->isAssignmentOp() ? "assign" : "bin"},
                     {"op", B->getOpcodeStr().str()},
                     {"l", E(B->getLHS())},
                     {"r", E(B->getRHS())}};
      if (B->isAssignmentOp()) O["loc"] = loc(B);
      return std::move(O);
    }
    if (auto *U = dyn_cast<UnaryOperator>(S)) {
      std::string Op = UnaryOperator::getOpcodeStr(U->getOpcode()).str();
      if (U->isPostfix()) Op = "post" + Op;
      else if (U->isIncrementDecrementOp()) Op = "pre" + Op;
      json::Object O{{"k", "un"}, {"op", Op}, {"e", E(U->getSubExpr())}};
      if (U->isIncrementDecrementOp()) O["loc"] = loc(U);
      return std::move(O);
    }
    if (auto *C = dyn_cast<ConditionalOperator>(S)) {
      return json::Object{{"k", "cond"}, {"c", E(C->getCond())}, {"t", E(C->getTrueExpr())}, {"e", E(C->getFalseExpr())}};
    }
    if (auto *CL = dyn_cast<CompoundLiteralExpr>(S)) {
      json::Value I = E(CL->getInitializer());
      if (auto *O = I.getAsObject()) (*O)["lit"] = true;
      return I;
    }
    if (auto *IL = dyn_cast<InitListExpr>(S)) {
      const InitListExpr *Sem = IL->isSemanticForm() ? IL : (IL->getSemanticForm() ? IL->getSemanticForm() : IL);
      json::Object O{{"k", "init"}, {"t", ty(Sem->getType())}};
      QualType T = Sem->getType();
      json::Array Fs;
      if (const RecordType *RT = T->getAsStructureType()) {
        const RecordDecl *RD = RT->getDecl();
        unsigned i = 0;
        for (const FieldDecl *FD : RD->fields()) {
          if (FD->isUnnamedBitfield()) continue;
          if (i >= Sem->getNumInits()) break;
          const Expr *Init = Sem->getInit(i++);
          bool Implicit = isa<ImplicitValueInitExpr>(Init);
          Fs.push_back(json::Object{{"f", FD->getNameAsString()}, {"e", Implicit ? json::Value(json::Object{{"k", "zero"}}) : E(Init)}, {"implicit", Implicit}});
        }
      } else if (T->isUnionType()) {
        if (const FieldDecl *FD = Sem->getInitializedFieldInUnion()) {
          if (Sem->getNumInits() > 0)
            Fs.push_back(json::Object{{"f", FD->getNameAsString()}, {"e", E(Sem->getInit(0))}, {"implicit", false}});
        }
      } else {
        for (unsigned i = 0; i < Sem->getNumInits(); i++)
          Fs.push_back(json::Object{{"f", (int64_t)i}, {"e", E(Sem->getInit(i))}, {"implicit", isa<ImplicitValueInitExpr>(Sem->getInit(i))}});
      }
      O["fields"] = std::move(Fs);
      return std::move(O);
    }
    if (isa<ImplicitValueInitExpr>(S)) return json::Object{{"k", "zero"}};
    if (auto *DS = dyn_cast<DeclStmt>(S)) {
      json::Array Ds;
      for (const Decl *D : DS->decls()) {
        if (auto *VD = dyn_cast<VarDecl>(D)) {
          json::Object O{{"k", "decl"}, {"name", VD->getNameAsString()}, {"id", idOf(VD)}, {"t", ty(VD->getType())}};
          if (auto *CAT = Ctx.getAsConstantArrayType(VD->getType())) O["bound"] = (int64_t)CAT->getSize().getZExtValue();
          O["init"] = VD->hasInit() ? E(VD->getInit()) : json::Value(nullptr);
          O["loc"] = loc(DS);
          Ds.push_back(std::move(O));
        }
      }
      if (Ds.size() == 1) return std::move(Ds[0]);
      return json::Object{{"k", "decls"}, {"ds", std::move(Ds)}};
    }
    if (auto *R = dyn_cast<ReturnStmt>(S)) {
      return json::Object{{"k", "ret"}, {"e", E(R->getRetValue())}, {"loc", loc(R)}};
    }
    if (auto *SE = dyn_cast<StmtExpr>(S)) {
      json::Array Ks;
      for (const Stmt *K : SE->getSubStmt()->body()) Ks.push_back(E(K));
      return json::Object{{"k", "stmtexpr"}, {"kids", std::move(Ks)}};
    }
    if (auto *U = dyn_cast<UnaryExprOrTypeTraitExpr>(S)) {
      return json::Object{{"k", "other"}, {"cls", "sizeof-nonconst"}};
    }
    json::Array Ks;
    for (const Stmt *K : S->children()) if (K) Ks.push_back(E(K));
    return json::Object{{"k", "other"}, {"cls", S->getStmtClassName()}, {"kids", std::move(Ks)}};
  }

  json::Value caseLabel(const CFGBlock *B) {
    if (!B) return nullptr;
    const Stmt *L = B->getLabel();
    if (!L) return nullptr;
    if (auto *CS = dyn_cast<CaseStmt>(L)) {
      llvm::APSInt I;
      json::Object O{{"case", true}};
      if (CS->getLHS() && evalInt(CS->getLHS()->IgnoreParenImpCasts(), I)) O["v"] = I.getExtValue();
      else if (CS->getLHS()) {
        Expr::EvalResult R;
        if (CS->getLHS()->EvaluateAsInt(R, Ctx)) O["v"] = R.Val.getInt().getExtValue();
      }
      if (auto *DR = dyn_cast<DeclRefExpr>(CS->getLHS()->IgnoreParenImpCasts()))
        O["name"] = DR->getDecl()->getNameAsString();
      return std::move(O);
    }
    if (isa<DefaultStmt>(L)) return json::Object{{"default", true}};
    if (auto *LS = dyn_cast<LabelStmt>(L)) return json::Object{{"label", LS->getName()}};
    return nullptr;
  }

  json::Object function(const FunctionDecl *FD) {
    json::Object F;
    F["name"] = FD->getNameAsString();
    F["file"] = relFile(FD->getLocation());
    F["line"] = (int64_t)lineOf(FD->getBeginLoc());
    F["end"] = (int64_t)lineOf(FD->getEndLoc());
    F["static"] = FD->getStorageClass() == SC_Static;
    F["inline"] = FD->isInlineSpecified();
    F["ret"] = ty(FD->getReturnType());
    json::Array Ps;
    for (const ParmVarDecl *P : FD->parameters())
      Ps.push_back(json::Object{{"name", P->getNameAsString()}, {"id", idOf(P)}, {"t", ty(P->getType())}});
    F["params"] = std::move(Ps);

    CFG::BuildOptions BO;
    BO.PruneTriviallyFalseEdges = true;
    std::unique_ptr<CFG> G = CFG::buildCFG(FD, FD->getBody(), &Ctx, BO);
    if (!G) { F["cfg"] = nullptr; return F; }

    ElemOf.clear();
    // Clang may list the same Stmt twice in one block (a call that is also the value of a
    // conditional branch arm): keep the first occurrence only.
    std::map<const CFGBlock *, std::vector<const Stmt *>> Filtered;
    for (const CFGBlock *B : *G) {
      auto &Vec = Filtered[B];
      for (const CFGElement &El : *B) {
        if (auto CS = El.getAs<CFGStmt>()) {
          const Stmt *S = CS->getStmt();
          if (auto *Ex = dyn_cast<Expr>(S)) S = Ex->IgnoreParenImpCasts();
          if (ElemOf.count(S)) continue;
          ElemOf[S] = {(int)B->getBlockID(), (int)Vec.size()};
          Vec.push_back(S);
        }
      }
    }
    json::Array Blocks;
    for (const CFGBlock *B : *G) {
      json::Object JB;
      JB["id"] = (int64_t)B->getBlockID();
      json::Array Els;
      for (const Stmt *S : Filtered[B]) {
        CurrentElem = S;
        json::Value V = E(S);
        CurrentElem = nullptr;
        json::Object W;
        W["e"] = std::move(V);
        W["loc"] = loc(S);
        Els.push_back(std::move(W));
      }
      JB["elems"] = std::move(Els);
      if (const Stmt *L = B->getLabel()) {
        JB["label"] = caseLabel(B);
      }
      // terminator
      json::Object T;
      const Stmt *TS = B->getTerminatorStmt();
      if (TS) {
        T["cls"] = TS->getStmtClassName();
        T["loc"] = loc(TS);
        if (auto *BO2 = dyn_cast<BinaryOperator>(TS)) T["op"] = BO2->getOpcodeStr().str();
      }
      bool HasCond = B->succ_size() >= 2 && B->getLastCondition() != nullptr;
      T["cond"] = HasCond;  // the condition is the last element of the block
      if (TS && isa<SwitchStmt>(TS)) T["switch"] = true;
      JB["term"] = std::move(T);
      json::Array Ss;
      unsigned si = 0;
      for (auto It = B->succ_begin(); It != B->succ_end(); ++It, ++si) {
        const CFGBlock *Reach = It->getReachableBlock();
        const CFGBlock *Poss = It->getPossiblyUnreachableBlock();
        const CFGBlock *Tgt = Reach ? Reach : Poss;
        json::Object SO;
        SO["to"] = Tgt ? json::Value((int64_t)Tgt->getBlockID()) : json::Value(nullptr);
        SO["r"] = Reach != nullptr;
        if (TS && isa<SwitchStmt>(TS)) {
          json::Value L = caseLabel(Tgt);
          if (L.getAsObject() && (L.getAsObject()->get("case") || L.getAsObject()->get("default"))) SO["lab"] = std::move(L);
          else SO["lab"] = json::Object{{"nocase", true}};
        } else if (B->succ_size() == 2) {
          SO["lab"] = si == 0 ? "T" : "F";
        }
        Ss.push_back(std::move(SO));
      }
      JB["succs"] = std::move(Ss);
      Blocks.push_back(std::move(JB));
    }
    json::Object C;
    C["entry"] = (int64_t)G->getEntry().getBlockID();
    C["exit"] = (int64_t)G->getExit().getBlockID();
    C["blocks"] = std::move(Blocks);
    F["cfg"] = std::move(C);
    return F;
  }

  json::Object record(const RecordDecl *RD) {
    json::Object R;
    std::string N = RD->getNameAsString();
    if (N.empty()) if (auto *TD = RD->getTypedefNameForAnonDecl()) N = TD->getNameAsString();
    R["name"] = N;
    R["union"] = RD->isUnion();
    R["file"] = relFile(RD->getLocation());
    R["line"] = (int64_t)lineOf(RD->getLocation());
    json::Array Fs;
    std::function<void(const RecordDecl *, bool)> Add = [&](const RecordDecl *R2, bool InUnion) {
      for (const FieldDecl *FD : R2->fields()) {
        if (FD->isAnonymousStructOrUnion()) {
          if (const RecordType *RT = FD->getType()->getAs<RecordType>()) Add(RT->getDecl(), InUnion || RT->getDecl()->isUnion());
          continue;
        }
        json::Object O{{"name", FD->getNameAsString()}, {"t", ty(FD->getType())}, {"fid", idOf(FD)}};
        if (auto *CAT = Ctx.getAsConstantArrayType(FD->getType())) O["bound"] = (int64_t)CAT->getSize().getZExtValue();
        if (FD->isBitField()) O["bits"] = (int64_t)FD->getBitWidthValue(Ctx);
        if (FD->getType()->isIntegralOrEnumerationType()) {
          O["intbits"] = (int64_t)Ctx.getTypeSize(FD->getType());
          O["signed"] = FD->getType()->isSignedIntegerOrEnumerationType();
        }
        if (FD->getType()->isPointerType()) O["ptr"] = true;
        if (InUnion) O["in_union"] = true;
        Fs.push_back(std::move(O));
      }
    };
    Add(RD, RD->isUnion());
    R["fields"] = std::move(Fs);
    return R;
  }
};

class Consumer : public ASTConsumer {
public:
  void HandleTranslationUnit(ASTContext &Ctx) override {
    Extractor X(Ctx);
    json::Array Fns, Recs, Enums, Globals, Typedefs;
    std::set<std::string> SeenRec;
    struct V : RecursiveASTVisitor<V> {
      std::vector<const RecordDecl *> Records;
      std::vector<const EnumDecl *> EnumsV;
      std::vector<const FunctionDecl *> Funcs;
      std::vector<const VarDecl *> Vars;
      std::vector<const TypedefNameDecl *> Tds;
      bool VisitRecordDecl(RecordDecl *D) { if (D->isCompleteDefinition()) Records.push_back(D); return true; }
      bool VisitEnumDecl(EnumDecl *D) { if (D->isCompleteDefinition()) EnumsV.push_back(D); return true; }
      bool VisitFunctionDecl(FunctionDecl *D) { if (D->doesThisDeclarationHaveABody()) Funcs.push_back(D); return true; }
      bool VisitVarDecl(VarDecl *D) { if (D->isFileVarDecl()) Vars.push_back(D); return true; }
      bool VisitTypedefNameDecl(TypedefNameDecl *D) { Tds.push_back(D); return true; }
    } Vis;
    Vis.TraverseDecl(Ctx.getTranslationUnitDecl());
    for (auto *RD : Vis.Records) if (X.inRoot(RD->getLocation()) && !RD->isAnonymousStructOrUnion()) Recs.push_back(X.record(RD));
    for (auto *ED : Vis.EnumsV) {
      if (!X.inRoot(ED->getLocation())) continue;
      json::Object O;
      std::string N = ED->getNameAsString();
      if (N.empty()) if (auto *TD = ED->getTypedefNameForAnonDecl()) N = TD->getNameAsString();
      O["name"] = N;
      json::Array Cs;
      for (auto *EC : ED->enumerators()) Cs.push_back(json::Object{{"name", EC->getNameAsString()}, {"v", EC->getInitVal().getExtValue()}});
      O["consts"] = std::move(Cs);
      Enums.push_back(std::move(O));
    }
    for (auto *TD : Vis.Tds) {
      if (!X.inRoot(TD->getLocation())) continue;
      Typedefs.push_back(json::Object{{"name", TD->getNameAsString()}, {"t", X.ty(TD->getUnderlyingType())},
                                      {"canon", X.ty(TD->getUnderlyingType().getCanonicalType())}});
    }
    for (auto *VD : Vis.Vars) {
      if (!X.inRoot(VD->getLocation())) continue;
      json::Object O{{"name", VD->getNameAsString()}, {"id", X.idOf(VD)}, {"t", X.ty(VD->getType())},
                     {"file", X.relFile(VD->getLocation())}, {"line", (int64_t)X.lineOf(VD->getLocation())},
                     {"const", VD->getType().isConstQualified()}};
      if (VD->hasInit() && VD->isThisDeclarationADefinition()) { X.ElemOf.clear(); O["init"] = X.E(VD->getInit()); }
      Globals.push_back(std::move(O));
    }
    for (auto *FD : Vis.Funcs) {
      if (!X.inRoot(FD->getLocation())) continue;
      Fns.push_back(X.function(FD));
    }
    json::Object Root;
    Root["root"] = gRoot;
    Root["functions"] = std::move(Fns);
    Root["records"] = std::move(Recs);
    Root["enums"] = std::move(Enums);
    Root["typedefs"] = std::move(Typedefs);
    Root["globals"] = std::move(Globals);
    std::error_code EC;
    llvm::raw_fd_ostream OS(gOut, EC);
    if (EC) { llvm::errs() << "cannot write " << gOut << "\n"; exit(2); }
    OS << json::Value(std::move(Root));
    OS << "\n";
  }
};

class Action : public ASTFrontendAction {
public:
  std::unique_ptr<ASTConsumer> CreateASTConsumer(CompilerInstance &, StringRef) override {
    return std::make_unique<Consumer>();
  }
};

}  // namespace

int main(int argc, const char **argv) {
  if (argc < 5) {
    llvm::errs() << "usage: cfacts <root-prefix> <out.json> <source.c> -- <flags...>\n";
    return 2;
  }
  gRoot = argv[1];
  gOut = argv[2];
  std::string Src = argv[3];
  std::vector<std::string> Flags;
  int i = 4;
  if (std::string(argv[i]) == "--") i++;
  for (; i < argc; i++) Flags.push_back(argv[i]);
  clang::tooling::FixedCompilationDatabase DB(".", Flags);
  clang::tooling::ClangTool Tool(DB, {Src});
  int RC = Tool.run(clang::tooling::newFrontendActionFactory<Action>().get());
  return RC;
}
