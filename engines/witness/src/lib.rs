//! E4 — compile-fail witnesses for C08.T1 (DESIGN.md §3.7).  Every `compile_fail,E0xxx` block has a
//! `no_run` twin that differs only in the offending line, so a witness whose paths are merely wrong
//! cannot pass.  Nothing here is ever executed: doc-tests are compiled only.

/// W1 — a tree cannot be edited while a node borrowed from it is alive.
/// ```compile_fail,E0502
/// fn w(parser: &mut tree_sitter::Parser, edit: &tree_sitter::InputEdit) {
///     let mut tree = parser.parse("a", None).unwrap();
///     let node = tree.root_node();
///     tree.edit(edit);
///     let _ = node.kind();
/// }
/// ```
/// twin:
/// ```no_run
/// fn w(parser: &mut tree_sitter::Parser, edit: &tree_sitter::InputEdit) {
///     let mut tree = parser.parse("a", None).unwrap();
///     let node = tree.root_node();
///     let _ = node.kind();
///     tree.edit(edit);
/// }
/// ```
pub struct W1EditWhileNodeBorrowed;

/// W2 — a tree cannot be edited while a cursor borrowed from it is alive.
/// ```compile_fail,E0502
/// fn w(parser: &mut tree_sitter::Parser, edit: &tree_sitter::InputEdit) {
///     let mut tree = parser.parse("a", None).unwrap();
///     let cursor = tree.walk();
///     tree.edit(edit);
///     let _ = cursor.node();
/// }
/// ```
/// twin:
/// ```no_run
/// fn w(parser: &mut tree_sitter::Parser, edit: &tree_sitter::InputEdit) {
///     let mut tree = parser.parse("a", None).unwrap();
///     let cursor = tree.walk();
///     let _ = cursor.node();
///     drop(cursor);
///     tree.edit(edit);
/// }
/// ```
pub struct W2EditWhileCursorBorrowed;

/// W3 — `Tree::edit` needs exclusive access to the handle.
/// ```compile_fail,E0596
/// fn w(tree: &tree_sitter::Tree, edit: &tree_sitter::InputEdit) {
///     tree.edit(edit);
/// }
/// ```
/// twin:
/// ```no_run
/// fn w(tree: &mut tree_sitter::Tree, edit: &tree_sitter::InputEdit) {
///     tree.edit(edit);
/// }
/// ```
pub struct W3EditNeedsMut;

/// W4 — `Parser::parse` needs exclusive access to the parser.
/// ```compile_fail,E0596
/// fn w(parser: &tree_sitter::Parser) {
///     let _ = parser.parse("a", None);
/// }
/// ```
/// twin:
/// ```no_run
/// fn w(parser: &mut tree_sitter::Parser) {
///     let _ = parser.parse("a", None);
/// }
/// ```
pub struct W4ParseNeedsMut;

/// W5 — a node cannot outlive the tree it was taken from.
/// ```compile_fail,E0597
/// fn w(parser: &mut tree_sitter::Parser) {
///     let node = {
///         let tree = parser.parse("a", None).unwrap();
///         tree.root_node()
///     };
///     let _ = node.kind();
/// }
/// ```
/// twin:
/// ```no_run
/// fn w(parser: &mut tree_sitter::Parser) {
///     let tree = parser.parse("a", None).unwrap();
///     let node = { tree.root_node() };
///     let _ = node.kind();
/// }
/// ```
pub struct W5NodeOutlivesTree;

/// W6 — a tree cannot be moved to another owner (or dropped) while a node borrows it.
/// ```compile_fail,E0505
/// fn w(parser: &mut tree_sitter::Parser) {
///     let tree = parser.parse("a", None).unwrap();
///     let node = tree.root_node();
///     drop(tree);
///     let _ = node.kind();
/// }
/// ```
/// twin:
/// ```no_run
/// fn w(parser: &mut tree_sitter::Parser) {
///     let tree = parser.parse("a", None).unwrap();
///     let node = tree.root_node();
///     let _ = node.kind();
///     drop(tree);
/// }
/// ```
pub struct W6DropWhileNodeBorrowed;

/// W7 — one query cursor cannot drive two match streams at once.
/// ```compile_fail,E0499
/// fn w(cursor: &mut tree_sitter::QueryCursor, query: &tree_sitter::Query, tree: &tree_sitter::Tree, src: &[u8]) {
///     let m1 = cursor.matches(query, tree.root_node(), src);
///     let m2 = cursor.matches(query, tree.root_node(), src);
///     drop(m1);
///     drop(m2);
/// }
/// ```
/// twin:
/// ```no_run
/// fn w(cursor: &mut tree_sitter::QueryCursor, query: &tree_sitter::Query, tree: &tree_sitter::Tree, src: &[u8]) {
///     let m1 = cursor.matches(query, tree.root_node(), src);
///     drop(m1);
///     let m2 = cursor.matches(query, tree.root_node(), src);
///     drop(m2);
/// }
/// ```
pub struct W7OneStreamPerCursor;
