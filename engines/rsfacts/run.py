#!/usr/bin/env python3
"""Run the rsfacts driver (engine E2, DESIGN.md §2) over workspace packages.

    python3 run.py <repo_root> <out_dir> <target_dir> <pkg>...

or  extract(repo_root, packages, out_dir, target_dir) from Python.

Fails closed: cargo's freshness cache would silently skip the wrapper for a member crate that is
already fresh, so the members' lib/bin fingerprints are removed first, and afterwards every
expected fact file must have been (re)written during this run.
"""
import json
import os
import re
import shutil
import subprocess
import sys
import time

HERE = os.path.dirname(os.path.abspath(__file__))
CACHE = os.path.normpath(os.path.join(HERE, "..", "..", ".cache"))
DRIVER_TARGET = os.path.join(CACHE, "rsfacts-target")
DRIVER = os.path.join(DRIVER_TARGET, "release", "rsfacts")
DEFAULT_TARGET = os.path.join(CACHE, "rs-target")
DEFAULT_PACKAGES = [
    "tree-sitter", "tree-sitter-generate", "tree-sitter-loader",
    "tree-sitter-highlight", "tree-sitter-tags", "tree-sitter-cli",
]


class RsfactsError(RuntimeError):
    pass


def _env(extra=None):
    env = dict(os.environ)
    env["CARGO_NET_OFFLINE"] = "true"
    if extra:
        env.update(extra)
    return env


def _sysroot():
    return subprocess.run(["rustc", "+nightly", "--print", "sysroot"], check=True,
                          capture_output=True, text=True).stdout.strip()


def build_driver():
    """Build the driver (release, offline) unless it is newer than all of its sources."""
    srcs = [os.path.join(HERE, "Cargo.toml"), os.path.join(HERE, "rust-toolchain.toml"),
            os.path.join(HERE, "src", "main.rs")]
    if os.path.exists(DRIVER) and all(os.path.getmtime(DRIVER) >= os.path.getmtime(p) for p in srcs):
        return DRIVER
    r = subprocess.run(["cargo", "+nightly", "build", "--release", "--offline"], cwd=HERE,
                       env=_env({"CARGO_TARGET_DIR": DRIVER_TARGET}),
                       capture_output=True, text=True)
    if r.returncode != 0 or not os.path.exists(DRIVER):
        raise RsfactsError("rsfacts: building the driver failed:\n" + r.stderr[-4000:])
    return DRIVER


def _metadata(repo_root):
    r = subprocess.run(["cargo", "+nightly", "metadata", "--offline", "--no-deps", "--format-version", "1"],
                       cwd=repo_root, env=_env(), capture_output=True, text=True)
    if r.returncode != 0:
        raise RsfactsError("rsfacts: cargo metadata failed:\n" + r.stderr[-2000:])
    return json.loads(r.stdout)


def expected_files(meta, packages):
    """Fact files each requested package must produce: lib -> <crate>.json, bin -> <crate>.bin.json."""
    out = []
    by_name = {p["name"]: p for p in meta["packages"]}
    for name in packages:
        if name not in by_name:
            raise RsfactsError("rsfacts: package %r is not a workspace member" % name)
        for t in by_name[name]["targets"]:
            crate = t["name"].replace("-", "_")
            kinds = set(t["kind"])
            if kinds & {"lib", "rlib", "dylib", "cdylib", "staticlib"}:
                out.append(crate + ".json")
            elif "bin" in kinds:
                out.append(crate + ".bin.json")
    return out


def clear_member_fingerprints(target_dir, meta):
    """Remove the lib/bin check fingerprints of *all* workspace members (a fresh member would skip
    the wrapper).  Build-script fingerprints and every dependency's output are kept, so a warm run
    only re-checks the member crates."""
    members = {p["name"] for p in meta["packages"]}
    n = 0
    for profile in ("debug",):
        fdir = os.path.join(target_dir, profile, ".fingerprint")
        if not os.path.isdir(fdir):
            continue
        for d in os.listdir(fdir):
            m = re.match(r"^(.*)-[0-9a-f]{16}$", d)
            if not m or m.group(1) not in members:
                continue
            full = os.path.join(fdir, d)
            try:
                names = os.listdir(full)
            except OSError:
                continue
            if any(x.startswith(("lib-", "bin-", "dep-lib-", "dep-bin-")) for x in names):
                shutil.rmtree(full, ignore_errors=True)
                n += 1
    return n


def extract(repo_root, packages=None, out_dir=None, target_dir=None, verbose=False):
    """Dump facts for `packages` of the workspace at `repo_root` into `out_dir`.
    Returns {file name: path}.  Raises RsfactsError on any failure (fail closed)."""
    packages = list(packages or DEFAULT_PACKAGES)
    repo_root = os.path.abspath(repo_root)
    target_dir = os.path.abspath(target_dir or DEFAULT_TARGET)
    out_dir = os.path.abspath(out_dir or os.path.join(CACHE, "facts", "rs"))
    os.makedirs(out_dir, exist_ok=True)
    os.makedirs(target_dir, exist_ok=True)
    driver = build_driver()
    meta = _metadata(repo_root)
    expected = expected_files(meta, packages)
    clear_member_fingerprints(target_dir, meta)
    # a stale file must never be mistaken for a result of this run
    for f in expected:
        p = os.path.join(out_dir, f)
        if os.path.exists(p):
            os.remove(p)
    start = time.time()
    sysroot_lib = os.path.join(_sysroot(), "lib")
    ld = sysroot_lib + (":" + os.environ["LD_LIBRARY_PATH"] if os.environ.get("LD_LIBRARY_PATH") else "")
    env = _env({
        "LD_LIBRARY_PATH": ld,
        "RUSTFLAGS": "-Zmir-opt-level=0 -Awarnings",
        "RUSTC_WORKSPACE_WRAPPER": driver,
        "CARGO_TARGET_DIR": target_dir,
        "RSFACTS_OUT": out_dir,
        "RSFACTS_ROOT": repo_root,
    })
    for k in ("RUSTC_WRAPPER", "CARGO_ENCODED_RUSTFLAGS", "CARGO_BUILD_RUSTFLAGS"):
        env.pop(k, None)
    cmd = ["cargo", "+nightly", "check", "--offline", "--locked"]
    for p in packages:
        cmd += ["-p", p]
    r = subprocess.run(cmd, cwd=repo_root, env=env, capture_output=True, text=True)
    if verbose:
        sys.stderr.write(r.stderr)
    if r.returncode != 0:
        raise RsfactsError("rsfacts: cargo check failed (exit %d):\n%s" % (r.returncode, r.stderr[-6000:]))
    result, bad = {}, []
    for f in expected:
        p = os.path.join(out_dir, f)
        if not os.path.exists(p):
            bad.append("%s: missing" % f)
        elif os.path.getmtime(p) < start - 1.0:
            bad.append("%s: older than this run" % f)
        elif os.path.getsize(p) == 0:
            bad.append("%s: empty" % f)
        else:
            result[f] = p
    if bad:
        raise RsfactsError("rsfacts: fact files not (re)written in this run: " + "; ".join(bad))
    return result


def main(argv):
    if len(argv) < 2:
        sys.stderr.write(__doc__)
        return 2
    repo_root, out_dir = argv[0], argv[1]
    target_dir = argv[2] if len(argv) > 2 else DEFAULT_TARGET
    packages = argv[3:] or DEFAULT_PACKAGES
    t0 = time.time()
    try:
        res = extract(repo_root, packages, out_dir, target_dir, verbose=bool(os.environ.get("RSFACTS_VERBOSE")))
    except RsfactsError as e:
        sys.stderr.write(str(e).rstrip() + "\n")
        return 1
    for f, p in sorted(res.items()):
        print("%-34s %10d bytes" % (f, os.path.getsize(p)))
    print("rsfacts: %d files in %.1f s" % (len(res), time.time() - t0))
    return 0


if __name__ == "__main__":
    sys.exit(main(sys.argv[1:]))
