//! rsfacts — engine E2 (DESIGN.md §2): a `rustc_private` driver that dumps facts about the
//! type-checked program (MIR at `-Zmir-opt-level=0`, plus ADTs / impls / fn signatures) as JSON.
//!
//! Injected through `RUSTC_WORKSPACE_WRAPPER`; argv[1] is the real rustc (dropped).  One fact
//! file per crate, `$RSFACTS_OUT/<crate>.json` (`<crate>.bin.json` for bin targets), produced by a
//! single write + rename from the process that compiled the crate.  Compilation continues
//! afterwards so dependants get their metadata.
//!
//! The JSON shape mirrors the C extractor (engines/cfacts) so that one rule engine reads both.
#![feature(rustc_private)]

extern crate rustc_abi;
extern crate rustc_driver;
extern crate rustc_hir;
extern crate rustc_interface;
extern crate rustc_middle;
extern crate rustc_session;
extern crate rustc_span;

use std::collections::HashMap;
use std::path::{Path, PathBuf};

use rustc_driver::{Callbacks, Compilation};
use rustc_hir::def::DefKind;
use rustc_hir::def_id::{DefId, LocalDefId};
use rustc_middle::mir::{
    AggregateKind, BasicBlock, BasicBlockData, BinOp, Body, BorrowKind, Const, ConstValue, Local,
    Operand, Place, PlaceElem, PlaceTy, RawPtrKind, Rvalue, StatementKind, TerminatorKind, UnOp,
    VarDebugInfoContents,
};
use rustc_middle::ty::print::{with_no_trimmed_paths, PrintTraitRefExt};
use rustc_middle::ty::{self, Instance, InstanceKind, Ty, TyCtxt, TypingEnv};
use rustc_session::config::CrateType;
use rustc_span::{FileName, Span};

// ------------------------------------------------------------------------------------------------
// minimal JSON

enum J {
    Null,
    B(bool),
    I(i128),
    U(u128),
    S(String),
    A(Vec<J>),
    O(Vec<(&'static str, J)>),
}

macro_rules! obj {
    ($($k:literal : $v:expr),* $(,)?) => { J::O(vec![$(($k, $v)),*]) };
}

fn s(x: impl Into<String>) -> J {
    J::S(x.into())
}

fn esc(out: &mut String, v: &str) {
    out.push('"');
    for c in v.chars() {
        match c {
            '"' => out.push_str("\\\""),
            '\\' => out.push_str("\\\\"),
            '\n' => out.push_str("\\n"),
            '\r' => out.push_str("\\r"),
            '\t' => out.push_str("\\t"),
            c if (c as u32) < 0x20 => out.push_str(&format!("\\u{:04x}", c as u32)),
            c => out.push(c),
        }
    }
    out.push('"');
}

impl J {
    fn write(&self, out: &mut String) {
        match self {
            J::Null => out.push_str("null"),
            J::B(b) => out.push_str(if *b { "true" } else { "false" }),
            J::I(i) => out.push_str(&i.to_string()),
            J::U(u) => out.push_str(&u.to_string()),
            J::S(v) => esc(out, v),
            J::A(v) => {
                out.push('[');
                for (i, x) in v.iter().enumerate() {
                    if i > 0 {
                        out.push(',');
                    }
                    x.write(out);
                }
                out.push(']');
            }
            J::O(v) => {
                out.push('{');
                for (i, (k, x)) in v.iter().enumerate() {
                    if i > 0 {
                        out.push(',');
                    }
                    esc(out, k);
                    out.push(':');
                    x.write(out);
                }
                out.push('}');
            }
        }
    }
    fn push(&mut self, k: &'static str, v: J) {
        if let J::O(o) = self {
            o.push((k, v));
        }
    }
}

// ------------------------------------------------------------------------------------------------
// crate-level context

struct Cx<'tcx> {
    tcx: TyCtxt<'tcx>,
    root: PathBuf,
    cwd: PathBuf,
    files: HashMap<usize, String>,
    tys: HashMap<Ty<'tcx>, String>,
    paths: HashMap<DefId, String>,
    cur_file: String,
    cur_span: Span,
}

impl<'tcx> Cx<'tcx> {
    fn path(&mut self, d: DefId) -> String {
        if let Some(p) = self.paths.get(&d) {
            return p.clone();
        }
        let mut p = self.tcx.def_path_str(d);
        // Paths that rustc would print through an anonymous `const _: () = { extern crate serde as
        // _serde; .. }` (derive output) are reprinted by their definition path.
        if p.contains("_::_") {
            p = rustc_middle::ty::print::with_no_visible_paths!(self.tcx.def_path_str(d));
        }
        self.paths.insert(d, p.clone());
        p
    }

    /// Generic arguments of a call, `[T, U]`; lifetimes are erased in MIR and omitted.
    fn gargs(&mut self, args: ty::GenericArgsRef<'tcx>) -> String {
        let mut parts = Vec::new();
        for a in args.iter() {
            match a.kind() {
                ty::GenericArgKind::Type(x) => parts.push(self.ty(x)),
                ty::GenericArgKind::Const(c) => parts.push(c.to_string()),
                ty::GenericArgKind::Lifetime(_) => {}
            }
        }
        if parts.is_empty() { String::new() } else { format!("[{}]", parts.join(", ")) }
    }

    fn ty(&mut self, t: Ty<'tcx>) -> String {
        if let Some(p) = self.tys.get(&t) {
            return p.clone();
        }
        let p = self.ty_build(t);
        self.tys.insert(t, p.clone());
        p
    }

    /// Type printer.  rustc's `Display` drops generic arguments that equal the parameter's
    /// default, which would make `HashMap<K, V>` (RandomState) indistinguishable at a glance from
    /// a custom-hasher map.  ADT arguments are therefore printed in full, except a trailing
    /// defaulted allocator `std::alloc::Global` (pure noise on Vec/Box/Rc/...).  Kinds that are
    /// not handled structurally fall back to `Display` (fully qualified paths).
    fn ty_build(&mut self, t: Ty<'tcx>) -> String {
        let tcx = self.tcx;
        match *t.kind() {
            ty::Adt(def, args) => {
                let mut out = self.path(def.did());
                let generics = tcx.generics_of(def.did());
                let mut n = args.len();
                while n > 0 {
                    let is_global = match args[n - 1].as_type().map(|a| a.kind()) {
                        Some(ty::Adt(d, a)) if a.is_empty() => self.path(d.did()) == "std::alloc::Global",
                        _ => false,
                    };
                    let has_default = n - 1 >= generics.parent_count
                        && generics
                            .own_params
                            .get(n - 1 - generics.parent_count)
                            .is_some_and(|p| p.default_value(tcx).is_some());
                    if is_global && has_default {
                        n -= 1;
                    } else {
                        break;
                    }
                }
                if n > 0 {
                    out.push('<');
                    for (i, a) in args.iter().take(n).enumerate() {
                        if i > 0 {
                            out.push_str(", ");
                        }
                        match a.kind() {
                            ty::GenericArgKind::Type(x) => out.push_str(&self.ty(x)),
                            ty::GenericArgKind::Lifetime(r) => {
                                let rs = r.to_string();
                                out.push_str(if rs.is_empty() { "'_" } else { &rs });
                            }
                            ty::GenericArgKind::Const(c) => out.push_str(&c.to_string()),
                        }
                    }
                    out.push('>');
                }
                out
            }
            ty::Ref(r, inner, m) => {
                let rs = r.to_string();
                let mut out = String::from("&");
                if !rs.is_empty() && rs != "'_" {
                    out.push_str(&rs);
                    out.push(' ');
                }
                if m.is_mut() {
                    out.push_str("mut ");
                }
                out.push_str(&self.ty(inner));
                out
            }
            ty::RawPtr(inner, m) => {
                format!("*{} {}", if m.is_mut() { "mut" } else { "const" }, self.ty(inner))
            }
            ty::Slice(inner) => format!("[{}]", self.ty(inner)),
            ty::Array(inner, len) => match len.try_to_target_usize(tcx) {
                Some(n) => format!("[{}; {}]", self.ty(inner), n),
                None => format!("[{}; {}]", self.ty(inner), len),
            },
            ty::Tuple(ts) if !ts.is_empty() => {
                let parts: Vec<String> = ts.iter().map(|x| self.ty(x)).collect();
                if parts.len() == 1 {
                    format!("({},)", parts[0])
                } else {
                    format!("({})", parts.join(", "))
                }
            }
            _ => format!("{}", t),
        }
    }

    /// (file relative to the workspace root, line, from_expansion).  Expanded code is located at
    /// its outermost call site so that the line refers to the user's source.
    fn loc(&mut self, span: Span) -> (String, u32, bool) {
        let exp = span.from_expansion();
        let span = if exp { span.source_callsite() } else { span };
        self.file_line(span.lo(), exp)
    }

    fn file_line(&mut self, pos: rustc_span::BytePos, exp: bool) -> (String, u32, bool) {
        let sm = self.tcx.sess.source_map();
        let l = sm.lookup_char_pos(pos);
        let key = std::sync::Arc::as_ptr(&l.file) as usize;
        let f = match self.files.get(&key) {
            Some(f) => f.clone(),
            None => {
                let f = match &l.file.name {
                    FileName::Real(r) => match r.local_path() {
                        Some(p) => self.rel(p),
                        None => format!("{:?}", r),
                    },
                    other => format!("{:?}", other),
                };
                self.files.insert(key, f.clone());
                f
            }
        };
        (f, l.line as u32, exp)
    }

    fn rel(&self, p: &Path) -> String {
        let abs = if p.is_absolute() { p.to_path_buf() } else { self.cwd.join(p) };
        match abs.strip_prefix(&self.root) {
            Ok(r) => r.to_string_lossy().into_owned(),
            Err(_) => abs.to_string_lossy().into_owned(),
        }
    }

    /// Location object.  `f` is omitted when it equals the enclosing function's file (the rule
    /// engine defaults to that), `exp` is present only when true.  Dummy spans (compiler-made
    /// blocks) are located at the enclosing body.
    fn jloc(&mut self, span: Span) -> J {
        let span = if span.is_dummy() { self.cur_span } else { span };
        let (f, l, exp) = self.loc(span);
        let mut o = if f == self.cur_file { obj! {"l": J::I(l as i128)} } else { obj! {"f": s(f), "l": J::I(l as i128)} };
        if exp {
            o.push("exp", J::B(true));
        }
        o
    }
}

// ------------------------------------------------------------------------------------------------
// per-body context

struct Bx<'a, 'tcx> {
    cx: &'a mut Cx<'tcx>,
    body: &'tcx Body<'tcx>,
    env: TypingEnv<'tcx>,
    names: Vec<Option<String>>,
}

fn binop_str(op: BinOp) -> &'static str {
    use BinOp::*;
    match op {
        Add | AddUnchecked | AddWithOverflow => "+",
        Sub | SubUnchecked | SubWithOverflow => "-",
        Mul | MulUnchecked | MulWithOverflow => "*",
        Div => "/",
        Rem => "%",
        BitXor => "^",
        BitAnd => "&",
        BitOr => "|",
        Shl | ShlUnchecked => "<<",
        Shr | ShrUnchecked => ">>",
        Eq => "==",
        Lt => "<",
        Le => "<=",
        Ne => "!=",
        Ge => ">=",
        Gt => ">",
        Cmp => "cmp",
        Offset => "offset",
    }
}

/// `alloc123` ids differ between sessions (cold vs. incremental); keep the output reproducible.
fn scrub_alloc_ids(t: String) -> String {
    if !t.contains("alloc") {
        return t;
    }
    let mut out = String::with_capacity(t.len());
    let mut rest = t.as_str();
    while let Some(i) = rest.find("alloc") {
        out.push_str(&rest[..i + 5]);
        rest = &rest[i + 5..];
        let digits = rest.chars().take_while(|c| c.is_ascii_digit()).count();
        if digits > 0 {
            out.push('N');
        }
        rest = &rest[digits..];
    }
    out.push_str(rest);
    out
}

fn clip(mut t: String, n: usize) -> String {
    if t.len() > n {
        let mut i = n;
        while !t.is_char_boundary(i) {
            i -= 1;
        }
        t.truncate(i);
        t.push('…');
    }
    t
}

impl<'a, 'tcx> Bx<'a, 'tcx> {
    fn tcx(&self) -> TyCtxt<'tcx> {
        self.cx.tcx
    }

    fn local_name(&self, l: Local) -> String {
        match &self.names[l.as_usize()] {
            Some(n) => n.clone(),
            None => format!("_{}", l.as_usize()),
        }
    }

    fn local_ref(&mut self, l: Local) -> J {
        let t = self.body.local_decls[l].ty;
        let i = l.as_usize();
        let dk = if i >= 1 && i <= self.body.arg_count { "param" } else { "local" };
        obj! {"k": s("ref"), "name": s(self.local_name(l)), "id": J::I(i as i128), "dk": s(dk), "t": s(self.cx.ty(t))}
    }

    fn variant_name(&mut self, ty: Ty<'tcx>, v: rustc_abi::VariantIdx) -> (String, String) {
        match ty.kind() {
            ty::Adt(def, _) if v.as_usize() < def.variants().len() => {
                (def.variant(v).name.to_string(), self.cx.path(def.did()))
            }
            _ => (format!("{}", v.as_usize()), String::new()),
        }
    }

    /// Source-level name of the i-th captured place of a local closure (`var` or `var.field`).
    fn capture_name(&self, d: DefId, i: usize) -> Option<String> {
        let tcx = self.tcx();
        let caps = tcx.closure_captures(d.as_local()?);
        caps.get(i).map(|c| c.to_string(tcx))
    }

    fn place(&mut self, p: Place<'tcx>) -> J {
        let tcx = self.tcx();
        let mut e = self.local_ref(p.local);
        let mut pty = PlaceTy::from_ty(self.body.local_decls[p.local].ty);
        for elem in p.projection.iter() {
            e = match elem {
                PlaceElem::Deref => obj! {"k": s("un"), "op": s("*"), "e": e},
                PlaceElem::Field(f, fty) => {
                    let (name, rec) = match pty.ty.kind() {
                        ty::Adt(def, _) => {
                            let v = pty.variant_index.unwrap_or(rustc_abi::FIRST_VARIANT);
                            let name = if v.as_usize() < def.variants().len()
                                && f.as_usize() < def.variant(v).fields.len()
                            {
                                def.variant(v).fields[f].name.to_string()
                            } else {
                                f.as_usize().to_string()
                            };
                            (name, self.cx.path(def.did()))
                        }
                        _ => (f.as_usize().to_string(), String::new()),
                    };
                    let cap = match pty.ty.kind() {
                        ty::Closure(d, _) | ty::Coroutine(d, _) | ty::CoroutineClosure(d, _) => self.capture_name(*d, f.as_usize()),
                        _ => None,
                    };
                    let mut m = obj! {"k": s("mem"), "f": s(name), "rec": s(rec), "arrow": J::B(false), "b": e, "t": s(self.cx.ty(fty))};
                    if let Some(c) = cap {
                        m.push("cap", s(c));
                    }
                    m
                }
                PlaceElem::Downcast(_, v) => {
                    let (name, rec) = self.variant_name(pty.ty, v);
                    obj! {"k": s("mem"), "f": s(format!("as:{}", name)), "rec": s(rec), "arrow": J::B(false), "b": e}
                }
                PlaceElem::Index(l) => {
                    let i = self.local_ref(l);
                    obj! {"k": s("idx"), "b": e, "i": i}
                }
                PlaceElem::ConstantIndex { offset, from_end, .. } => {
                    let mut i = obj! {"k": s("int"), "v": J::U(offset as u128)};
                    if from_end {
                        i.push("from_end", J::B(true));
                    }
                    obj! {"k": s("idx"), "b": e, "i": i}
                }
                PlaceElem::Subslice { from, to, from_end } => {
                    let mut i = obj! {"k": s("int"), "v": J::U(from as u128), "to": J::U(to as u128)};
                    if from_end {
                        i.push("from_end", J::B(true));
                    }
                    obj! {"k": s("idx"), "b": e, "i": i, "slice": J::B(true)}
                }
                PlaceElem::OpaqueCast(_) | PlaceElem::UnwrapUnsafeBinder(_) => e,
            };
            pty = pty.projection_ty(tcx, elem);
        }
        e
    }

    fn scalar_to_j(&mut self, si: ty::ScalarInt, t: Ty<'tcx>) -> J {
        if t.is_signed() {
            J::I(si.to_int(si.size()))
        } else {
            J::U(si.to_bits(si.size()))
        }
    }

    fn constant(&mut self, c: &rustc_middle::mir::ConstOperand<'tcx>) -> J {
        let tcx = self.tcx();
        let k = c.const_;
        let t = k.ty();
        // named constant / promoted?
        let mut cname: Option<String> = None;
        let mut promoted = false;
        if let Const::Unevaluated(u, _) = k {
            if u.promoted.is_some() {
                promoted = true;
            } else {
                cname = Some(self.cx.path(u.def));
            }
        }
        match t.kind() {
            ty::FnDef(d, args) => {
                let mut r = obj! {"k": s("ref"), "dk": s("fn"), "name": s(self.cx.path(*d)), "id": J::I(0)};
                if !args.is_empty() {
                    r.push("targs", s(self.cx.gargs(args)));
                }
                return r;
            }
            ty::Bool | ty::Int(_) | ty::Uint(_) | ty::Char if !promoted => {
                if let Some(si) = k.try_eval_scalar_int(tcx, self.env) {
                    let v = self.scalar_to_j(si, t);
                    let mut r = obj! {"k": s("int"), "v": v, "t": s(self.cx.ty(t))};
                    if let Some(n) = cname {
                        r.push("name", s(n));
                    }
                    return r;
                }
            }
            ty::Float(_) if !promoted && cname.is_none() => {
                return obj! {"k": s("float"), "v": s(format!("{}", k)), "t": s(self.cx.ty(t))};
            }
            ty::Ref(_, inner, _) if inner.is_str() => {
                if let Const::Val(v @ ConstValue::Slice { .. }, _) = k {
                    if let Some(bytes) = v.try_get_slice_bytes_for_diagnostics(tcx) {
                        let text = String::from_utf8_lossy(bytes).into_owned();
                        return obj! {"k": s("str"), "v": s(clip(text, 400))};
                    }
                }
            }
            _ => {}
        }
        // pointer to a static (or function): name it instead of printing a per-session alloc id
        if let Const::Val(ConstValue::Scalar(rustc_middle::mir::interpret::Scalar::Ptr(ptr, _)), _) = k {
            let (prov, off) = ptr.into_raw_parts();
            match tcx.try_get_global_alloc(prov.alloc_id()) {
                Some(rustc_middle::mir::interpret::GlobalAlloc::Static(d)) if off.bytes() == 0 => {
                    let st = obj! {"k": s("ref"), "dk": s("static"), "name": s(self.cx.path(d)), "id": J::I(0)};
                    return obj! {"k": s("un"), "op": s("&"), "e": st, "mut": J::B(false), "t": s(self.cx.ty(t))};
                }
                Some(rustc_middle::mir::interpret::GlobalAlloc::Function { instance }) => {
                    return obj! {"k": s("ref"), "dk": s("fn"), "name": s(self.cx.path(instance.def_id())), "id": J::I(0)};
                }
                _ => {}
            }
        }
        let text = if promoted {
            match k {
                Const::Unevaluated(u, _) => format!("promoted[{}]", u.promoted.unwrap().as_usize()),
                _ => unreachable!(),
            }
        } else {
            scrub_alloc_ids(clip(format!("{}", k), 200))
        };
        let mut r = obj! {"k": s("const"), "t": s(self.cx.ty(t)), "text": s(text)};
        if let Some(n) = cname {
            r.push("name", s(n));
        }
        r
    }

    fn operand(&mut self, o: &Operand<'tcx>) -> J {
        match o {
            Operand::Copy(p) => self.place(*p),
            Operand::Move(p) => {
                let mut e = self.place(*p);
                e.push("mv", J::B(true));
                e
            }
            Operand::Constant(c) => self.constant(c),
            Operand::RuntimeChecks(rc) => {
                obj! {"k": s("const"), "t": s("bool"), "text": s(format!("{:?}", rc))}
            }
        }
    }

    fn rvalue(&mut self, rv: &Rvalue<'tcx>) -> J {
        let tcx = self.tcx();
        match rv {
            Rvalue::Use(o, ..) => self.operand(o),
            Rvalue::CopyForDeref(p) => self.place(*p),
            Rvalue::Ref(_, bk, p) => {
                let m = matches!(bk, BorrowKind::Mut { .. });
                obj! {"k": s("un"), "op": s("&"), "e": self.place(*p), "mut": J::B(m)}
            }
            Rvalue::RawPtr(k, p) => {
                let m = matches!(k, RawPtrKind::Mut);
                obj! {"k": s("un"), "op": s("&"), "e": self.place(*p), "mut": J::B(m), "raw": J::B(true)}
            }
            Rvalue::BinaryOp(op, lr) => {
                let l = self.operand(&lr.0);
                let r = self.operand(&lr.1);
                let mut e = obj! {"k": s("bin"), "op": s(binop_str(*op)), "l": l, "r": r};
                match op {
                    BinOp::AddWithOverflow | BinOp::SubWithOverflow | BinOp::MulWithOverflow => {
                        e.push("ovf", J::B(true))
                    }
                    _ => {}
                }
                e
            }
            Rvalue::UnaryOp(op, o) => {
                let e = self.operand(o);
                match op {
                    UnOp::Not => obj! {"k": s("un"), "op": s("!"), "e": e},
                    UnOp::Neg => obj! {"k": s("un"), "op": s("-"), "e": e},
                    UnOp::PtrMetadata => obj! {"k": s("call"), "fn": s("ptr_metadata"), "a": J::A(vec![e])},
                }
            }
            Rvalue::Cast(kind, o, to) => {
                let from = o.ty(&self.body.local_decls, tcx);
                let e = self.operand(o);
                obj! {"k": s("cast"), "to": s(self.cx.ty(*to)), "from": s(self.cx.ty(from)), "ck": s(format!("{:?}", kind)), "e": e}
            }
            Rvalue::Discriminant(p) => {
                obj! {"k": s("call"), "fn": s("discriminant"), "a": J::A(vec![self.place(*p)])}
            }
            Rvalue::Aggregate(kind, ops) => {
                let mut fields = Vec::new();
                let mut head = match &**kind {
                    AggregateKind::Adt(did, vidx, _, _, active) => {
                        let def = tcx.adt_def(*did);
                        let var = def.variant(*vidx);
                        for (i, o) in ops.iter_enumerated() {
                            // union aggregates carry a single operand for the active field
                            let fi = match active {
                                Some(a) => *a,
                                None => i,
                            };
                            let fname = if fi.as_usize() < var.fields.len() {
                                var.fields[fi].name.to_string()
                            } else {
                                fi.as_usize().to_string()
                            };
                            let e = self.operand(o);
                            fields.push(obj! {"f": s(fname), "e": e});
                        }
                        obj! {"k": s("agg"), "adt": s(self.cx.path(*did)), "variant": s(var.name.to_string())}
                    }
                    AggregateKind::Tuple => obj! {"k": s("agg"), "adt": s("tuple")},
                    AggregateKind::Array(_) => obj! {"k": s("agg"), "adt": s("array")},
                    AggregateKind::Closure(d, _)
                    | AggregateKind::Coroutine(d, _)
                    | AggregateKind::CoroutineClosure(d, _) => {
                        obj! {"k": s("agg"), "adt": s("closure"), "def": s(self.cx.path(*d))}
                    }
                    AggregateKind::RawPtr(..) => obj! {"k": s("agg"), "adt": s("rawptr")},
                };
                if fields.is_empty() {
                    let cdef = match &**kind {
                        AggregateKind::Closure(d, _) | AggregateKind::Coroutine(d, _) | AggregateKind::CoroutineClosure(d, _) => Some(*d),
                        _ => None,
                    };
                    for (i, o) in ops.iter_enumerated() {
                        let e = self.operand(o);
                        let mut fj = obj! {"f": s(i.as_usize().to_string()), "e": e};
                        if let Some(c) = cdef.and_then(|d| self.capture_name(d, i.as_usize())) {
                            fj.push("cap", s(c));
                        }
                        fields.push(fj);
                    }
                }
                head.push("fields", J::A(fields));
                head
            }
            Rvalue::Repeat(o, n) => {
                let e = self.operand(o);
                obj! {"k": s("other"), "cls": s("Repeat"), "kids": J::A(vec![e]), "n": s(format!("{}", n))}
            }
            Rvalue::ThreadLocalRef(d) => {
                obj! {"k": s("other"), "cls": s("ThreadLocalRef"), "kids": J::A(vec![]), "def": s(self.cx.path(*d))}
            }
            Rvalue::WrapUnsafeBinder(o, _) => {
                let e = self.operand(o);
                obj! {"k": s("other"), "cls": s("WrapUnsafeBinder"), "kids": J::A(vec![e])}
            }
        }
    }

    fn elem(&mut self, mut e: J, span: Span, top_loc: bool) -> J {
        let l = self.cx.jloc(span);
        if top_loc {
            let l2 = self.cx.jloc(span);
            e.push("loc", l2);
        }
        obj! {"e": e, "loc": l}
    }

    /// value → variant name for a `switchInt(move _d)` whose `_d = discriminant(place)` is in
    /// the same block.
    fn switch_names(&mut self, bb: &BasicBlockData<'tcx>, discr: &Operand<'tcx>) -> Option<(HashMap<u128, String>, String)> {
        let tcx = self.tcx();
        let p = discr.place()?;
        let l = p.as_local()?;
        for st in bb.statements.iter().rev() {
            if let StatementKind::Assign(b) = &st.kind {
                if b.0.as_local() == Some(l) {
                    if let Rvalue::Discriminant(src) = &b.1 {
                        let t = src.ty(&self.body.local_decls, tcx).ty;
                        if let ty::Adt(def, _) = t.kind() {
                            if def.is_enum() {
                                let mut m = HashMap::new();
                                for (vi, d) in def.discriminants(tcx) {
                                    m.insert(d.val, def.variant(vi).name.to_string());
                                }
                                return Some((m, self.cx.path(def.did())));
                            }
                        }
                    }
                    return None;
                }
            }
        }
        None
    }

    fn call(&mut self, func: &Operand<'tcx>, args: &[rustc_span::Spanned<Operand<'tcx>>], span: Span) -> J {
        let tcx = self.tcx();
        let fty = func.ty(&self.body.local_decls, tcx);
        let mut a = Vec::new();
        for x in args {
            a.push(self.operand(&x.node));
        }
        let mut c = if let ty::FnDef(d, gargs) = *fty.kind() {
            let tfn = self.cx.path(d);
            let mut virt = false;
            let mut shim: Option<String> = None;
            let resolved = match Instance::try_resolve(tcx, self.env, d, gargs) {
                Ok(Some(inst)) => {
                    match inst.def {
                        InstanceKind::Item(_) => {}
                        InstanceKind::Virtual(..) => virt = true,
                        ref other => {
                            let n = format!("{:?}", other);
                            shim = Some(n.split('(').next().unwrap_or("").to_string());
                        }
                    }
                    Some(inst.def_id())
                }
                _ => None,
            };
            let name = match resolved {
                Some(r) => self.cx.path(r),
                None => tfn.clone(),
            };
            let mut c = obj! {"k": s("call"), "fn": s(name), "targs": s(self.cx.gargs(gargs)), "a": J::A(a)};
            if resolved != Some(d) {
                c.push("tfn", s(tfn));
            }
            if resolved.is_none() {
                c.push("unres", J::B(true));
            }
            if virt {
                c.push("virt", J::B(true));
            }
            if let Some(sh) = shim {
                c.push("shim", s(sh));
            }
            c
        } else {
            let fe = self.operand(func);
            obj! {"k": s("call"), "fn": J::Null, "fe": fe, "targs": s(""), "a": J::A(a)}
        };
        let l = self.cx.jloc(span);
        c.push("loc", l);
        c
    }

    fn block(&mut self, id: BasicBlock, bb: &BasicBlockData<'tcx>, exit: usize) -> J {
        let tcx = self.tcx();
        let mut elems: Vec<J> = Vec::new();
        for st in &bb.statements {
            let span = st.source_info.span;
            match &st.kind {
                StatementKind::Assign(b) => {
                    let l = self.place(b.0);
                    let r = self.rvalue(&b.1);
                    let e = obj! {"k": s("assign"), "op": s("="), "l": l, "r": r};
                    elems.push(self.elem(e, span, true));
                }
                StatementKind::SetDiscriminant { place, variant_index } => {
                    let pt = place.ty(&self.body.local_decls, tcx).ty;
                    let (vname, rec) = self.variant_name(pt, *variant_index);
                    let b = self.place(**place);
                    let l = obj! {"k": s("mem"), "f": s("<discriminant>"), "rec": s(rec), "arrow": J::B(false), "b": b};
                    let r = obj! {"k": s("int"), "v": J::U(variant_index.as_usize() as u128), "name": s(vname)};
                    let e = obj! {"k": s("assign"), "op": s("="), "l": l, "r": r};
                    elems.push(self.elem(e, span, true));
                }
                StatementKind::Intrinsic(i) => {
                    let e = obj! {"k": s("other"), "cls": s("Intrinsic"), "kids": J::A(vec![]), "text": s(clip(format!("{:?}", i), 200))};
                    elems.push(self.elem(e, span, false));
                }
                _ => {}
            }
        }
        let term = bb.terminator();
        let span = term.source_info.span;
        let mut succs: Vec<J> = Vec::new();
        let plain = |to: BasicBlock| obj! {"to": J::I(to.as_usize() as i128), "r": J::B(true)};
        let mut cond = false;
        let mut switch = false;
        let cls: &'static str = match &term.kind {
            TerminatorKind::Goto { .. } => "Goto",
            TerminatorKind::SwitchInt { .. } => "SwitchInt",
            TerminatorKind::Return => "Return",
            TerminatorKind::Unreachable => "Unreachable",
            TerminatorKind::Drop { .. } => "Drop",
            TerminatorKind::Call { .. } => "Call",
            TerminatorKind::TailCall { .. } => "TailCall",
            TerminatorKind::Assert { .. } => "Assert",
            TerminatorKind::Yield { .. } => "Yield",
            TerminatorKind::FalseEdge { .. } => "FalseEdge",
            TerminatorKind::FalseUnwind { .. } => "FalseUnwind",
            TerminatorKind::InlineAsm { .. } => "InlineAsm",
            TerminatorKind::UnwindResume => "UnwindResume",
            TerminatorKind::UnwindTerminate(..) => "UnwindTerminate",
            TerminatorKind::CoroutineDrop => "CoroutineDrop",
        };
        match &term.kind {
            TerminatorKind::Goto { target } => succs.push(plain(*target)),
            TerminatorKind::FalseEdge { real_target, .. } => succs.push(plain(*real_target)),
            TerminatorKind::FalseUnwind { real_target, .. } => succs.push(plain(*real_target)),
            TerminatorKind::Yield { value, resume, .. } => {
                let v = self.operand(value);
                let e = obj! {"k": s("call"), "fn": s("yield"), "a": J::A(vec![v])};
                elems.push(self.elem(e, span, true));
                succs.push(plain(*resume));
            }
            TerminatorKind::InlineAsm { targets, .. } => {
                let e = obj! {"k": s("call"), "fn": s("asm"), "a": J::A(vec![])};
                elems.push(self.elem(e, span, true));
                for t in targets.iter() {
                    succs.push(plain(*t));
                }
            }
            TerminatorKind::Return => {
                let r = self.local_ref(Local::from_usize(0));
                let e = obj! {"k": s("ret"), "e": r};
                elems.push(self.elem(e, span, true));
                succs.push(obj! {"to": J::I(exit as i128), "r": J::B(true)});
            }
            TerminatorKind::Unreachable
            | TerminatorKind::UnwindResume
            | TerminatorKind::UnwindTerminate(..)
            | TerminatorKind::CoroutineDrop => {}
            TerminatorKind::Drop { place, target, .. } => {
                let pt = place.ty(&self.body.local_decls, tcx).ty;
                let p = self.place(*place);
                let e = obj! {"k": s("call"), "fn": s("drop"), "a": J::A(vec![p]), "dropty": s(self.cx.ty(pt))};
                elems.push(self.elem(e, span, true));
                succs.push(plain(*target));
            }
            TerminatorKind::Call { func, args, destination, target, fn_span, .. } => {
                let c = self.call(func, args, *fn_span);
                let l = self.place(*destination);
                let e = obj! {"k": s("assign"), "op": s("="), "l": l, "r": c};
                elems.push(self.elem(e, span, true));
                if let Some(t) = target {
                    succs.push(plain(*t));
                }
            }
            TerminatorKind::TailCall { func, args, fn_span } => {
                let c = self.call(func, args, *fn_span);
                let e = obj! {"k": s("ret"), "e": c, "tail": J::B(true)};
                elems.push(self.elem(e, span, true));
                succs.push(obj! {"to": J::I(exit as i128), "r": J::B(true)});
            }
            TerminatorKind::Assert { cond: c, expected, target, msg, .. } => {
                let o = self.operand(c);
                let kind = format!("{:?}", msg);
                let kind = kind.split(|ch: char| !ch.is_alphanumeric()).next().unwrap_or("").to_string();
                let e = obj! {"k": s("call"), "fn": s("assert"), "a": J::A(vec![o]), "expected": J::B(*expected), "msg": s(kind)};
                elems.push(self.elem(e, span, true));
                succs.push(plain(*target));
            }
            TerminatorKind::SwitchInt { discr, targets } => {
                cond = true;
                let dty = discr.ty(&self.body.local_decls, tcx);
                let names = self.switch_names(bb, discr);
                let d = self.operand(discr);
                elems.push(self.elem(d, span, false));
                if dty.is_bool() {
                    let mut t_to: Option<BasicBlock> = None;
                    let mut f_to: Option<BasicBlock> = None;
                    for (v, to) in targets.iter() {
                        if v == 0 {
                            f_to = Some(to);
                        } else {
                            t_to = Some(to);
                        }
                    }
                    if t_to.is_none() {
                        t_to = Some(targets.otherwise());
                    } else if f_to.is_none() {
                        f_to = Some(targets.otherwise());
                    }
                    if let Some(t) = t_to {
                        succs.push(obj! {"to": J::I(t.as_usize() as i128), "r": J::B(true), "lab": s("T")});
                    }
                    if let Some(f) = f_to {
                        succs.push(obj! {"to": J::I(f.as_usize() as i128), "r": J::B(true), "lab": s("F")});
                    }
                } else {
                    switch = true;
                    let signed = dty.is_signed();
                    let size = tcx
                        .layout_of(self.env.as_query_input(dty))
                        .ok()
                        .map(|l| l.size);
                    for (v, to) in targets.iter() {
                        let jv = match (signed, size) {
                            (true, Some(sz)) => J::I(sz.sign_extend(v)),
                            _ => J::U(v),
                        };
                        let mut lab = obj! {"case": J::B(true), "v": jv};
                        if let Some((m, _)) = &names {
                            if let Some(n) = m.get(&v) {
                                lab.push("name", s(n.clone()));
                            }
                        }
                        succs.push(obj! {"to": J::I(to.as_usize() as i128), "r": J::B(true), "lab": lab});
                    }
                    let other = targets.otherwise();
                    // `otherwise` that is a bare `unreachable` block carries no information
                    let dead = matches!(self.body.basic_blocks[other].terminator().kind, TerminatorKind::Unreachable)
                        && self.body.basic_blocks[other].statements.is_empty();
                    let mut lab = obj! {"default": J::B(true)};
                    if dead {
                        lab.push("unreachable", J::B(true));
                    }
                    succs.push(obj! {"to": J::I(other.as_usize() as i128), "r": J::B(!dead), "lab": lab});
                }
            }
        }
        let jterm = obj! {"cls": s(cls), "cond": J::B(cond), "switch": J::B(switch), "loc": self.cx.jloc(span)};
        obj! {"id": J::I(id.as_usize() as i128), "elems": J::A(elems), "term": jterm, "succs": J::A(succs)}
    }
}

// ------------------------------------------------------------------------------------------------

fn dump_fn<'tcx>(cx: &mut Cx<'tcx>, did: LocalDefId) -> Option<J> {
    let tcx = cx.tcx;
    let kind = tcx.def_kind(did);
    let body: &'tcx Body<'tcx> = match kind {
        DefKind::Fn | DefKind::AssocFn | DefKind::Closure => tcx.optimized_mir(did.to_def_id()),
        DefKind::Const { .. } | DefKind::AssocConst { .. } | DefKind::Static { .. } => {
            tcx.mir_for_ctfe(did.to_def_id())
        }
        _ => return None,
    };
    let env = TypingEnv::post_analysis(tcx, did.to_def_id());
    let mut names: Vec<Option<String>> = vec![None; body.local_decls.len()];
    for v in &body.var_debug_info {
        if let VarDebugInfoContents::Place(p) = v.value {
            if let Some(l) = p.as_local() {
                if names[l.as_usize()].is_none() {
                    names[l.as_usize()] = Some(v.name.to_string());
                }
            }
        }
    }
    let (file, line, _) = {
        let sp = body.span;
        cx.loc(sp)
    };
    let end = {
        let sp = body.span;
        let sp = if sp.from_expansion() { sp.source_callsite() } else { sp };
        cx.file_line(sp.hi(), false).1
    };
    let name = cx.path(did.to_def_id());
    cx.cur_file = file.clone();
    cx.cur_span = body.span;
    let derived = body.span.from_expansion();
    let mut bx = Bx { cx, body, env, names };
    let mut params = Vec::new();
    let mut locals = Vec::new();
    for (l, decl) in body.local_decls.iter_enumerated() {
        let i = l.as_usize();
        let n = bx.local_name(l);
        let t = bx.cx.ty(decl.ty);
        if i >= 1 && i <= body.arg_count {
            params.push(obj! {"name": s(n.clone()), "id": J::I(i as i128), "t": s(t.clone())});
        }
        let mut lj = obj! {"id": J::I(i as i128), "name": s(n), "t": s(t)};
        if bx.names[i].is_some() {
            lj.push("user", J::B(true));
        }
        locals.push(lj);
    }
    let ret = bx.cx.ty(body.local_decls[Local::from_usize(0)].ty);
    let nblocks = body.basic_blocks.len();
    let mut blocks = Vec::new();
    for (id, bb) in body.basic_blocks.iter_enumerated() {
        if bb.is_cleanup {
            continue;
        }
        blocks.push(bx.block(id, bb, nblocks));
    }
    blocks.push(obj! {"id": J::I(nblocks as i128), "elems": J::A(vec![]), "term": obj!{"cls": s("Exit"), "cond": J::B(false), "switch": J::B(false)}, "succs": J::A(vec![])});
    let kind_s = match kind {
        DefKind::Fn => "fn",
        DefKind::AssocFn => "method",
        DefKind::Closure => {
            if tcx.is_coroutine(did.to_def_id()) {
                "coroutine"
            } else {
                "closure"
            }
        }
        DefKind::Static { .. } => "static",
        _ => "const",
    };
    Some(obj! {
        "name": s(name),
        "kind": s(kind_s),
        "derived": J::B(derived),
        "file": s(file),
        "line": J::I(line as i128),
        "end": J::I(end as i128),
        "params": J::A(params),
        "locals": J::A(locals),
        "ret": s(ret),
        "cfg": obj!{"entry": J::I(0), "exit": J::I(nblocks as i128), "blocks": J::A(blocks)},
    })
}

fn dump_adt<'tcx>(cx: &mut Cx<'tcx>, did: LocalDefId) -> J {
    let tcx = cx.tcx;
    let def = tcx.adt_def(did.to_def_id());
    let kind = if def.is_enum() {
        "enum"
    } else if def.is_union() {
        "union"
    } else {
        "struct"
    };
    let mut variants = Vec::new();
    let discrs: HashMap<usize, u128> = if def.is_enum() {
        def.discriminants(tcx).map(|(i, d)| (i.as_usize(), d.val)).collect()
    } else {
        HashMap::new()
    };
    for (vi, v) in def.variants().iter_enumerated() {
        let mut fields = Vec::new();
        for f in v.fields.iter() {
            let t = tcx.type_of(f.did).instantiate_identity().skip_norm_wip();
            let vis = if f.vis.is_public() { "pub" } else { "priv" };
            fields.push(obj! {"name": s(f.name.to_string()), "t": s(cx.ty(t)), "vis": s(vis)});
        }
        let mut vj = obj! {"name": s(v.name.to_string()), "fields": J::A(fields)};
        if let Some(d) = discrs.get(&vi.as_usize()) {
            vj.push("v", J::U(*d));
        }
        variants.push(vj);
    }
    let (file, line, _) = cx.loc(tcx.def_span(did));
    obj! {"name": s(cx.path(did.to_def_id())), "kind": s(kind), "file": s(file), "line": J::I(line as i128), "variants": J::A(variants)}
}

fn dump_impl<'tcx>(cx: &mut Cx<'tcx>, did: LocalDefId, of_trait: bool) -> J {
    let tcx = cx.tcx;
    let self_ty = tcx.type_of(did).instantiate_identity().skip_norm_wip();
    let (tr, uns, pol) = if of_trait {
        let h = tcx.impl_trait_header(did);
        let tr = h.trait_ref.instantiate_identity().skip_norm_wip();
        let pol = match h.polarity {
            ty::ImplPolarity::Negative => "negative",
            ty::ImplPolarity::Positive => "positive",
            ty::ImplPolarity::Reservation => "reservation",
        };
        (Some((tr.def_id, format!("{}", tr.print_only_trait_path()))), h.safety.is_unsafe(), pol)
    } else {
        (None, false, "positive")
    };
    let mut items = Vec::new();
    for &it in tcx.associated_item_def_ids(did) {
        if matches!(tcx.def_kind(it), DefKind::AssocFn) {
            items.push(s(cx.path(it)));
        }
    }
    let (file, line, exp) = cx.loc(tcx.def_span(did));
    let mut j = obj! {
        "trait": match &tr { Some((d, _)) => s(cx.path(*d)), None => J::Null },
        "self": s(cx.ty(self_ty)),
        "unsafe": J::B(uns),
        "polarity": s(pol),
        "file": s(file),
        "line": J::I(line as i128),
        "items": J::A(items),
    };
    if let Some((_, full)) = tr {
        j.push("trait_ref", s(full));
    }
    if exp {
        j.push("derived", J::B(true));
    }
    j
}

fn dump_sig<'tcx>(cx: &mut Cx<'tcx>, did: LocalDefId) -> J {
    let tcx = cx.tcx;
    let sig = tcx.fn_sig(did).instantiate_identity().skip_norm_wip();
    let uns = sig.safety().is_unsafe();
    let mut selfk = J::Null;
    if matches!(tcx.def_kind(did), DefKind::AssocFn) {
        let ai = tcx.associated_item(did);
        if ai.is_method() {
            let t0 = sig.skip_binder().inputs()[0];
            selfk = match t0.kind() {
                ty::Ref(_, _, m) => {
                    if m.is_mut() {
                        s("&mut self")
                    } else {
                        s("&self")
                    }
                }
                _ => s("self"),
            };
        }
    }
    let vis = if tcx.visibility(did).is_public() { "pub" } else { "priv" };
    let (file, line, _) = cx.loc(tcx.def_span(did));
    obj! {"name": s(cx.path(did.to_def_id())), "self": selfk, "unsafe": J::B(uns), "vis": s(vis), "file": s(file), "line": J::I(line as i128)}
}

fn dump_crate<'tcx>(tcx: TyCtxt<'tcx>, out_dir: &str, is_bin: bool) {
    let cwd = std::env::current_dir().unwrap_or_default();
    let root = std::env::var("RSFACTS_ROOT").map(PathBuf::from).unwrap_or_else(|_| cwd.clone());
    let mut cx = Cx { tcx, root, cwd, files: HashMap::new(), tys: HashMap::new(), paths: HashMap::new(), cur_file: String::new(), cur_span: rustc_span::DUMMY_SP };
    let crate_name = tcx.crate_name(rustc_hir::def_id::LOCAL_CRATE).to_string();

    let mut functions = Vec::new();
    for did in tcx.hir_body_owners() {
        if let Some(f) = dump_fn(&mut cx, did) {
            functions.push(f);
        }
    }
    let mut adts = Vec::new();
    let mut impls = Vec::new();
    let mut sigs = Vec::new();
    for did in tcx.hir_crate_items(()).definitions() {
        match tcx.def_kind(did) {
            DefKind::Struct | DefKind::Enum | DefKind::Union => adts.push(dump_adt(&mut cx, did)),
            DefKind::Impl { of_trait } => impls.push(dump_impl(&mut cx, did, of_trait)),
            DefKind::Fn | DefKind::AssocFn => sigs.push(dump_sig(&mut cx, did)),
            _ => {}
        }
    }
    let top = obj! {
        "crate": s(crate_name.clone()),
        "bin": J::B(is_bin),
        "functions": J::A(functions),
        "adts": J::A(adts),
        "impls": J::A(impls),
        "fns_sig": J::A(sigs),
    };
    let mut out = String::with_capacity(1 << 24);
    top.write(&mut out);
    out.push('\n');
    let fname = if is_bin { format!("{}.bin.json", crate_name) } else { format!("{}.json", crate_name) };
    let dir = Path::new(out_dir);
    let _ = std::fs::create_dir_all(dir);
    let tmp = dir.join(format!(".{}.{}.tmp", fname, std::process::id()));
    let fin = dir.join(&fname);
    if let Err(e) = std::fs::write(&tmp, out.as_bytes()).and_then(|_| std::fs::rename(&tmp, &fin)) {
        eprintln!("rsfacts: cannot write {}: {}", fin.display(), e);
        std::process::exit(101);
    }
}

struct Cb;

impl Callbacks for Cb {
    fn config(&mut self, config: &mut rustc_interface::Config) {
        config.opts.unstable_opts.mir_opt_level = Some(0);
    }

    fn after_analysis<'tcx>(&mut self, _c: &rustc_interface::interface::Compiler, tcx: TyCtxt<'tcx>) -> Compilation {
        let Ok(out) = std::env::var("RSFACTS_OUT") else {
            return Compilation::Continue;
        };
        let name = tcx.crate_name(rustc_hir::def_id::LOCAL_CRATE).to_string();
        if name.starts_with("build_script_") || tcx.sess.opts.test {
            return Compilation::Continue;
        }
        let types = tcx.crate_types();
        let is_bin = types.iter().any(|t| matches!(t, CrateType::Executable));
        let is_lib = types.iter().any(|t| matches!(t, CrateType::Rlib | CrateType::Dylib | CrateType::Cdylib | CrateType::StaticLib));
        if !is_bin && !is_lib {
            return Compilation::Continue;
        }
        with_no_trimmed_paths!(dump_crate(tcx, &out, is_bin));
        Compilation::Continue
    }
}

fn main() -> std::process::ExitCode {
    let mut args: Vec<String> = std::env::args().collect();
    // RUSTC_WORKSPACE_WRAPPER protocol: argv[1] is the path of the real rustc.
    if args.len() > 1 {
        let stem = Path::new(&args[1]).file_stem().and_then(|x| x.to_str()).unwrap_or("");
        if stem == "rustc" {
            args.remove(1);
        }
    }
    let mut cb = Cb;
    rustc_driver::catch_with_exit_code(|| rustc_driver::run_compiler(&args, &mut cb))
}
