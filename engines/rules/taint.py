"""Flow-insensitive data-dependence (taint) over fact CFGs, with a simple inter-procedural
extension (tainted arguments taint the callee's parameters, tainted returns taint call results).
Control dependence is deliberately ignored: the rules that use this ask whether a *value* reaches a
sink, not whether it influences a branch."""
from facts import walk, own_walk, strip


def root_var(l):
    """Variable id at the bottom of an lvalue/place expression (field-insensitive)."""
    e = strip(l)
    while isinstance(e, dict):
        k = e.get("k")
        if k == "ref":
            return e.get("id") if e.get("dk") in ("local", "param") else None
        if k in ("mem", "idx"):
            e = strip(e["b"])
        elif k == "un":
            e = strip(e["e"])
        elif k == "cast":
            e = strip(e["e"])
        else:
            return None
    return None


class Taint:
    def __init__(self, facts, fns, is_source, callee_key=None, carrier=None):
        """fns: list of Fn to analyse together.  is_source(node, fn) -> bool marks source nodes."""
        self.facts = facts
        self.fns = {f.name: f for f in fns}
        self.is_source = is_source
        self.vars = {f.name: set() for f in fns}      # tainted variable ids per function
        self.ret = set()                              # functions whose return value is tainted
        self.param = {f.name: set() for f in fns}     # tainted parameter indices
        self.callee_key = callee_key or (lambda name: name)
        # carrier(type string) -> can a value of this type carry the tracked datum at all?
        self.carrier = carrier
        self._types = {}
        for f in fns:
            tm = {}
            for lc in f.j.get("locals", []) or []:
                tm[lc["id"]] = lc.get("t") or ""
            for p in f.params:
                tm.setdefault(p["id"], p.get("t") or "")
            self._types[f.name] = tm

    def can_carry(self, fn, vid):
        if self.carrier is None:
            return True
        t = self._types.get(fn.name, {}).get(vid)
        return True if t is None else self.carrier(t)

    def expr_tainted(self, e, fn):
        """Is the value of e data-dependent on a source?  Calls to functions analysed here use
        their return summary; calls to anything else are tainted when an argument is."""
        tv = self.vars[fn.name]
        from facts import kids
        stack = [e]
        while stack:
            n = stack.pop()
            if not isinstance(n, dict):
                continue
            k = n.get("k")
            if k == "ref" and n.get("id") in tv and n.get("dk") in ("local", "param"):
                return True
            if self.is_source(n, fn):
                return True
            if k == "call":
                name = self.resolve(n)
                if name is not None:
                    if name in self.ret:
                        return True
                    continue        # local callee: its summary decides, not its arguments
            if k == "agg" and n.get("adt") == "closure":
                name = self.resolve_name(n.get("def"))
                if name in self.ret:
                    return True
            stack.extend(kids(n))
        return False

    def resolve_name(self, name):
        if not name:
            return None
        if name in self.fns:
            return name
        # callee paths may carry a crate prefix
        for cand in self.fns:
            if name.endswith("::" + cand) or cand.endswith("::" + name):
                return cand
        return None

    def resolve(self, call):
        return self.resolve_name(call.get("fn"))

    def run(self, max_iter=50):
        for _ in range(max_iter):
            changed = False
            for fn in self.fns.values():
                tv = self.vars[fn.name]
                for i, p in enumerate(fn.params):
                    if i in self.param[fn.name] and p["id"] not in tv and self.can_carry(fn, p["id"]):
                        tv.add(p["id"])
                        changed = True
                for pt, e in fn.points():
                    for n in own_walk(e):
                        k = n.get("k")
                        if k in ("assign", "decl"):
                            r = n.get("r") if k == "assign" else n.get("init")
                            tgt = root_var(n["l"]) if k == "assign" else n.get("id")
                            if r is not None and tgt is not None and tgt not in tv and self.can_carry(fn, tgt) and self.expr_tainted(r, fn):
                                tv.add(tgt)
                                changed = True
                        if k == "ret":
                            if fn.name not in self.ret and n.get("e") is not None and self.expr_tainted(n["e"], fn):
                                self.ret.add(fn.name)
                                changed = True
                        if k == "call":
                            name = self.resolve(n)
                            if name:
                                for i, a in enumerate(n.get("a", [])):
                                    if i not in self.param[name] and self.expr_tainted(a, fn):
                                        self.param[name].add(i)
                                        changed = True
                            # closures passed as arguments: their captured upvars are fields, handled by agg
                        if k == "agg" and n.get("adt") == "closure":
                            name = self.resolve_name(n.get("def"))
                            if name:
                                # captured values become fields of the closure's first parameter
                                if any(self.expr_tainted(f["e"], fn) for f in n.get("fields", [])):
                                    if 0 not in self.param[name]:
                                        self.param[name].add(0)
                                        changed = True
            if not changed:
                break
        return self
