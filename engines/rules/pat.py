"""Expression patterns written in a small C-like syntax and matched against fact expression trees.

  _            any expression            $x      metavariable (same tree at every occurrence)
  name         a variable/function/enumerator of that name
  12  NULL  true  false  "str"
  a->f  a.f    member (arrow and dot are interchangeable)      a[i]   f(x, y, ...)   (... = rest)
  !a  &a  *a  -a     a*b a+b a<b a==b a&b a&&b a||b a=b a+=b
  @has(p)      some sub-expression matches p     @or(p,q,..)    @strip(p)  p after dropping casts
  @deref(p)    p, or a single-assignment local whose definition matches p

Explicit casts in the *matched expression* are transparent.  A local with exactly one definition
(and whose address is never taken) is transparently replaced by that definition when the pattern
at that position is not a plain name / wildcard.
"""
import re
from facts import walk, strip, show, callee_name

TOK = re.compile(r"\s*(?:(\d+)|(\"(?:[^\"\\]|\\.)*\")|(\$?[A-Za-z_][A-Za-z_0-9]*|@[a-z]+)|(->|\.\.\.|==|!=|<=|>=|&&|\|\||\+=|-=|\+\+|--|[-+*/%<>=!&|().,\[\]~^?:]))")

BINPREC = [
    ({"="," +=", "-=", "+="}, 1),
]
PREC = {"=": 1, "+=": 1, "-=": 1, "||": 2, "&&": 3, "|": 4, "^": 5, "&": 6, "==": 7, "!=": 7,
        "<": 8, ">": 8, "<=": 8, ">=": 8, "+": 10, "-": 10, "*": 11, "/": 11, "%": 11}


def tokenize(s):
    out = []
    pos = 0
    s = s.strip()
    while pos < len(s):
        m = TOK.match(s, pos)
        if not m:
            raise ValueError("bad pattern at %r" % s[pos:])
        pos = m.end()
        if m.group(1) is not None:
            out.append(("num", int(m.group(1))))
        elif m.group(2) is not None:
            out.append(("str", bytes(m.group(2)[1:-1], "utf-8").decode("unicode_escape")))
        elif m.group(3) is not None:
            out.append(("id", m.group(3)))
        else:
            out.append(("op", m.group(4)))
    return out


class P:
    def __init__(self, toks):
        self.t = toks
        self.i = 0

    def peek(self):
        return self.t[self.i] if self.i < len(self.t) else (None, None)

    def next(self):
        x = self.peek()
        self.i += 1
        return x

    def expect(self, v):
        k, x = self.next()
        if x != v:
            raise ValueError("expected %r got %r" % (v, x))

    def expr(self, minp=0):
        left = self.unary()
        while True:
            k, v = self.peek()
            if k == "op" and v == "?" and minp <= 2:
                self.next()
                a = self.expr(2)
                self.expect(":")
                b = self.expr(2)
                left = ("cond", left, a, b)
                continue
            if k == "op" and v in PREC and PREC[v] >= minp:
                p = PREC[v]
                self.next()
                right = self.expr(p + (0 if p == 1 else 1))
                left = ("assign" if p == 1 else "bin", v, left, right)
            else:
                return left

    def unary(self):
        k, v = self.peek()
        if k == "op" and v in ("!", "&", "*", "-", "~"):
            self.next()
            operand = self.unary()
            if v == "-" and operand[0] == "int":
                return ("int", -operand[1])
            return ("un", v, operand)
        return self.postfix()

    def postfix(self):
        e = self.primary()
        while True:
            k, v = self.peek()
            if k == "op" and v in ("->", "."):
                self.next()
                k2, name = self.next()
                e = ("mem", name, e)
            elif k == "op" and v == "[":
                self.next()
                i = self.expr()
                self.expect("]")
                e = ("idx", e, i)
            elif k == "op" and v == "(":
                self.next()
                args, rest = self.args()
                e = ("call", e, args, rest)
            else:
                return e

    def args(self):
        args = []
        rest = False
        if self.peek()[1] == ")":
            self.next()
            return args, rest
        while True:
            if self.peek()[1] == "...":
                self.next()
                rest = True
            else:
                args.append(self.expr())
            k, v = self.next()
            if v == ")":
                return args, rest
            if v != ",":
                raise ValueError("expected , or ) got %r" % (v,))

    def primary(self):
        k, v = self.next()
        if k == "num":
            return ("int", v)
        if k == "str":
            return ("str", v)
        if k == "id":
            if v == "_":
                return ("any",)
            if v.startswith("$"):
                return ("var", v)
            if v.startswith("@"):
                self.expect("(")
                args, _ = self.args()
                return ("fn", v[1:], args)
            if v == "NULL":
                return ("null",)
            if v == "true":
                return ("int", 1)
            if v == "false":
                return ("int", 0)
            return ("name", v)
        if k == "op" and v == "(":
            e = self.expr()
            self.expect(")")
            return e
        raise ValueError("unexpected %r" % (v,))


_cache = {}


def parse(s):
    if not isinstance(s, str):
        return s
    p = _cache.get(s)
    if p is None:
        ps = P(tokenize(s))
        p = ps.expr()
        if ps.i != len(ps.t):
            raise ValueError("trailing tokens in pattern %r" % s)
        _cache[s] = p
    return p


def bare_name(pat):
    """The identifier when a pattern is just a variable (possibly under ! or @deref), else None."""
    pat = parse(pat)
    while True:
        if pat[0] == "un" and pat[1] == "!":
            pat = pat[2]
        elif pat[0] == "fn" and pat[1] in ("deref", "strip", "lit") and pat[2]:
            pat = pat[2][0]
        else:
            break
    return pat[1] if pat[0] == "name" else None


def pattern_names(pat):
    """Identifiers used as *variables* in a pattern (not callees, not field names)."""
    pat = parse(pat)
    out = set()

    def rec(p):
        k = p[0]
        if k == "name":
            out.add(p[1])
        elif k == "mem":
            rec(p[2])
        elif k == "idx":
            rec(p[1]); rec(p[2])
        elif k == "call":
            if p[1][0] not in ("name",):
                rec(p[1])
            for a in p[2]:
                rec(a)
        elif k in ("un",):
            rec(p[2])
        elif k in ("bin", "assign"):
            rec(p[2]); rec(p[3])
        elif k == "cond":
            rec(p[1]); rec(p[2]); rec(p[3])
        elif k == "fn":
            for a in p[2]:
                rec(a)
    rec(pat)
    return out


def canon(e):
    """Structural key of an expression, ignoring locations/element tags."""
    return show(e, 0)


MIRROR = {"<": ">", ">": "<", "<=": ">=", ">=": "<=", "==": "==", "!=": "!="}
NEG = {"<": ">=", ">": "<=", "<=": ">", ">=": "<", "==": "!=", "!=": "=="}


COND_HITS = None      # set() when tools/cond_coverage.py wants to know which branch conditions some rule looked at


class M:
    """Matcher bound to a function (for local inlining) and optional named constants."""

    def __init__(self, fn=None, consts=None, inline=True):
        self.fn = fn
        self.consts = consts or {}
        self.inline = inline

    # -- tolerance for renamed locals ----------------------------------------------------------
    # A name in a pattern that no longer denotes anything in the function (no local, parameter,
    # global, function or enumerator of that spelling is mentioned anywhere in it) is treated as
    # a metavariable for a local/parameter: it may bind to one variable, consistently for all
    # patterns matched against this function.  A behaviour-preserving rename of a local therefore
    # does not turn into an alarm, while a removed check still does (nothing matches it).
    def _known_names(self):
        fn = self.fn
        kn = getattr(fn, "_known_names", None)
        if kn is None:
            kn = set()
            fn.defs(0)
            kn |= set(fn._names.values())
            for pt, e in fn.points():
                for n in walk(e):
                    if n.get("k") == "ref":
                        kn.add(n["name"])
                    elif n.get("k") == "int" and n.get("name"):
                        kn.add(n["name"])
            fn._known_names = kn
        return kn

    def _renamed(self, nm, e, env):
        if self.fn is None or e.get("dk") not in ("local", "param") or nm in self.consts:
            return False
        if env.get("!bare") == nm and nm not in getattr(self.fn, "_renames", {}):
            return False      # a bare-name pattern would bind to anything: resolved by the caller instead
        committed = getattr(self.fn, "_renames", {})
        if nm in committed:
            return committed[nm] == e["name"]
        if nm in self._known_names():
            return False
        if e["name"] in committed.values():
            return False
        key = "~" + nm
        if key in env:
            return env[key] == e["name"]
        if any(k.startswith("~") and v == e["name"] for k, v in env.items()):
            return False
        env[key] = e["name"]
        return True

    def _commit(self, env):
        if self.fn is None:
            return
        for k, v in env.items():
            if k.startswith("~") and isinstance(v, str):
                if not hasattr(self.fn, "_renames"):
                    self.fn._renames = {}
                self.fn._renames.setdefault(k[1:], v)

    def match(self, pat, e, env=None, depth=0):
        pat = parse(pat)
        if env is None:
            env = {}
        ok = self._m(pat, e, env, depth)
        if ok:
            self._commit(env)
        return ok

    def _deref(self, e):
        if self.fn is not None and self.inline and e.get("k") == "ref" and e.get("dk") == "local":
            d = self.fn.single_def(e["id"])
            if d is not None and d.get("k") not in ("uninit",):
                return d
        return None

    def _m(self, p, e, env, depth):
        if e is None:
            return False
        if depth > 40:
            return False
        kind = p[0]
        if kind == "any":
            return True
        if kind == "var":
            key = canon(e)
            if p[1] in env:
                return env[p[1]] == key
            env[p[1]] = key
            return True
        if kind == "fn":
            name, args = p[1], p[2]
            if name == "has":
                for n in walk(e):
                    env2 = dict(env)
                    if self._m(args[0], n, env2, depth + 1):
                        env.update(env2)
                        return True
                # also look through single-definition locals once
                for n in walk(e):
                    d = self._deref(n)
                    if d is not None:
                        for n2 in walk(d):
                            env2 = dict(env)
                            if self._m(args[0], n2, env2, depth + 1):
                                env.update(env2)
                                return True
                return False
            if name == "or":
                for a in args:
                    env2 = dict(env)
                    if self._m(a, e, env2, depth + 1):
                        env.update(env2)
                        return True
                return False
            if name == "strip":
                return self._m(args[0], strip(e), env, depth + 1)
            if name == "deref":
                if self._m(args[0], e, env, depth + 1):
                    return True
                d = self._deref(strip(e))
                return d is not None and self._m(p, d, env, depth + 1)
            if name == "lit":   # literal match without local inlining
                old = self.inline
                self.inline = False
                try:
                    return self._m(args[0], e, env, depth + 1)
                finally:
                    self.inline = old
            raise ValueError("unknown pattern function @" + name)
        e = strip(e)
        k = e.get("k")
        if kind == "name":
            nm = p[1]
            if k == "ref":
                return e["name"] == nm or self._renamed(nm, e, env)
            if k == "int":
                if e.get("name") == nm:
                    return True
                if nm in self.consts:
                    return e.get("v") == self.consts[nm]
            return False
        if kind == "int":
            if k == "int":
                return e.get("v") == p[1]
            if k == "null":
                return p[1] == 0
            return False
        if kind == "null":
            return k == "null" or (k == "int" and e.get("v") == 0)
        if kind == "str":
            return k == "str" and e.get("v") == p[1]
        # structural kinds: try direct, then through a single-definition local
        if self._ms(p, e, env, depth):
            return True
        d = self._deref(e)
        if d is not None:
            return self._m(p, d, env, depth + 1)
        return False

    def _ms(self, p, e, env, depth):
        kind = p[0]
        k = e.get("k")
        d = depth + 1
        if kind == "mem":
            return k == "mem" and e["f"] == p[1] and self._m(p[2], e["b"], env, d)
        if kind == "idx":
            return k == "idx" and self._m(p[1], e["b"], env, d) and self._m(p[2], e["i"], env, d)
        if kind == "call":
            if k != "call":
                return False
            callee, args, rest = p[1], p[2], p[3]
            if callee[0] == "name":
                if callee_name(e) != callee[1]:
                    return False
            elif callee[0] == "any":
                pass
            elif callee[0] == "fn" and callee[1] == "or":
                if not any(a[0] == "name" and a[1] == e.get("fn") for a in callee[2]):
                    return False
            else:
                fe = e.get("fe")
                if fe is None or not self._m(callee, fe, env, d):
                    return False
            ea = e.get("a", [])
            if rest:
                if len(ea) < len(args):
                    return False
            elif len(ea) != len(args):
                return False
            return all(self._m(a, x, env, d) for a, x in zip(args, ea))
        if kind == "un":
            op = p[1]
            return k == "un" and e["op"] == op and self._m(p[2], e["e"], env, d)
        if kind == "bin":
            if k != "bin":
                return False
            op = p[1]
            if e["op"] == op:
                env2 = dict(env)
                if self._m(p[2], e["l"], env2, d) and self._m(p[3], e["r"], env2, d):
                    env.update(env2)
                    return True
            if op in MIRROR and e["op"] == MIRROR[op]:
                env2 = dict(env)
                if self._m(p[2], e["r"], env2, d) and self._m(p[3], e["l"], env2, d):
                    env.update(env2)
                    return True
            if op in ("+", "*", "&", "|", "&&", "||") and e["op"] == op:
                env2 = dict(env)
                if self._m(p[2], e["r"], env2, d) and self._m(p[3], e["l"], env2, d):
                    env.update(env2)
                    return True
            return False
        if kind == "assign":
            return k == "assign" and e["op"] == p[1] and self._m(p[2], e["l"], env, d) and self._m(p[3], e["r"], env, d)
        if kind == "cond":
            return k == "cond" and self._m(p[1], e["c"], env, d) and self._m(p[2], e["t"], env, d) and self._m(p[3], e["e"], env, d)
        return False

    def _mc(self, pat, e):
        env = {}
        b = bare_name(pat)
        if b:
            env["!bare"] = b
        ok = self._m(pat, e, env, 0)
        if ok:
            self._commit(env)
        return ok

    # ---- branch conditions ------------------------------------------------------------------
    def atom(self, cond, truth):
        """Normalise (condition, edge truth) to (atom, truth): strips !, ==0, !=0."""
        e = strip(cond)
        while True:
            k = e.get("k")
            if k == "un" and e["op"] == "!":
                e = strip(e["e"])
                truth = not truth
                continue
            if k == "bin" and e["op"] in ("==", "!="):
                l, r = strip(e["l"]), strip(e["r"])
                zero = lambda x: (x.get("k") == "int" and x.get("v") == 0 and not x.get("name")) or x.get("k") == "null"
                boolish = lambda x: x.get("k") in ("call", "un", "bin") or (x.get("k") == "ref")
                if zero(r) and (l.get("k") in ("un",) and l["op"] == "!" or l.get("k") == "bin" and l["op"] in NEG or l.get("k") == "bin" and l["op"] in ("&&", "||")):
                    truth = truth if e["op"] == "!=" else not truth
                    e = l
                    continue
            return e, truth

    def cond_matches(self, pat, want, cond, truth):
        r = self._cond_matches(pat, want, cond, truth)
        if r and COND_HITS is not None:
            COND_HITS.add((self.fn.name, show(cond)))
        return r

    def _cond_matches(self, pat, want, cond, truth):
        """Does taking the edge with `truth` of branch condition `cond` establish `pat` == want?"""
        pat = parse(pat)
        e, t = self.atom(cond, truth)
        # pattern negation
        while pat[0] == "un" and pat[1] == "!":
            pat = pat[2]
            want = not want
        if pat[0] == "bin" and pat[1] in NEG:
            # comparison pattern: (op,l,r) wanted `want`
            forms = [(pat, want), (("bin", NEG[pat[1]], pat[2], pat[3]), not want)]
            for fp, fw in forms:
                if fw == t and self._mc(fp, e):
                    return True
            # `x` tested for truth where the pattern is `x != 0` / `x == 0` (or NULL)
            zero = lambda q: q[0] == "null" or (q[0] == "int" and q[1] == 0)
            if pat[1] in ("==", "!=") and (zero(pat[3]) or zero(pat[2])):
                other = pat[2] if zero(pat[3]) else pat[3]
                w = want if pat[1] == "!=" else not want
                if w == t and self._mc(other, e):
                    return True
            return False
        if want != t:
            # a truthiness pattern may be tested as `x == 0` / `x != 0`
            if e.get("k") == "bin" and e["op"] in ("==", "!="):
                l, r = strip(e["l"]), strip(e["r"])
                for a, b in ((l, r), (r, l)):
                    if (b.get("k") == "int" and b.get("v") == 0 and not b.get("name")) or b.get("k") == "null":
                        tt = t if e["op"] == "!=" else not t
                        if tt == want and self._mc(pat, a):
                            return True
            return False
        if self._mc(pat, e):
            return True
        if e.get("k") == "bin" and e["op"] in ("==", "!="):
            l, r = strip(e["l"]), strip(e["r"])
            for a, b in ((l, r), (r, l)):
                if (b.get("k") == "int" and b.get("v") == 0 and not b.get("name")) or b.get("k") == "null":
                    tt = t if e["op"] == "!=" else not t
                    if tt == want and self._mc(pat, a):
                        return True
        return False


def find(fn, pat, consts=None, own=True):
    """All (point, node) in fn where a node evaluated at that element matches pat."""
    from facts import own_walk
    m = M(fn, consts)
    pat = parse(pat)
    out = []
    for pt, e in fn.points():
        for n in (own_walk(e) if own else walk(e)):
            if n.get("k") == "ref" and pat[0] not in ("name", "any", "var"):
                continue   # never report a *use* of a local as an occurrence of its definition
            if m.match(pat, n):
                out.append((pt, n))
    return out
