"""Fact model shared by the C (cfacts) and Rust (rsfacts) extractors — engine E3, DESIGN.md §2.

A fact file is JSON: functions (with a CFG whose elements are small expression trees), records,
enums, typedefs, globals.  This module loads it and offers tree utilities.  Nothing here knows
about any particular property.
"""
import json


class Edge:
    __slots__ = ("src", "to", "lab", "reach", "idx")

    def __init__(self, src, to, lab, reach, idx):
        self.src, self.to, self.lab, self.reach, self.idx = src, to, lab, reach, idx

    def label_str(self):
        if isinstance(self.lab, dict):
            if self.lab.get("case"):
                return "case %s" % (self.lab.get("name") or self.lab.get("v"))
            if self.lab.get("default"):
                return "default"
            return "nocase"
        return self.lab or "-"


class Block:
    __slots__ = ("id", "elems", "term", "succs", "preds", "label")


class Fn:
    def __init__(self, j):
        self.j = j
        self.name = j["name"]
        self.file = j.get("file", "?")
        self.line = j.get("line", 0)
        self.end = j.get("end", 0)
        self.params = j.get("params", [])
        self.ret = j.get("ret")
        self.blocks = {}
        cfg = j.get("cfg")
        self.entry = self.exit = None
        if not cfg:
            return
        self.entry, self.exit = cfg["entry"], cfg["exit"]
        for jb in cfg["blocks"]:
            b = Block()
            b.id = jb["id"]
            b.elems = [x for x in jb["elems"]]
            b.term = jb.get("term") or {}
            b.label = jb.get("label")
            b.succs = []
            b.preds = []
            for i, s in enumerate(jb["succs"]):
                if s.get("to") is None:
                    continue
                b.succs.append(Edge(b.id, s["to"], s.get("lab"), s.get("r", True), i))
            self.blocks[b.id] = b
        for b in self.blocks.values():
            for e in b.succs:
                if e.to in self.blocks:
                    self.blocks[e.to].preds.append(e)
        self._defs = None
        self._addr = None

    # ---- element access -------------------------------------------------------------------
    def cond(self, bid):
        """Branch condition expression of a block (last element) or None."""
        b = self.blocks[bid]
        if b.term.get("cond") and b.elems:
            return b.elems[-1]["e"]
        return None

    def points(self):
        for bid, b in self.blocks.items():
            for i, el in enumerate(b.elems):
                if el.get("e") is not None:
                    yield (bid, i), el["e"]

    def loc(self, pt):
        b = self.blocks[pt[0]]
        if pt[1] < len(b.elems):
            l = b.elems[pt[1]].get("loc") or {}
            return "%s:%s" % (l.get("f", self.file), l.get("l", "?"))
        l = b.term.get("loc") or {}
        return "%s:%s" % (l.get("f", self.file), l.get("l", "?"))

    def macro(self, pt):
        b = self.blocks[pt[0]]
        if pt[1] < len(b.elems):
            return (b.elems[pt[1]].get("loc") or {}).get("m") or []
        return []

    # ---- definitions of locals --------------------------------------------------------------
    def _scan_defs(self):
        defs = {}   # id -> list of rhs exprs (None = unknown modification)
        addr = set()
        names = {}
        for p in self.params:
            defs.setdefault(p["id"], []).append({"k": "param", "name": p["name"]})
            names[p["id"]] = p["name"]
        for lc in self.j.get("locals", []) or []:     # MIR: locals carry their user names
            names.setdefault(lc["id"], lc.get("name") or "_%s" % lc["id"])
        readonly_addr = set()
        for pt, e in self.points():
            for n in own_walk(e):
                if n.get("k") == "call" and n.get("fn") in READONLY_PTR_FUNCS:
                    for a in n.get("a", []):
                        a = strip(a)
                        if a.get("k") == "un" and a["op"] == "&":
                            readonly_addr.add(id(a))
        for pt, e in self.points():
            for n in own_walk(e):
                k = n.get("k")
                if k == "decl":
                    names[n["id"]] = n["name"]
                    defs.setdefault(n["id"], []).append(n.get("init") if n.get("init") is not None else {"k": "uninit"})
                elif k == "decls":
                    for d in n["ds"]:
                        names[d["id"]] = d["name"]
                        defs.setdefault(d["id"], []).append(d.get("init") if d.get("init") is not None else {"k": "uninit"})
                elif k == "assign":
                    l = n["l"]
                    if l.get("k") == "ref":
                        defs.setdefault(l["id"], []).append(n["r"] if n["op"] == "=" else None)
                elif k == "un" and n["op"] in ("post++", "post--", "pre++", "pre--"):
                    l = n["e"]
                    if l.get("k") == "ref":
                        defs.setdefault(l["id"], []).append(None)
                elif k == "un" and n["op"] == "&" and id(n) not in readonly_addr and n.get("mut", True):
                    t = n["e"]
                    while t.get("k") in ("mem", "idx") and not (t.get("k") == "mem" and t.get("arrow")):
                        t = t["b"]
                    if t.get("k") == "ref":
                        addr.add(t["id"])
        self._defs, self._addr, self._names = defs, addr, names

    def defs(self, vid):
        if self._defs is None:
            self._scan_defs()
        return self._defs.get(vid, [])

    def addr_taken(self, vid):
        if self._defs is None:
            self._scan_defs()
        return vid in self._addr

    def single_def(self, vid):
        """The unique defining expression of a local (decl init or its only assignment), or None."""
        ds = [d for d in self.defs(vid) if not (isinstance(d, dict) and d.get("k") == "uninit")]
        if len(ds) == 1 and ds[0] is not None and ds[0].get("k") != "param" and not self.addr_taken(vid):
            return ds[0]
        return None

    def ids_named(self, name):
        if self._defs is None:
            self._scan_defs()
        cur = getattr(self, "_renames", {}).get(name)
        if cur:
            return [i for i, nm in self._names.items() if nm == cur]
        return [i for i, nm in self._names.items() if nm == name]

    def cur(self, name):
        """Current spelling of a local the rule tables know as `name` (renamed-local tolerance)."""
        if self._defs is None:
            self._scan_defs()
        cur = getattr(self, "_renames", {}).get(name)
        if cur:
            return cur
        return name

    def calls(self):
        """All (point, call-node) pairs, each call once (at its own element)."""
        for pt, e in self.points():
            for n in own_walk(e):
                if n.get("k") == "call":
                    yield pt, n


# functions that only read through their pointer arguments
READONLY_PTR_FUNCS = {"memcmp", "strlen", "strcmp", "strncmp"}


def kids(n):
    """Child expression nodes of a node."""
    k = n.get("k")
    if k in ("int", "str", "null", "ref", "zero", "float", "param", "uninit"):
        if k == "int" and isinstance(n.get("of"), dict):
            return []
        return []
    out = []
    for key in ("b", "i", "l", "r", "e", "c", "t", "fe", "init", "base"):
        v = n.get(key)
        if isinstance(v, dict):
            out.append(v)
    for key in ("a", "kids", "ds", "args"):
        v = n.get(key)
        if isinstance(v, list):
            out.extend(x for x in v if isinstance(x, dict))
    if k in ("init", "agg"):
        for f in n.get("fields", []):
            if isinstance(f.get("e"), dict):
                out.append(f["e"])
    return out


def walk(n):
    """Pre-order over the whole tree."""
    if not isinstance(n, dict):
        return
    stack = [n]
    while stack:
        x = stack.pop()
        yield x
        ks = kids(x)
        stack.extend(reversed(ks))


def own_walk(n):
    """Pre-order over the part of an element tree that is evaluated *at this element*:
    sub-trees that are CFG elements of their own (tag 'el') are not entered.  Cached per root."""
    if not isinstance(n, dict):
        return ()
    c = n.get("_own")
    if c is not None:
        return c
    out = []
    stack = [n]
    first = True
    while stack:
        x = stack.pop()
        if not first and "el" in x:
            continue
        first = False
        out.append(x)
        stack.extend(reversed(kids(x)))
    n["_own"] = out
    return out


def callee_name(n):
    """Direct callee, or the name of the global function pointer called through."""
    if n.get("fn"):
        return n["fn"]
    fe = n.get("fe")
    while isinstance(fe, dict) and fe.get("k") in ("cast", "un"):
        fe = fe.get("e")
    if isinstance(fe, dict) and fe.get("k") == "ref":
        return fe["name"]
    return None


def strip(n):
    """Drop explicit casts."""
    while isinstance(n, dict) and n.get("k") == "cast":
        n = n["e"]
    return n


def show(n, depth=0):
    """Compact C-like rendering of an expression tree, for reports."""
    if n is None:
        return "∅"
    if depth > 12:
        return "…"
    k = n.get("k")
    d = depth + 1
    if k == "int":
        return str(n.get("name") or n.get("v"))
    if k == "null":
        return "NULL"
    if k == "str":
        return json.dumps(n["v"][:40])
    if k == "ref":
        return n["name"]
    if k == "mem":
        return "%s%s%s" % (show(n["b"], d), "->" if n.get("arrow") else ".", n["f"])
    if k == "idx":
        return "%s[%s]" % (show(n["b"], d), show(n["i"], d))
    if k == "call":
        fn = n.get("fn") or ("(*%s)" % show(n.get("fe"), d))
        return "%s(%s)" % (fn, ", ".join(show(a, d) for a in n.get("a", [])))
    if k in ("bin", "assign"):
        return "%s %s %s" % (show(n["l"], d), n["op"], show(n["r"], d))
    if k == "un":
        op = n["op"]
        if op.startswith("post"):
            return show(n["e"], d) + op[4:]
        if op.startswith("pre"):
            return op[3:] + show(n["e"], d)
        return op + show(n["e"], d)
    if k == "cast":
        return "(%s)%s" % (n["to"], show(n["e"], d))
    if k == "cond":
        return "%s ? %s : %s" % (show(n["c"], d), show(n["t"], d), show(n["e"], d))
    if k == "init":
        return "(%s){%s}" % (n.get("t", ""), ", ".join(".%s=%s" % (f["f"], show(f["e"], d)) for f in n.get("fields", []) if not f.get("implicit")))
    if k == "decl":
        return "%s %s = %s" % (n.get("t", ""), n["name"], show(n.get("init"), d))
    if k == "decls":
        return "; ".join(show(x, d) for x in n["ds"])
    if k == "ret":
        return "return %s" % show(n.get("e"), d)
    if k == "zero":
        return "{0}"
    if k == "agg":
        return "%s{%s}" % (n.get("adt", ""), ", ".join(show(x, d) for x in n.get("a", [])))
    return "<%s>" % (n.get("cls") or k)


class Facts:
    def __init__(self, path):
        with open(path) as f:
            j = json.load(f)
        self.path = path
        self.j = j
        self.fns = {}
        self.fn_list = []
        for fj in j.get("functions", []):
            fn = Fn(fj)
            fn.facts = self
            self.fn_list.append(fn)
            # static functions in different files could share a name; keep the first, list all
            self.fns.setdefault(fn.name, fn)
        self.records = {r["name"]: r for r in j.get("records", []) if r.get("name")}
        self.enums = {e["name"]: e for e in j.get("enums", [])}
        self.typedefs = {t["name"]: t for t in j.get("typedefs", [])}
        self.globals = {g["name"]: g for g in j.get("globals", [])}
        self._callers = None

    def fn(self, name):
        return self.fns.get(name)

    def enum_val(self, name):
        for e in self.enums.values():
            for c in e["consts"]:
                if c["name"] == name:
                    return c["v"]
        return None

    def callers(self):
        """callee name -> list of (Fn, point, call node)."""
        if self._callers is None:
            m = {}
            for fn in self.fn_list:
                for pt, c in fn.calls():
                    if c.get("fn"):
                        m.setdefault(c["fn"], []).append((fn, pt, c))
            self._callers = m
        return self._callers

    def callees(self, fn):
        return sorted({c["fn"] for _, c in fn.calls() if c.get("fn")})

    def reachable_from(self, roots):
        seen = set()
        work = [r for r in roots if r in self.fns]
        while work:
            n = work.pop()
            if n in seen:
                continue
            seen.add(n)
            for c in self.callees(self.fns[n]):
                if c in self.fns and c not in seen:
                    work.append(c)
        return seen

    def record_fields(self, rec):
        r = self.records.get(rec)
        return [f["name"] for f in r["fields"]] if r else None
