"""Path-sensitive exploration of a function's CFG with a monitor automaton — DESIGN.md §3.1/§3.2.

State = (block, flag valuation, monitor state).  Flag locals are scalar locals/parameters whose
address is never taken and which are tested in some branch as `x`, `!x`, `x == c`, `x != c` or as
the operand of a `switch`.  Their abstract value is: known constant, "not one of {c…}", or unknown.
Branch edges contradicted by the valuation are pruned; edges Clang proved unreachable are pruned.
This is a (finite) ESP-style property simulation: it makes `reason = "…" … if (reason) continue;`
and `comparison = …; switch (comparison)` transparent to must-pass-through rules.
"""
from collections import deque
from facts import own_walk, walk, strip, show
from pat import M, parse


class Viol:
    def __init__(self, msg, pt=None):
        self.msg, self.pt = msg, pt
        self.path = []

    def __repr__(self):
        return "Viol(%s)" % self.msg


PRUNE = object()


def _flag_id(e, tracked):
    """Variable id when e is a tracked flag `x`, or the pointer member `x.ptr` of a tracked
    handle-like local (Subtree-style unions whose truth is their `ptr`)."""
    e = strip(e)
    if e.get("k") == "ref" and e.get("id") in tracked:
        return e["id"]
    if e.get("k") == "mem" and e.get("f") == "ptr" and not e.get("arrow"):
        b = strip(e["b"])
        if b.get("k") == "ref" and b.get("id") in tracked:
            return b["id"]
    return None


def _constval(e, env, tracked):
    e = strip(e)
    k = e.get("k")
    if k == "init":
        fs = [f for f in e.get("fields", [])]
        if fs and all(strip(f["e"]).get("k") in ("null", "zero") or (strip(f["e"]).get("k") == "int" and strip(f["e"]).get("v") == 0) for f in fs):
            return ("c", 0)
        return None
    if k == "int":
        v = e.get("v")
        return ("c", v)
    if k == "null":
        return ("c", 0)
    if k == "str":
        return ("c", "s:" + e.get("v", ""))
    if k == "ref" and e.get("id") in tracked:
        return env.get(e["id"])
    return None


def _truthy(v):
    return not (v == 0)


def tracked_vars(fn):
    cand = set()
    for bid, b in fn.blocks.items():
        c = fn.cond(bid)
        if c is None:
            continue
        e = strip(c)
        if b.term.get("switch"):
            if e.get("k") == "ref":
                cand.add(e["id"])
            continue
        while e.get("k") == "un" and e["op"] == "!":
            e = strip(e["e"])
        if e.get("k") == "ref":
            cand.add(e["id"])
        elif e.get("k") == "mem" and e.get("f") == "ptr" and not e.get("arrow") and strip(e["b"]).get("k") == "ref":
            cand.add(strip(e["b"])["id"])
        elif e.get("k") == "bin" and e["op"] in ("==", "!="):
            l, r = strip(e["l"]), strip(e["r"])
            for a, b2 in ((l, r), (r, l)):
                if a.get("k") == "ref" and b2.get("k") in ("int", "null", "str"):
                    cand.add(a["id"])
    out = set()
    for v in cand:
        if fn.addr_taken(v):
            continue
        # only variables that are somewhere assigned a constant can correlate branches usefully;
        # tracking the others just multiplies states
        ds = fn.defs(v)
        if any(d is not None and _constval(d, {}, set()) is not None for d in ds):
            out.add(v)
    return out


class Search:
    def __init__(self, fn, monitor, track=True, budget=400000):
        self.fn = fn
        self.mon = monitor
        self.m = M(fn)
        self.tracked = tracked_vars(fn) if track else set()
        self.budget = budget
        self.states = 0

    # -- environment handling ----------------------------------------------------------------
    def _step_env(self, env, e):
        changed = None
        for n in own_walk(e):
            k = n.get("k")
            tgt = None
            val = None
            if k == "decl":
                if n["id"] in self.tracked:
                    tgt = n["id"]
                    val = _constval(n["init"], changed if changed is not None else env, self.tracked) if n.get("init") is not None else None
            elif k == "decls":
                for d in n["ds"]:
                    if d["id"] in self.tracked:
                        if changed is None:
                            changed = dict(env)
                        v = _constval(d["init"], changed, self.tracked) if d.get("init") is not None else None
                        if v is None:
                            changed.pop(d["id"], None)
                        else:
                            changed[d["id"]] = v
                continue
            elif k == "assign":
                l = strip(n["l"])
                if l.get("k") == "ref" and l["id"] in self.tracked:
                    tgt = l["id"]
                    val = _constval(n["r"], changed if changed is not None else env, self.tracked) if n["op"] == "=" else None
            elif k == "un" and n["op"] in ("post++", "post--", "pre++", "pre--"):
                l = strip(n["e"])
                if l.get("k") == "ref" and l["id"] in self.tracked:
                    tgt = l["id"]
                    val = None
            if tgt is not None:
                if changed is None:
                    changed = dict(env)
                if val is None:
                    changed.pop(tgt, None)
                else:
                    changed[tgt] = val
        return changed if changed is not None else env

    def _refine(self, env, cond, truth):
        """Return refined env for taking `truth` on cond, or None when infeasible."""
        e = strip(cond)
        while e.get("k") == "un" and e["op"] == "!":
            e = strip(e["e"])
            truth = not truth
        k = e.get("k")
        if k == "int":
            return env if _truthy(e.get("v")) == truth else None
        if k == "null":
            return env if not truth else None
        fid = _flag_id(e, self.tracked)
        if fid is not None:
            return self._refine_eq(env, fid, 0, not truth)
        if k == "bin" and e["op"] in ("==", "!="):
            l, r = strip(e["l"]), strip(e["r"])
            for a, b in ((l, r), (r, l)):
                if a.get("k") == "ref" and a["id"] in self.tracked:
                    cv = _constval(b, env, self.tracked)
                    if cv is not None and cv[0] == "c":
                        eq = truth if e["op"] == "==" else not truth
                        return self._refine_eq(env, a["id"], cv[1], eq)
        return env

    def _refine_eq(self, env, vid, c, eq):
        cur = env.get(vid)
        if cur is None:
            new = ("c", c) if eq else ("ne", frozenset([c]))
        elif cur[0] == "c":
            if (cur[1] == c) != eq:
                return None
            return env
        else:
            if eq:
                if c in cur[1]:
                    return None
                new = ("c", c)
            else:
                new = ("ne", cur[1] | frozenset([c]))
        env2 = dict(env)
        env2[vid] = new
        return env2

    # -- search ----------------------------------------------------------------------------------
    def run(self, init_m, start_block=None, init_env=None):
        fn = self.fn
        if fn.entry is None:
            return Viol("function %s has no CFG" % fn.name)
        b0 = fn.entry if start_block is None else start_block
        key0 = (b0, tuple(sorted((init_env or {}).items(), key=repr)), init_m)
        parent = {key0: None}
        q = deque([key0])
        while q:
            key = q.popleft()
            self.states += 1
            if self.states > self.budget:
                v = Viol("state budget exceeded in %s" % fn.name)
                return v
            bid, envt, m = key
            env = dict(envt)
            b = fn.blocks[bid]
            dead = False
            for i, el in enumerate(b.elems):
                e = el.get("e")
                if e is None:
                    continue
                r = self.mon.elem(m, (bid, i), e, self)
                if isinstance(r, Viol):
                    r.pt = r.pt or (bid, i)
                    r.path = self._path(parent, key)
                    return r
                if r is PRUNE:
                    dead = True
                    break
                m = r
                env = self._step_env(env, e)
                if any(n.get("k") == "call" and n.get("noreturn") for n in own_walk(e)):
                    dead = True   # abort path (__assert_fail …): not a normal continuation
                    break
            if dead:
                continue
            if not b.succs and bid != fn.exit:
                continue
            if bid == fn.exit:
                r = self.mon.exit(m, bid, self)
                if isinstance(r, Viol):
                    r.pt = r.pt or (bid, 0)
                    r.path = self._path(parent, key)
                    return r
                continue
            cond = fn.cond(bid)
            for edge in b.succs:
                if not edge.reach:
                    continue
                env2 = env
                truth = None
                if cond is not None and not b.term.get("switch") and edge.lab in ("T", "F"):
                    truth = edge.lab == "T"
                    env2 = self._refine(env, cond, truth)
                    if env2 is None:
                        continue
                elif cond is not None and b.term.get("switch") and isinstance(edge.lab, dict):
                    ce = strip(cond)
                    if ce.get("k") == "ref" and ce["id"] in self.tracked:
                        if edge.lab.get("case"):
                            env2 = self._refine_eq(env, ce["id"], edge.lab.get("v"), True)
                        else:
                            env2 = env
                            for e3 in b.succs:
                                if isinstance(e3.lab, dict) and e3.lab.get("case") and env2 is not None:
                                    env2 = self._refine_eq(env2, ce["id"], e3.lab.get("v"), False)
                        if env2 is None:
                            continue
                m2 = self.mon.edge(m, bid, edge, cond, truth, self)
                if isinstance(m2, Viol):
                    m2.path = self._path(parent, key) + [(bid, edge.label_str())]
                    return m2
                if m2 is PRUNE:
                    continue
                nk = (edge.to, tuple(sorted(env2.items(), key=repr)), m2)
                if nk not in parent:
                    parent[nk] = (key, edge)
                    q.append(nk)
        return None

    def _path(self, parent, key):
        out = []
        while parent.get(key) is not None:
            pk, edge = parent[key]
            out.append((pk[0], edge.label_str()))
            key = pk
        out.reverse()
        return out

    def render_path(self, path):
        fn = self.fn
        segs = []
        for bid, lab in path:
            c = fn.cond(bid)
            if c is not None:
                b = fn.blocks[bid]
                segs.append("%s [%s] → %s" % (fn.loc((bid, len(b.elems) - 1)), show(c)[:90], lab))
        return segs


from facts import READONLY_PTR_FUNCS


class Monitor:
    def elem(self, m, pt, e, s):
        return m

    def edge(self, m, bid, edge, cond, truth, s):
        return m

    def exit(self, m, bid, s):
        return None


# ---------------------------------------------------------------------------------------------
# Ready-made monitors
# ---------------------------------------------------------------------------------------------
def cond_cases(e, truth, depth=0):
    """DNF of `e == truth` over its atoms: a list of cases, each a list of (atom expr, truth)."""
    x = strip(e)
    k = x.get("k")
    if depth > 6:
        return [[(e, truth)]]

    def prod(a, b):
        return [p + q for p in a for q in b]
    if k == "cond":
        c, t, f = x["c"], x["t"], x["e"]
        return prod(cond_cases(c, True, depth + 1), cond_cases(t, truth, depth + 1)) + prod(cond_cases(c, False, depth + 1), cond_cases(f, truth, depth + 1))
    if k == "bin" and x.get("op") == "&&":
        if truth:
            return prod(cond_cases(x["l"], True, depth + 1), cond_cases(x["r"], True, depth + 1))
        return cond_cases(x["l"], False, depth + 1) + prod(cond_cases(x["l"], True, depth + 1), cond_cases(x["r"], False, depth + 1))
    if k == "bin" and x.get("op") == "||":
        if truth:
            return cond_cases(x["l"], True, depth + 1) + prod(cond_cases(x["l"], False, depth + 1), cond_cases(x["r"], True, depth + 1))
        return prod(cond_cases(x["l"], False, depth + 1), cond_cases(x["r"], False, depth + 1))
    if k == "un" and x.get("op") == "!":
        return cond_cases(x["e"], not truth, depth + 1)
    return [[(e, truth)]]


class GateMonitor(Monitor):
    """Every path to an accept point must have taken an edge establishing one of the alternatives
    (pattern, want) since the last redefinition of that alternative's operands.
    Monitor state: 0 = not established, i+1 = established by alternative i, -1 = by a statement."""

    def __init__(self, accept_pts, pred, want=None, kill_ids=(), est_elem=None, accept_edge=None, check_exit=False, kill_fn=None):
        self.accept = set(accept_pts)
        self.accept_edge = accept_edge
        self.check_exit = check_exit
        if pred is None:
            alts = []
        elif isinstance(pred, list):
            alts = [(parse(p), w, p) for p, w in pred]
        else:
            alts = [(parse(pred), want, pred)]
        # per-alternative kill sets: kill_fn(pattern text) -> ids, else the common kill_ids
        self.alts = [(p, w, set(kill_fn(src)) if kill_fn else set(kill_ids)) for p, w, src in alts]
        self.pred = pred
        self.want = want
        self.est_elem = est_elem

    def elem(self, m, pt, e, s):
        if pt in self.accept and not m:
            return Viol("accept point reached without %s being %s" % (self.pred_str(), self.want), pt)
        if m and m > 0:
            kill = self.alts[m - 1][2]
            if kill:
                for n in own_walk(e):
                    k = n.get("k")
                    if k == "assign" and strip(n["l"]).get("k") == "ref" and strip(n["l"])["id"] in kill:
                        m = 0
                    elif k == "decl" and n["id"] in kill:
                        m = 0
                    elif k == "un" and n["op"] in ("post++", "post--", "pre++", "pre--") and strip(n["e"]).get("k") == "ref" and strip(n["e"])["id"] in kill:
                        m = 0
                    elif k == "call" and n.get("fn") not in READONLY_PTR_FUNCS:
                        # an out-parameter: `f(&x)` may redefine x
                        for a in n.get("a", []):
                            a = strip(a)
                            if a.get("k") == "un" and a.get("op") == "&" and strip(a["e"]).get("k") == "ref" and strip(a["e"]).get("id") in kill and a.get("mut", True):
                                m = 0
        if self.est_elem is not None and self.est_elem(pt, e):
            return -1
        return m

    def exit(self, m, bid, s):
        if self.check_exit and not m:
            return Viol("function exit reached without %s" % self.pred_str())
        return None

    def pred_str(self):
        return getattr(self, "label", None) or str(self.pred)

    def edge(self, m, bid, edge, cond, truth, s):
        if cond is not None and truth is not None:
            for i, (p, w, kill) in enumerate(self.alts):
                if s.m.cond_matches(p, w, cond, truth):
                    return i + 1
            if strip(cond).get("k") == "cond":
                # a conditional expression used as a branch condition: Clang does not split it into blocks.
                # Expand it into its cases; the gate is established if every case establishes an alternative.
                cs = cond_cases(cond, truth)
                first = None
                if cs and len(cs) <= 16:
                    for case in cs:
                        hit = None
                        for i, (p, w, kill) in enumerate(self.alts):
                            if any(s.m.cond_matches(p, w, ex, tr) for ex, tr in case):
                                hit = i + 1
                                break
                        if hit is None:
                            first = None
                            break
                        first = first or hit
                    if first:
                        return first
        if self.accept_edge is not None and not m and self.accept_edge(bid, edge):
            return Viol("accept edge %s taken without %s being %s" % (edge.label_str(), self.pred_str(), self.want), (bid, len(s.fn.blocks[bid].elems) - 1))
        return m


class BeforeMonitor(Monitor):
    """Every path to a use point must have passed a guard point (dominance, path-sensitive)."""

    def __init__(self, use_pts, guard_pts, reset_pts=(), check_exit=False):
        self.use, self.guard, self.reset = set(use_pts), set(guard_pts), set(reset_pts)
        self.check_exit = check_exit

    def exit(self, m, bid, s):
        if self.check_exit and not m:
            return Viol("function exit reached without passing the required statement")
        return None

    def elem(self, m, pt, e, s):
        if pt in self.guard:
            m = True
        if pt in self.use and not m:
            return Viol("use reached without guard", pt)
        if pt in self.reset:
            m = False
        return m


class AfterMonitor(Monitor):
    """After a trigger point, every path must reach an obligation point before leaving the
    function (or reaching a stop point / the next trigger)."""

    def __init__(self, trigger_pts, obligation_pts, stop_pts=(), exempt_pts=(), retrigger_is_stop=False):
        self.trig, self.obl, self.stop, self.exempt = set(trigger_pts), set(obligation_pts), set(stop_pts), set(exempt_pts)
        self.retrigger_is_stop = retrigger_is_stop

    def elem(self, m, pt, e, s):
        if pt in self.obl:
            return None
        if pt in self.exempt:
            return None
        if m is not None and (pt in self.stop or (self.retrigger_is_stop and pt in self.trig)):
            return Viol("obligation not met between trigger at %s and %s" % (s.fn.loc(m), s.fn.loc(pt)), pt)
        if pt in self.trig:
            return pt
        return m

    def exit(self, m, bid, s):
        if m is not None:
            return Viol("function exit reached with obligation pending since %s" % s.fn.loc(m), m)
        return None


def reachable_blocks(fn, start, avoid_edges=None):
    seen = set([start])
    work = [start]
    while work:
        b = work.pop()
        for e in fn.blocks[b].succs:
            if not e.reach:
                continue
            if avoid_edges and (b, e.idx) in avoid_edges:
                continue
            if e.to not in seen:
                seen.add(e.to)
                work.append(e.to)
    return seen


def dominators(fn):
    """Classic iterative dominator sets over reachable blocks (block granularity)."""
    blocks = reachable_blocks(fn, fn.entry)
    dom = {b: set(blocks) for b in blocks}
    dom[fn.entry] = {fn.entry}
    changed = True
    while changed:
        changed = False
        for b in blocks:
            if b == fn.entry:
                continue
            preds = [e.src for e in fn.blocks[b].preds if e.reach and e.src in blocks]
            new = set(blocks)
            for p in preds:
                new &= dom[p]
            new = new | {b}
            if new != dom[b]:
                dom[b] = new
                changed = True
    return dom


def dominates_pt(fn, dom, a, b):
    """Does point a dominate point b?"""
    if a[0] == b[0]:
        return a[1] <= b[1]
    return a[0] in dom.get(b[0], set())
