"""Sibling-agreement rule (DESIGN.md §3.5): two functions must have isomorphic CFGs whose top-level
statements are equal after alpha-renaming of locals and a declared substitution."""
from facts import strip, show, kids


def referenced_elems(fn):
    """(block, idx) of elements that are sub-expressions of a later element."""
    out = set()
    for pt, e in fn.points():
        stack = list(kids(e))
        while stack:
            x = stack.pop()
            if "el" in x:
                out.add(tuple(x["el"]))
            stack.extend(kids(x))
    return out


class Norm:
    def __init__(self, fn, hook=None):
        self.fn = fn
        self.ren = {}
        self.hook = hook
        # name parameters and locals by declaration order (not by first use), so that the operand order of a
        # comparison cannot influence the numbering
        for p in fn.params:
            self.ren.setdefault(p["id"], "v%d" % len(self.ren))
        decls = []
        for b in fn.blocks.values():
            for el in b.elems:
                e = el.get("e") if isinstance(el, dict) and "e" in el and "k" not in el else el
                if isinstance(e, dict) and e.get("k") == "decl":
                    decls.append(((e.get("loc") or {}).get("l", 0), e.get("id", 0), e["id"]))
                elif isinstance(e, dict) and e.get("k") == "decls":
                    for x in e.get("ds", []):
                        decls.append(((x.get("loc") or {}).get("l", 0), x.get("id", 0), x["id"]))
        for _, _, i in sorted(decls):
            self.ren.setdefault(i, "v%d" % len(self.ren))

    def name(self, e):
        key = e.get("id")
        if key not in self.ren:
            self.ren[key] = "v%d" % len(self.ren)
        return self.ren[key]

    def r(self, e, d=0):
        if e is None:
            return "∅"
        if d > 30:
            return "…"
        if self.hook:
            h = self.hook(e, self, d)
            if h is not None:
                return h
        k = e.get("k")
        n = d + 1
        if k == "ref":
            if e.get("dk") in ("local", "param"):
                return self.name(e)
            return e["name"]
        if k == "int":
            return str(e.get("name") or e.get("v"))
        if k == "null":
            return "NULL"
        if k == "str":
            return repr(e["v"])
        if k == "mem":
            return "%s.%s" % (self.r(e["b"], n), e["f"])
        if k == "idx":
            return "%s[%s]" % (self.r(e["b"], n), self.r(e["i"], n))
        if k == "call":
            return "%s(%s)" % (e.get("fn") or "(*%s)" % self.r(e.get("fe"), n), ",".join(self.r(a, n) for a in e.get("a", [])))
        if k == "bin" and e["op"] in (">", ">="):
            return "(%s %s %s)" % (self.r(e["r"], n), {">": "<", ">=": "<="}[e["op"]], self.r(e["l"], n))
        if k == "bin" and e["op"] in ("==", "!="):
            a, b = sorted([self.r(e["l"], n), self.r(e["r"], n)])
            return "(%s %s %s)" % (a, e["op"], b)
        if k in ("bin", "assign"):
            return "(%s %s %s)" % (self.r(e["l"], n), e["op"], self.r(e["r"], n))
        if k == "un":
            return "%s(%s)" % (e["op"], self.r(e["e"], n))
        if k == "cast":
            return self.r(e["e"], n)
        if k == "cond":
            return "(%s?%s:%s)" % (self.r(e["c"], n), self.r(e["t"], n), self.r(e["e"], n))
        if k == "init":
            return "{%s}" % ",".join(".%s=%s" % (f["f"], self.r(f["e"], n)) for f in e.get("fields", []) if not f.get("implicit"))
        if k == "decl":
            self.ren.setdefault(e["id"], "v%d" % len(self.ren))
            return "decl %s=%s" % (self.ren[e["id"]], self.r(e.get("init"), n))
        if k == "decls":
            return ";".join(self.r(x, n) for x in e["ds"])
        if k == "ret":
            return "return %s" % self.r(e.get("e"), n)
        if k == "zero":
            return "{0}"
        return "<%s>" % (e.get("cls") or k)


def compare(fa, fb, hook_a=None, hook_b=None, skip_a=None, skip_b=None):
    """Returns None when the CFGs agree, else a description of the first difference."""
    na, nb = Norm(fa, hook_a), Norm(fb, hook_b)
    ra, rb = referenced_elems(fa), referenced_elems(fb)
    pair = {}
    work = [(fa.entry, fb.entry)]
    n_blocks = 0
    while work:
        a, b = work.pop()
        if a in pair:
            if pair[a] != b:
                return "control flow differs: block %d of %s corresponds to both %d and %d of %s" % (a, fa.name, pair[a], b, fb.name), n_blocks
            continue
        pair[a] = b
        n_blocks += 1
        ba, bb = fa.blocks[a], fb.blocks[b]
        ea = [(i, x["e"]) for i, x in enumerate(ba.elems) if x.get("e") is not None and (a, i) not in ra]
        eb = [(i, x["e"]) for i, x in enumerate(bb.elems) if x.get("e") is not None and (b, i) not in rb]
        if skip_a:
            ea = [(i, x) for i, x in ea if not skip_a(x)]
        if skip_b:
            eb = [(i, x) for i, x in eb if not skip_b(x)]
        sa = [na.r(x) for i, x in ea]
        sb = [nb.r(x) for i, x in eb]
        for j in range(max(len(sa), len(sb))):
            xa = sa[j] if j < len(sa) else "<nothing>"
            xb = sb[j] if j < len(sb) else "<nothing>"
            if xa != xb:
                la = fa.loc((a, ea[j][0])) if j < len(ea) else fa.loc((a, 0))
                lb = fb.loc((b, eb[j][0])) if j < len(eb) else fb.loc((b, 0))
                return "%s at %s is `%s` but %s at %s is `%s`" % (fa.name, la, show(ea[j][1])[:100] if j < len(ea) else xa, fb.name, lb, show(eb[j][1])[:100] if j < len(eb) else xb), n_blocks
        suca = [e for e in ba.succs]
        sucb = [e for e in bb.succs]
        if [e.label_str() for e in suca] != [e.label_str() for e in sucb] or [e.reach for e in suca] != [e.reach for e in sucb]:
            return "branch structure differs after %s / %s" % (fa.loc((a, max(0, len(ba.elems) - 1))), fb.loc((b, max(0, len(bb.elems) - 1)))), n_blocks
        for x, y in zip(suca, sucb):
            work.append((x.to, y.to))
    return None, n_blocks
