"""Rule-run context: instance bookkeeping, violations, known findings, evidence (DESIGN.md §7)."""
import json
import os
import time

from facts import show
from flow import Search, GateMonitor, BeforeMonitor, AfterMonitor, Viol, dominators, dominates_pt
from pat import M, parse, find

VERIF = os.path.dirname(os.path.dirname(os.path.dirname(os.path.abspath(__file__))))
OUT = os.environ.get("VERIF_OUT", VERIF)   # mutant/self-test runs write their evidence elsewhere


class Ctx:
    def __init__(self, prop, tier, seed=0):
        self.prop = prop
        self.tier = tier
        self.seed = seed
        self.t0 = time.time()
        self.instances = []     # dicts: rule, key, status, detail, config, nontrivial
        self.violations = []    # dicts: key, msg, detail
        self.known_hit = []
        self.facts = {}         # name -> Facts
        self.analysed = {}      # free-form counters
        self.floors = []        # (what, measured, floor)
        self.assumptions = []
        self.config = ""        # current configuration label
        self.notes = []
        self.known = load_known()

    # -- instance results -------------------------------------------------------------------------
    def ok(self, rule, key, detail="", nontrivial=True, sample=None):
        self.instances.append({"rule": rule, "key": key, "status": "ok", "detail": detail,
                               "config": self.config, "nontrivial": nontrivial, "sample": sample})

    def bad(self, rule, key, msg, detail=None):
        """A rule instance does not hold. `key` identifies the site without line numbers."""
        full = "%s.%s:%s" % (self.prop, rule, key)
        self.instances.append({"rule": rule, "key": key, "status": "violation", "detail": msg,
                               "config": self.config, "nontrivial": True, "sample": None})
        for v in self.violations:
            if v["key"] == full:
                if self.config not in v["configs"]:
                    v["configs"].append(self.config)
                return
        self.violations.append({"key": full, "rule": rule, "msg": msg, "detail": detail or {}, "configs": [self.config]})

    def floor(self, what, measured, floor):
        """Fail closed when fewer instances/sites were found than were confirmed by hand."""
        self.floors.append({"what": what, "measured": measured, "floor": floor, "config": self.config})
        if measured < floor:
            self.bad("floor", what.replace(" ", "_"), "only %d found, floor (counted on the pinned tree) is %d: %s" % (measured, floor, what))

    def need_fn(self, facts, name, rule="anchor"):
        fn = facts.fn(name)
        if fn is None or fn.entry is None:
            self.bad(rule, "missing-function:%s" % name, "anchor function %s not found in the analysed program" % name)
            return None
        return fn

    # -- rule helpers -----------------------------------------------------------------------------
    def gate(self, rule, fn, accept_pts, preds, kill_names=(), accept_desc="accept", accept_edge=None):
        """preds: list of (label, pattern, want).  Every path entry→accept must establish each."""
        if not accept_pts and accept_edge is None:
            self.bad(rule, "%s:no-accept-point" % fn.name, "no %s point found in %s" % (accept_desc, fn.name))
            return
        import re as _re
        fn.defs(0)
        by_name = {}
        for vid, nm in fn._names.items():
            by_name.setdefault(nm, set()).add(vid)

        def kills_for(p):
            # operands of the predicate: every local/parameter named in the pattern; a redefinition
            # of one of them after the test invalidates the established outcome
            ids = set()
            for tok in _re.findall(r"[A-Za-z_][A-Za-z_0-9]*", p if isinstance(p, str) else ""):
                ids |= by_name.get(tok, set())
                ids |= by_name.get(getattr(fn, "_renames", {}).get(tok, ""), set())
            for nm in kill_names:
                ids |= by_name.get(nm, set())
            return ids
        for spec in preds:
            if len(spec) == 2:
                label, pattern = spec
                want = "one of " + "; ".join("%s=%s" % (p, w) for p, w in pattern)
                # an alternative (pattern, "stmt") is established by *executing* a matching statement
                stmt_pts = set()
                for p, w in pattern:
                    if w == "stmt":
                        stmt_pts |= {pt for pt, n in find(fn, p)}
                pattern = [(p, w) for p, w in pattern if w != "stmt"]
                mon = GateMonitor(accept_pts, pattern, None, (), accept_edge=accept_edge, kill_fn=kills_for,
                                  est_elem=(lambda pt, e, S=stmt_pts: pt in S) if stmt_pts else None)
            else:
                label, pattern, want = spec
                mon = GateMonitor(accept_pts, pattern, want, (), accept_edge=accept_edge, kill_fn=kills_for)
            mon.label = label
            renames_before = dict(getattr(fn, "_renames", {}))
            s = Search(fn, mon)
            v = s.run(0)
            if v is not None:
                # bindings of vanished names that were committed *during* the failed search may be wrong guesses
                # (the first structurally matching condition wins): drop them and resolve the name angelically
                fn._renames = dict(renames_before)
                # renamed-local tolerance for bare-name predicates: a variable the tables name no
                # longer exists; accept if *some* other local plays its role in this gate
                from pat import pattern_names, M as _M
                pats = [p for p, w in pattern] if isinstance(pattern, list) else [pattern]
                known = _M(fn)._known_names()
                vanished = sorted({n for p in pats if isinstance(p, str) for n in pattern_names(p)
                                   if n not in known and n not in getattr(fn, "_renames", {})})
                if len(vanished) == 1:
                    cands = sorted({nm for nm in fn._names.values() if not nm.startswith("_")})
                    for cand in cands:
                        if cand in getattr(fn, "_renames", {}).values():
                            continue
                        saved = dict(getattr(fn, "_renames", {}))
                        fn._renames = dict(saved, **{vanished[0]: cand})
                        mon2 = GateMonitor(accept_pts, pattern, want if len(spec) == 3 else None, (), accept_edge=accept_edge, kill_fn=kills_for,
                                           est_elem=mon.est_elem)
                        mon2.label = label
                        s2 = Search(fn, mon2)
                        if s2.run(0) is None:
                            v, s = None, s2
                            break
                        fn._renames = saved
            key = "%s:%s" % (fn.name, label)
            if v is None:
                self.ok(rule, key, "every path to %s (%d point(s)) in %s passes `%s` = %s; %d product states" % (
                    accept_desc, len(accept_pts), fn.name, label, want, s.states),
                    sample={"function": fn.name, "file": fn.file, "accept": [fn.loc(p) for p in sorted(accept_pts)][:4],
                            "predicate": label, "required_outcome": want, "states": s.states})
            else:
                self.bad(rule, key, "%s: a path reaches %s at %s without `%s` being %s" % (fn.name, accept_desc, fn.loc(v.pt), label, want),
                         {"function": fn.name, "file": fn.file, "accept_site": fn.loc(v.pt), "predicate": label, "required_outcome": want,
                          "path": s.render_path(v.path), "why": v.msg})

    def on_all_paths(self, rule, key, fn, guard_pts, what):
        """Every path from entry to a normal exit passes one of guard_pts."""
        if not guard_pts:
            self.bad(rule, key, "%s: statement not found in %s" % (what, fn.name), {"function": fn.name})
            return False
        s = Search(fn, BeforeMonitor((), guard_pts, check_exit=True))
        v = s.run(False)
        if v is None:
            self.ok(rule, key, what + " on every path (%d site(s), %d states)" % (len(guard_pts), s.states),
                    sample={"function": fn.name, "sites": [fn.loc(p) for p in sorted(guard_pts)][:4], "rule": what})
            return True
        self.bad(rule, key, "%s: a path through %s skips it" % (what, fn.name), {"function": fn.name, "path": s.render_path(v.path)})
        return False

    def established_at_exit(self, rule, key, fn, stmt_pts, edge_alts, what):
        """On every path to a normal exit, one of the statements ran or one of the branch
        outcomes (pattern, want) was taken — e.g. `x = NULL` ran or `x.ptr` was already false."""
        if not stmt_pts and not edge_alts:
            self.bad(rule, key, "%s: nothing to look for" % what)
            return False
        pts = set(stmt_pts)
        mon = GateMonitor((), list(edge_alts) if edge_alts else None, None, (), est_elem=lambda pt, e: pt in pts, check_exit=True)
        mon.label = what
        s = Search(fn, mon)
        v = s.run(0)
        if v is None:
            self.ok(rule, key, what + " on every path of %s (%d statement site(s), %d states)" % (fn.name, len(pts), s.states),
                    sample={"function": fn.name, "sites": [fn.loc(p) for p in sorted(pts)][:4], "rule": what})
            return True
        self.bad(rule, key, "%s: a path through %s reaches the exit without it" % (what, fn.name), {"function": fn.name, "path": s.render_path(v.path)})
        return False

    def before(self, rule, key, fn, use_pts, guard_pts, what, reset_pts=()):
        if not use_pts:
            self.bad(rule, key + ":no-use-site", "no use site found for: " + what)
            return False
        if not guard_pts:
            self.bad(rule, key, "%s: guard not found at all in %s" % (what, fn.name), {"function": fn.name, "uses": [fn.loc(p) for p in use_pts]})
            return False
        s = Search(fn, BeforeMonitor(use_pts, guard_pts, reset_pts=reset_pts))
        v = s.run(False)
        if v is None:
            self.ok(rule, key, what + " (%d use(s), %d guard site(s), %d states)" % (len(use_pts), len(guard_pts), s.states),
                    sample={"function": fn.name, "uses": [fn.loc(p) for p in sorted(use_pts)][:4], "guards": [fn.loc(p) for p in sorted(guard_pts)][:4], "rule": what})
            return True
        self.bad(rule, key, "%s: %s — violated at %s" % (fn.name, what, fn.loc(v.pt)),
                 {"function": fn.name, "site": fn.loc(v.pt), "path": s.render_path(v.path)})
        return False

    def after(self, rule, key, fn, trig_pts, obl_pts, what, stop_pts=(), exempt_pts=(), retrigger_is_stop=False):
        if not trig_pts:
            self.bad(rule, key + ":no-trigger", "no trigger site found for: " + what)
            return False
        s = Search(fn, AfterMonitor(trig_pts, obl_pts, stop_pts, exempt_pts, retrigger_is_stop))
        v = s.run(None)
        if v is None:
            self.ok(rule, key, what + " (%d trigger(s), %d obligation site(s), %d states)" % (len(trig_pts), len(obl_pts), s.states),
                    sample={"function": fn.name, "triggers": [fn.loc(p) for p in sorted(trig_pts)][:4], "obligations": [fn.loc(p) for p in sorted(obl_pts)][:4], "rule": what})
            return True
        self.bad(rule, key, "%s: %s — %s" % (fn.name, what, v.msg),
                 {"function": fn.name, "site": fn.loc(v.pt), "path": s.render_path(v.path)})
        return False

    # -- finish -----------------------------------------------------------------------------------
    def finish(self, explanation, extra_cov=None):
        new_viol = []
        known_lines = []
        known_keys = {k["key"]: k for k in self.known if k.get("property") == self.prop and k.get("status", "known") == "known"}
        for v in self.violations:
            if v["key"] in known_keys:
                known_lines.append("KNOWN-FINDING: property=%s %s — %s" % (self.prop, v["key"], known_keys[v["key"]].get("what", v["msg"])))
                self.known_hit.append(v["key"])
            else:
                new_viol.append(v)
        rep_dir = os.path.join(OUT, "reports", self.prop)
        os.makedirs(rep_dir, exist_ok=True)
        for f in os.listdir(rep_dir):
            os.unlink(os.path.join(rep_dir, f))
        lines = []
        for v in new_viol:
            fname = "".join(c if c.isalnum() or c in "._-" else "_" for c in v["key"])[:150] + ".json"
            path = os.path.join(rep_dir, fname)
            with open(path, "w") as f:
                json.dump({"property": self.prop, **v}, f, indent=1)
            lines.append("VIOLATION property=%s replay=%s" % (self.prop, path))
            lines.append("  rule %s: %s" % (v["rule"], v["msg"]))
            for seg in (v["detail"].get("path") or [])[:12]:
                lines.append("    via " + seg)
        inst = self.instances
        distinct = {(i["rule"], i["key"]) for i in inst}
        nontriv = {(i["rule"], i["key"]) for i in inst if i["nontrivial"]}
        okd = {(i["rule"], i["key"]) for i in inst if i["status"] == "ok"} - {(i["rule"], i["key"]) for i in inst if i["status"] != "ok"}
        samples = [i["sample"] for i in inst if i.get("sample")][:6]
        if not samples:
            samples = [{"rule": i["rule"], "key": i["key"], "detail": i["detail"]} for i in inst[:4]]
        cov = {
            "explanation": explanation,
            "obligations": len(distinct),
            "discharged": len(okd),
            "evaluations": len(inst),
            "distinct_nontrivial": len(nontriv),
            "rule": "one obligation = one rule instance (site/predicate/field) from the frozen tables in props/%s.py, evaluated on facts extracted from /repo's current source in this run; non-trivial = the instance had at least one site/path to examine" % self.prop,
            "samples": samples,
            "exhaustive": True,
            "instances": [{"rule": i["rule"], "key": i["key"], "status": i["status"], "config": i["config"], "detail": i["detail"]} for i in inst],
            "floors": self.floors,
            "analysed": self.analysed,
            "known_findings_hit": self.known_hit,
            "checker_cmd": "./check %s %s" % (self.prop, self.tier),
            "trusted_base": ["clang 14 front end + CFG builder", "rustc nightly MIR", "rule tables in /verif/props"],
        }
        if extra_cov:
            cov.update(extra_cov)
        if getattr(self, "extra_cov", None):
            cov.update(self.extra_cov)
        ev = {
            "property_id": self.prop, "tier": self.tier, "seed": self.seed, "level": "other",
            "coverage": cov,
            "assumptions": self.assumptions or ["Clang/rustc front ends are faithful", "rule tables state the design's reliance correctly"],
            "wall_s": round(time.time() - self.t0, 3),
            "violations": len(new_viol),
        }
        os.makedirs(os.path.join(OUT, "evidence"), exist_ok=True)
        with open(os.path.join(OUT, "evidence", self.prop + ".json"), "w") as f:
            json.dump(ev, f, indent=1)
        for l in known_lines:
            print(l)
        for l in lines:
            print(l)
        print("%s %s: %d rule instances, %d ok, %d known finding(s), %d new violation(s), %.1fs" % (
            self.prop, self.tier, len(distinct), len(okd), len(known_lines), len(new_viol), time.time() - self.t0))
        return 1 if new_viol else 0


def load_known():
    p = os.path.join(VERIF, "known_findings.json")
    if not os.path.exists(p):
        return []
    with open(p) as f:
        return json.load(f).get("findings", [])
