"""Runs the extractors against the working tree of the repository and caches fact files by the
content hash of the sources they depend on (so a cached file is never stale)."""
import hashlib
import os
import re
import subprocess
import sys
import time

HERE = os.path.dirname(os.path.abspath(__file__))
VERIF = os.path.dirname(HERE)
REPO = os.environ.get("VERIF_REPO", "/repo")
CACHE = os.environ.get("VERIF_CACHE", os.path.join(VERIF, ".cache"))
BIN_CACHE = os.environ.get("VERIF_BIN_CACHE", os.path.join(VERIF, ".cache"))   # built extractors (shared with mutant runs)
LLVM = "/usr/lib/llvm-14"

sys.path.insert(0, os.path.join(HERE, "rules"))
from facts import Facts  # noqa: E402


def sh(cmd, **kw):
    return subprocess.run(cmd, stdout=subprocess.PIPE, stderr=subprocess.PIPE, text=True, **kw)


def tree_hash(paths, exts=None, extra=""):
    h = hashlib.sha256()
    h.update(extra.encode())
    for base in paths:
        if os.path.isfile(base):
            files = [base]
        else:
            files = []
            for d, dirs, fs in os.walk(base):
                dirs[:] = sorted(x for x in dirs if x not in ("target", ".git", "node_modules"))
                for f in sorted(fs):
                    if exts is None or os.path.splitext(f)[1] in exts:
                        files.append(os.path.join(d, f))
        for f in files:
            h.update(f.encode())
            try:
                with open(f, "rb") as fh:
                    h.update(fh.read())
            except OSError:
                h.update(b"<unreadable>")
    return h.hexdigest()[:20]


# ---------------------------------------------------------------------------------------------
# E1: cfacts
# ---------------------------------------------------------------------------------------------
def build_cfacts():
    src = os.path.join(HERE, "cfacts", "cfacts.cpp")
    out = os.path.join(BIN_CACHE, "bin", "cfacts")
    if os.path.exists(out) and os.path.getmtime(out) >= os.path.getmtime(src):
        return out
    os.makedirs(os.path.dirname(out), exist_ok=True)
    cxxflags = sh([LLVM + "/bin/llvm-config", "--cxxflags"]).stdout.split()
    cmd = ["clang++", "-std=c++17", "-O1"] + cxxflags + ["-fexceptions", src, "-o", out + ".tmp",
           LLVM + "/lib/libclang-cpp.so.14", "-L" + LLVM + "/lib", "-lLLVM-14"]
    r = sh(cmd)
    if r.returncode != 0:
        sys.stderr.write(r.stderr[-4000:])
        raise SystemExit("cfacts build failed")
    os.replace(out + ".tmp", out)
    return out


def c_build_flags():
    """Flags of the real build, re-read from lib/binding_rust/build.rs; fail closed if the calls we
    know are not all there."""
    txt = open(os.path.join(REPO, "lib/binding_rust/build.rs")).read()
    need = ['.std("c11")', ".include(&src_path)", ".include(&wasm_path)", ".include(&include_path)",
            '.define("_POSIX_C_SOURCE", "200112L")', '.define("_DEFAULT_SOURCE", None)',
            '.define("_BSD_SOURCE", None)', '.define("_DARWIN_C_SOURCE", None)', '.file(src_path.join("lib.c"))']
    missing = [n for n in need if n not in txt]
    if missing:
        raise SystemExit("build.rs no longer contains the build configuration this extractor mirrors: %s" % missing)
    defs = re.findall(r'\.define\("([A-Za-z_0-9()\.]+)",\s*(None|"[^"]*")\)', txt)
    known = {"TREE_SITTER_FEATURE_WASM", "static_assert(...)", "_POSIX_C_SOURCE", "_DEFAULT_SOURCE", "_BSD_SOURCE",
             "_DARWIN_C_SOURCE", "TREE_SITTER_WASM_STDLIB"}
    unknown = [d for d, _ in defs if d not in known]
    if unknown:
        raise SystemExit("build.rs defines macros this extractor does not know: %s" % unknown)
    L = REPO + "/lib"
    return ["-std=c11", "-I" + L + "/src", "-I" + L + "/src/wasm", "-I" + L + "/include",
            "-D_POSIX_C_SOURCE=200112L", "-D_DEFAULT_SOURCE", "-D_BSD_SOURCE", "-D_DARWIN_C_SOURCE"]


C_CONFIGS = {
    "A": [],                       # as built by build.rs (asserts on)
    "B": ["-DNDEBUG"],             # ts_assert(e) is ((void)(e))
    "C": ["-DNDEBUG", "-DTS_BIG_ENDIAN=1"],  # the other SubtreeInlineData layout
}


def cfacts(config="A"):
    tool = build_cfacts()
    flags = c_build_flags() + C_CONFIGS[config]
    hsh = tree_hash([REPO + "/lib/src", REPO + "/lib/include"], exts={".c", ".h"},
                    extra=" ".join(flags) + str(os.path.getmtime(tool)))
    out = os.path.join(CACHE, "facts", "c-%s-%s.json" % (config, hsh))
    if not os.path.exists(out):
        os.makedirs(os.path.dirname(out), exist_ok=True)
        for f in os.listdir(os.path.dirname(out)):
            if f.startswith("c-%s-" % config):
                os.unlink(os.path.join(os.path.dirname(out), f))
        cmd = [tool, REPO + "/", out + ".tmp", REPO + "/lib/src/lib.c", "--"] + flags + [
            "-resource-dir", LLVM + "/lib/clang/14.0.6", "-Wno-everything"]
        r = sh(cmd)
        if r.returncode != 0 or not os.path.exists(out + ".tmp"):
            sys.stderr.write(r.stderr[-4000:])
            raise SystemExit("cfacts failed on lib/src/lib.c (config %s): the C runtime does not compile?" % config)
        os.replace(out + ".tmp", out)
    return Facts(out)


def cfacts_file(path, extra_flags=()):
    """Facts of a single stand-alone C file (positive fixtures)."""
    tool = build_cfacts()
    hsh = tree_hash([path], extra=str(os.path.getmtime(tool)))
    out = os.path.join(CACHE, "facts", "fx-%s-%s.json" % (os.path.basename(path), hsh))
    if not os.path.exists(out):
        os.makedirs(os.path.dirname(out), exist_ok=True)
        root = os.path.dirname(path) + "/"
        r = sh([tool, root, out + ".tmp", path, "--", "-std=c11", "-resource-dir", LLVM + "/lib/clang/14.0.6", "-Wno-everything"] + list(extra_flags))
        if r.returncode != 0 or not os.path.exists(out + ".tmp"):
            sys.stderr.write(r.stderr[-2000:])
            raise SystemExit("cfacts failed on fixture %s" % path)
        os.replace(out + ".tmp", out)
    return Facts(out)


# ---------------------------------------------------------------------------------------------
# E2: rsfacts
# ---------------------------------------------------------------------------------------------
RS_PACKAGES = ["tree-sitter", "tree-sitter-generate", "tree-sitter-loader", "tree-sitter-highlight", "tree-sitter-tags", "tree-sitter-cli"]
_rs_cache = {}


def _rs_run():
    sys.path.insert(0, os.path.join(HERE, "rsfacts"))
    import run as rsrun
    return rsrun


def build_rsfacts():
    rsrun = _rs_run()
    if hasattr(rsrun, "build_driver"):
        rsrun.build_driver()


def rsfacts_dir():
    """Directory with one fact file per workspace crate, extracted from REPO's working tree."""
    pre = os.environ.get("VERIF_RS_FACTS_DIR")   # self-test runs whose mutation touches no Rust input
    if pre:
        return pre
    hsh = tree_hash([REPO + "/crates", REPO + "/lib/binding_rust", REPO + "/Cargo.toml", REPO + "/Cargo.lock", REPO + "/lib/Cargo.toml",
                     os.path.join(HERE, "rsfacts", "src")], exts={".rs", ".toml", ".lock", ".inc", ".h", ".json", ".js"},
                    extra=tree_hash([REPO + "/lib/src", REPO + "/lib/include"], exts={".c", ".h"}))
    out = os.path.join(CACHE, "facts", "rs-" + hsh)
    marker = os.path.join(out, ".complete")
    if not os.path.exists(marker):
        base = os.path.join(CACHE, "facts")
        os.makedirs(base, exist_ok=True)
        keep = int(os.environ.get("VERIF_KEEP_RS", "2"))
        olds = sorted((d for d in os.listdir(base) if d.startswith("rs-")), key=lambda d: os.path.getmtime(os.path.join(base, d)))
        import shutil
        for d in olds[:-keep] if len(olds) > keep else []:
            shutil.rmtree(os.path.join(base, d), ignore_errors=True)
        os.makedirs(out, exist_ok=True)
        rsrun = _rs_run()
        target = os.environ.get("VERIF_RS_TARGET", os.path.join(CACHE, "rs-target"))
        try:
            rsrun.extract(REPO, RS_PACKAGES, out, target)
        except Exception as e:  # fail closed
            raise SystemExit("rsfacts failed: %s" % e)
        open(marker, "w").write(time.strftime("%F %T"))
    return out


def rsfacts(crate):
    """Facts of one crate, e.g. 'tree_sitter_loader', 'tree_sitter_cli', 'tree_sitter.bin'."""
    d = rsfacts_dir()
    p = os.path.join(d, crate + ".json")
    if p not in _rs_cache:
        if not os.path.exists(p):
            raise SystemExit("rsfacts: fact file for crate %s missing" % crate)
        _rs_cache[p] = Facts(p)
    return _rs_cache[p]


# ---------------------------------------------------------------------------------------------
# E4: compile-fail witnesses
# ---------------------------------------------------------------------------------------------
def witnesses():
    """Compiles (never runs) the doc-tests of engines/witness against REPO's binding crate with the
    nightly toolchain.  Returns {doctest title: 'ok'|'FAILED'} and the raw output.  Results are
    cached by the content hash of everything the binding crate is built from."""
    import json
    REPO = os.environ.get("VERIF_WITNESS_REPO", globals()["REPO"])   # C-only self-test runs use the real tree's binding
    src = os.path.join(HERE, "witness", "src", "lib.rs")
    hsh = tree_hash([REPO + "/lib/binding_rust", REPO + "/lib/Cargo.toml", src, REPO + "/Cargo.lock"], exts={".rs", ".toml", ".lock"})
    cache = os.path.join(BIN_CACHE if os.environ.get("VERIF_WITNESS_REPO") else CACHE, "witness", hsh + ".json")
    if os.path.exists(cache):
        return json.load(open(cache))
    wdir = os.path.join(CACHE, "witness", "crate")
    os.makedirs(os.path.join(wdir, "src"), exist_ok=True)
    import shutil
    shutil.copy(src, os.path.join(wdir, "src", "lib.rs"))
    with open(os.path.join(wdir, "Cargo.toml"), "w") as f:
        f.write('[package]\nname = "ts-verif-witness"\nversion = "0.0.0"\nedition = "2021"\n\n[lib]\npath = "src/lib.rs"\n\n'
                '[dependencies]\ntree-sitter = { path = "%s/lib" }\n\n[workspace]\n' % REPO)
    shutil.copy(REPO + "/Cargo.lock", os.path.join(wdir, "Cargo.lock"))
    env = dict(os.environ, CARGO_NET_OFFLINE="true", CARGO_TARGET_DIR=os.environ.get("VERIF_WITNESS_TARGET", os.path.join(CACHE, "witness-target")))
    r = subprocess.run(["cargo", "+nightly", "test", "--doc", "--offline"], cwd=wdir, env=env, stdout=subprocess.PIPE, stderr=subprocess.STDOUT, text=True)
    res = {}
    for line in r.stdout.splitlines():
        m = re.match(r"test src/lib.rs - (\S+) \(line (\d+)\)( - compile fail| - compile)? \.\.\. (ok|FAILED)", line)
        if m:
            kind = "compile_fail" if "fail" in (m.group(3) or "") else "twin"
            res["%s:%s" % (m.group(1), kind)] = m.group(4)
    out = {"results": res, "exit": r.returncode, "tail": r.stdout[-3000:]}
    if res:
        os.makedirs(os.path.dirname(cache), exist_ok=True)
        json.dump(out, open(cache, "w"))
    return out
