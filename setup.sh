#!/bin/sh
# Builds the extractors from files on disk only (offline). Idempotent.
set -e
cd "$(dirname "$0")"
export CARGO_NET_OFFLINE=true
python3 - <<'PY'
import sys
sys.path.insert(0, "engines")
import extract
extract.build_cfacts()
print("cfacts built")
if hasattr(extract, "build_rsfacts"):
    extract.build_rsfacts()
    print("rsfacts built")
PY
