"""C01 — incremental re-parse equals from-scratch parse: the *reuse licence* (DESIGN.md §4 C01).

Decides structural necessary conditions only: every way an old subtree or cached token can enter
the new parse is dominated by all the checks the design relies on.
"""
from common import *  # noqa: F401,F403


def accept_retain_return(fn, retained):
    """Points `ts_subtree_retain(<retained>)` — the accept exits of the reuse functions."""
    return [pt for pt, n in find(fn, "ts_subtree_retain(%s)" % retained)]


def rules_c(ctx, F):
    # ---------------- G1: ts_parser__reuse_node --------------------------------------------------
    fn = ctx.need_fn(F, "ts_parser__reuse_node")
    if fn:
        acc = accept_retain_return(fn, "result")
        preds = [
            ("node starts after the parse position → no reuse", "reusable_node_byte_offset(_) > position", False),
            ("node starts before the parse position → no reuse", "reusable_node_byte_offset(_) < position", False),
            ("external scanner state equals the stack's", "ts_subtree_external_scanner_state_eq(self->reusable_node.last_external_token, last_external_token)", True),
            ("node has no pending edit", "ts_subtree_has_changes(result)", False),
            ("node is not an error", "ts_subtree_is_error(result)", False),
            ("node is not missing", "ts_subtree_missing(result)", False),
            ("node is not fragile", "ts_subtree_is_fragile(result)", False),
            ("no included-range difference inside node+lookahead", "ts_parser__has_included_range_difference(self, reusable_node_byte_offset(_), @has(ts_subtree_lookahead_bytes(result)))", False),
            ("first leaf is valid in the current state", "ts_parser__can_reuse_first_leaf(self, *state, result, table_entry)", True),
        ]
        ctx.gate("G1", fn, acc, preds, kill_names=("result",), accept_desc="retain-and-return of the reused node")
        # the table entry tested is the one for the current state and this node's first leaf
        uses = [pt for pt, n in find(fn, "ts_parser__can_reuse_first_leaf(...)")]
        guards = [pt for pt, n in find(fn, "ts_language_table_entry(self->language, *state, ts_subtree_leaf_symbol(result), table_entry)")]
        ctx.before("G1", "ts_parser__reuse_node:table_entry-is-for-current-state", fn, uses, guards,
                   "ts_language_table_entry(language, *state, leaf_symbol(result), table_entry) precedes can_reuse_first_leaf")
        # the value returned after the retain is the retained node
        rets = [pt for pt, n in find(fn, "@lit(result)") if fn.blocks[pt[0]].elems[pt[1]]["e"].get("k") == "ret"]
        nonnull_rets = [pt for pt, e in fn.points() if e.get("k") == "ret" and M(fn).match("@lit(result)", e.get("e") or {})]
        if len(nonnull_rets) != 1:
            ctx.bad("G1", "ts_parser__reuse_node:single-accept-return", "expected exactly one `return result`, found %d" % len(nonnull_rets))
        else:
            ctx.before("G1", "ts_parser__reuse_node:return-is-retained", fn, nonnull_rets, acc, "`return result` is preceded by ts_subtree_retain(result)")

    # ---------------- G2: ts_parser__can_reuse_first_leaf ---------------------------------------
    fn = ctx.need_fn(F, "ts_parser__can_reuse_first_leaf")
    if fn:
        m = M(fn)
        true_rets = [pt for pt, e in fn.points() if e.get("k") == "ret" and m.match("1", e["e"]) and e["e"].get("k") == "int"]
        expr_rets = [pt for pt, e in fn.points() if e.get("k") == "ret" and e["e"].get("k") != "int"]
        ctx.gate("G2", fn, true_rets, [
            ("current state has a lexer (not end of non-terminal extra)", "ts_language_lex_mode_for_state(self->language, state).lex_state == 65535", False),
            ("lookahead has an action in this state", "table_entry->action_count > 0", True),
            ("same lex mode as where the token was created", "memcmp(...) == 0", True),
            ("keyword-capture token: not a keyword", [("ts_subtree_leaf_symbol(tree) != self->language->keyword_capture_token", True), ("ts_subtree_is_keyword(tree)", False)]),
            ("keyword-capture token: same parse state", [("ts_subtree_leaf_symbol(tree) != self->language->keyword_capture_token", True), ("ts_subtree_parse_state(tree) == state", True)]),
        ], accept_desc="`return true`")
        if len(expr_rets) != 1:
            ctx.bad("G2", "ts_parser__can_reuse_first_leaf:final-return", "expected one computed return, found %d" % len(expr_rets))
        else:
            ctx.gate("G2", fn, expr_rets, [
                ("current state has a lexer", "ts_language_lex_mode_for_state(self->language, state).lex_state == 65535", False),
                ("empty non-EOF tokens are not reused across lex modes", [("ts_subtree_size(tree).bytes == 0", False), ("ts_subtree_leaf_symbol(tree) != 0", False)]),
            ], accept_desc="the computed return")
            e = fn.blocks[expr_rets[0][0]].elems[expr_rets[0][1]]["e"]["e"]
            cj = conjuncts(e)
            for label, p in (("no external tokens valid in this state", "ts_language_lex_mode_for_state(self->language, state).external_lex_state == 0"),
                             ("generator marked the entry reusable", "table_entry->is_reusable")):
                if any(m.match(p, c) for c in cj):
                    ctx.ok("G2", "ts_parser__can_reuse_first_leaf:conjunct:" + label, "final return is a conjunction containing `%s`" % p,
                           sample={"function": fn.name, "return": show(e), "conjunct": p})
                else:
                    ctx.bad("G2", "ts_parser__can_reuse_first_leaf:conjunct:" + label, "final return `%s` lacks conjunct `%s`" % (show(e), p),
                            {"function": fn.name, "site": fn.loc(expr_rets[0])})

    # ---------------- G3: ts_parser__get_cached_token -------------------------------------------
    fn = ctx.need_fn(F, "ts_parser__get_cached_token")
    if fn:
        acc = accept_retain_return(fn, "_")
        ctx.gate("G3", fn, acc, [
            ("a token is cached", "(&self->token_cache)->token.ptr", True),
            ("cached at exactly this position", "(&self->token_cache)->byte_index == position", True),
            ("same external scanner state", "ts_subtree_external_scanner_state_eq((&self->token_cache)->last_external_token, last_external_token)", True),
            ("first-leaf check passes", "ts_parser__can_reuse_first_leaf(self, state, (&self->token_cache)->token, table_entry)", True),
        ], accept_desc="retain-and-return of the cached token")
        uses = [pt for pt, n in find(fn, "ts_parser__can_reuse_first_leaf(...)")]
        guards = [pt for pt, n in find(fn, "ts_language_table_entry(self->language, state, ts_subtree_symbol((&self->token_cache)->token), table_entry)")]
        ctx.before("G3", "ts_parser__get_cached_token:table_entry-is-for-current-state", fn, uses, guards,
                   "ts_language_table_entry(language, state, symbol(cache->token), table_entry) precedes can_reuse_first_leaf")


def run(ctx):
    for cfg in configs(ctx):
        ctx.config = cfg
        F = ctx.extract.cfacts(cfg)
        ctx.analysed["c_functions_" + cfg] = len(F.fn_list)
        rules_c(ctx, F)
    import rsrules
    rsrules.c01_rust(ctx)
    return ctx.finish(
        "Static gate/pairing rules over Clang CFGs of lib/src (unity TU, build.rs flags): decides that every path on which an old "
        "subtree or cached token is accepted for reuse passes all listed checks with the required outcome. Does not decide tree equality.")
