"""C01 — incremental re-parse equals from-scratch parse: the *reuse licence* (DESIGN.md §4 C01).

Decides structural necessary conditions only: every way an old subtree or cached token can enter
the new parse is dominated by all the checks the design relies on.
"""
import re
from common import *  # noqa: F401,F403


def accept_retain_return(fn, retained):
    """Points `ts_subtree_retain(<retained>)` — the accept exits of the reuse functions."""
    return [pt for pt, n in find(fn, "ts_subtree_retain(%s)" % retained)]


def rules_c(ctx, F):
    # ---------------- G1: ts_parser__reuse_node --------------------------------------------------
    fn = ctx.need_fn(F, "ts_parser__reuse_node")
    if fn:
        acc = accept_retain_return(fn, "result")
        preds = [
            ("node starts after the parse position → no reuse", "reusable_node_byte_offset(_) > position", False),
            ("node starts before the parse position → no reuse", "reusable_node_byte_offset(_) < position", False),
            ("external scanner state equals the stack's", "ts_subtree_external_scanner_state_eq(self->reusable_node.last_external_token, last_external_token)", True),
            ("node has no pending edit", "ts_subtree_has_changes(result)", False),
            ("node is not an error", "ts_subtree_is_error(result)", False),
            ("node is not missing", "ts_subtree_missing(result)", False),
            ("node is not fragile", "ts_subtree_is_fragile(result)", False),
            ("no included-range difference inside node+lookahead", "ts_parser__has_included_range_difference(self, reusable_node_byte_offset(_), @or(@has(ts_subtree_lookahead_bytes(result)), @has(ts_parser__lookahead_end_byte(self, result, _))))", False),
            ("first leaf is valid in the current state", "ts_parser__can_reuse_first_leaf(self, *state, result, table_entry)", True),
        ]
        ctx.gate("G1", fn, acc, preds, kill_names=("result",), accept_desc="retain-and-return of the reused node")
        # the table entry tested is the one for the current state and this node's first leaf
        uses = [pt for pt, n in find(fn, "ts_parser__can_reuse_first_leaf(...)")]
        guards = [pt for pt, n in find(fn, "ts_language_table_entry(self->language, *state, ts_subtree_leaf_symbol(result), table_entry)")]
        ctx.before("G1", "ts_parser__reuse_node:table_entry-is-for-current-state", fn, uses, guards,
                   "ts_language_table_entry(language, *state, leaf_symbol(result), table_entry) precedes can_reuse_first_leaf")
        # the value returned after the retain is the retained node
        rets = [pt for pt, n in find(fn, "@lit(result)") if fn.blocks[pt[0]].elems[pt[1]]["e"].get("k") == "ret"]
        nonnull_rets = [pt for pt, e in fn.points() if e.get("k") == "ret" and M(fn).match("@lit(result)", e.get("e") or {})]
        if len(nonnull_rets) != 1:
            ctx.bad("G1", "ts_parser__reuse_node:single-accept-return", "expected exactly one `return result`, found %d" % len(nonnull_rets))
        else:
            ctx.before("G1", "ts_parser__reuse_node:return-is-retained", fn, nonnull_rets, acc, "`return result` is preceded by ts_subtree_retain(result)")

    # ---------------- G2: ts_parser__can_reuse_first_leaf ---------------------------------------
    fn = ctx.need_fn(F, "ts_parser__can_reuse_first_leaf")
    if fn:
        m = M(fn)
        true_rets = [pt for pt, e in fn.points() if e.get("k") == "ret" and m.match("1", e["e"]) and e["e"].get("k") == "int"]
        expr_rets = [pt for pt, e in fn.points() if e.get("k") == "ret" and e["e"].get("k") != "int"]
        ctx.gate("G2", fn, true_rets, [
            ("current state has a lexer (not end of non-terminal extra)", "ts_language_lex_mode_for_state(self->language, state).lex_state == 65535", False),
            ("lookahead has an action in this state", "table_entry->action_count > 0", True),
            ("same lex mode as where the token was created", "memcmp(...) == 0", True),
            ("keyword-capture token: not a keyword", [("ts_subtree_leaf_symbol(tree) != self->language->keyword_capture_token", True), ("ts_subtree_is_keyword(tree)", False)]),
            ("keyword-capture token: same parse state", [("ts_subtree_leaf_symbol(tree) != self->language->keyword_capture_token", True), ("ts_subtree_parse_state(tree) == state", True)]),
        ], accept_desc="`return true`")
        if len(expr_rets) != 1:
            ctx.bad("G2", "ts_parser__can_reuse_first_leaf:final-return", "expected one computed return, found %d" % len(expr_rets))
        else:
            ctx.gate("G2", fn, expr_rets, [
                ("current state has a lexer", "ts_language_lex_mode_for_state(self->language, state).lex_state == 65535", False),
                ("empty non-EOF tokens are not reused across lex modes", [("ts_subtree_size(tree).bytes == 0", False), ("ts_subtree_leaf_symbol(tree) != 0", False)]),
            ], accept_desc="the computed return")
            e = fn.blocks[expr_rets[0][0]].elems[expr_rets[0][1]]["e"]["e"]
            cj = conjuncts(e)
            for label, p in (("no external tokens valid in this state", "ts_language_lex_mode_for_state(self->language, state).external_lex_state == 0"),
                             ("generator marked the entry reusable", "table_entry->is_reusable")):
                if any(m.match(p, c) for c in cj):
                    ctx.ok("G2", "ts_parser__can_reuse_first_leaf:conjunct:" + label, "final return is a conjunction containing `%s`" % p,
                           sample={"function": fn.name, "return": show(e), "conjunct": p})
                else:
                    ctx.bad("G2", "ts_parser__can_reuse_first_leaf:conjunct:" + label, "final return `%s` lacks conjunct `%s`" % (show(e), p),
                            {"function": fn.name, "site": fn.loc(expr_rets[0])})

    # ---------------- G3: ts_parser__get_cached_token -------------------------------------------
    fn = ctx.need_fn(F, "ts_parser__get_cached_token")
    if fn:
        acc = accept_retain_return(fn, "_")
        ctx.gate("G3", fn, acc, [
            ("a token is cached", "(&self->token_cache)->token.ptr", True),
            ("cached at exactly this position", "(&self->token_cache)->byte_index == position", True),
            ("same external scanner state", "ts_subtree_external_scanner_state_eq((&self->token_cache)->last_external_token, last_external_token)", True),
            ("first-leaf check passes", "ts_parser__can_reuse_first_leaf(self, state, (&self->token_cache)->token, table_entry)", True),
        ], accept_desc="retain-and-return of the cached token")
        uses = [pt for pt, n in find(fn, "ts_parser__can_reuse_first_leaf(...)")]
        guards = [pt for pt, n in find(fn, "ts_language_table_entry(self->language, state, ts_subtree_symbol((&self->token_cache)->token), table_entry)")]
        ctx.before("G3", "ts_parser__get_cached_token:table_entry-is-for-current-state", fn, uses, guards,
                   "ts_language_table_entry(language, state, symbol(cache->token), table_entry) precedes can_reuse_first_leaf")


def rules_pairing(ctx, F):
    from cstores import stores, writes_record, heap_store
    # ---------------- P1: an invalid reuse is undone -------------------------------------------
    fn = ctx.need_fn(F, "ts_parser__advance")
    if fn:
        shift = [pt for pt, n in find(fn, "ts_parser__shift(self, version, _, lookahead, _)")]
        recover = [pt for pt, n in find(fn, "ts_parser__recover(self, version, lookahead)")]
        bl = [pt for pt, n in find(fn, "ts_parser__breakdown_lookahead(self, &lookahead, _, &self->reusable_node)")]
        ctx.floor("breakdown_lookahead calls in ts_parser__advance", len(bl), 2)
        ctx.gate("P1", fn, shift, [("a reused subtree with children is broken down to the current state before it is shifted",
                                    [("ts_subtree_child_count(lookahead) > 0", False), ("ts_parser__breakdown_lookahead(self, &lookahead, state, &self->reusable_node)", "stmt")])],
                 accept_desc="shifting the lookahead")
        # in the Recover arm the recover call that follows a possible breakdown
        dom = dominators(fn)
        arm = [e.to for b in fn.blocks.values() for e in b.succs if isinstance(e.lab, dict) and e.lab.get("name") == "TSParseActionTypeRecover"]
        rec_arm = [p for p in recover if arm and arm[0] in dom.get(p[0], set())]
        ctx.gate("P1", fn, rec_arm[-1:], [("a reused subtree with children is broken down before error recovery consumes it",
                                            [("ts_subtree_child_count(lookahead) > 0", False), ("ts_parser__breakdown_lookahead(self, &lookahead, 0, &self->reusable_node)", "stmt")])],
                 accept_desc="recovering with the lookahead")
        pause = [pt for pt, n in find(fn, "ts_stack_pause(self->stack, version, lookahead)")]
        bts = [pt for pt, n in find(fn, "ts_parser__breakdown_top_of_stack(self, version)")]
        ctx.before("P1", "ts_parser__advance:breakdown-before-declaring-error", fn, pause, bts,
                   "before a version is paused as erroneous, the reused subtree on top of the stack is broken down and the lookahead retried")
        ctx.gate("P1", fn, pause, [("…and only when nothing was left to break down", "ts_parser__breakdown_top_of_stack(self, version)", False)], accept_desc="pausing the version")
        adv = [pt for pt, n in find(fn, "reusable_node_advance(&self->reusable_node)")]
        ctx.gate("P1", fn, adv, [("the old-tree walk advances only past a node that was actually reused", "did_reuse", True)], accept_desc="advancing the reusable node")
    # ---------------- P2: look-ahead accounting in ts_parser__lex ------------------------------
    fn = ctx.need_fn(F, "ts_parser__lex")
    if fn:
        scans = [pt for pt, n in find(fn, "ts_parser__external_scanner_scan(self, _)")] + [pt for pt, n in find(fn, "ts_parser__call_main_lex_fn(self, _)")]
        fin = [pt for pt, n in find(fn, "ts_lexer_finish(&self->lexer, &lookahead_end_byte)")]
        stops = [pt for pt, n in find(fn, "ts_lexer_reset(&self->lexer, _)")] + [pt for pt, n in find(fn, "ts_lexer_start(&self->lexer)")]
        abort = [pt for pt, e in fn.points() if e.get("k") == "ret" and strip(e["e"]).get("k") == "init"]
        ctx.floor("scan calls in ts_parser__lex", len(scans), 2)
        ctx.after("P2", "ts_parser__lex:finish-after-every-scan", fn, scans, fin,
                  "every scan is followed by ts_lexer_finish(&lexer, &lookahead_end_byte) before the lexer is repositioned (only the scanner-error abort is exempt)",
                  stop_pts=stops, exempt_pts=abort)
        fc = [n for pt, n in find(fn, "ts_lexer_finish(&self->lexer, &_)")]
        leb = strip(strip(fc[0]["a"][1])["e"])["name"] if fc and strip(fc[0]["a"][1]).get("k") == "un" and strip(strip(fc[0]["a"][1])["e"]).get("k") == "ref" else "lookahead_end_byte"
        n_la = 0
        for pt, e in fn.points():
            if e.get("k") == "decl" and M(fn).match("%s - _" % leb, e.get("init") or {}) or (e.get("k") == "decl" and e["name"] == "lookahead_bytes"):
                n_la += 1
                if any(x.get("k") == "ref" and x["name"] == leb for x in walk(e.get("init") or {})):
                    ctx.ok("P2", "ts_parser__lex:lookahead_bytes#%d" % n_la, "lookahead_bytes at %s is computed from lookahead_end_byte" % fn.loc(pt))
                else:
                    ctx.bad("P2", "ts_parser__lex:lookahead_bytes#%d" % n_la, "lookahead_bytes at %s does not depend on lookahead_end_byte: bytes the lexer examined are not accounted for" % fn.loc(pt))
        ctx.floor("lookahead_bytes computations", n_la, 2)
        for ctor in ("ts_subtree_new_error", "ts_subtree_new_leaf"):
            c = [n for pt, n in find(fn, ctor + "(...)")]
            if c and any(M(fn).match("@deref(%s - _)" % leb, a) for a in c[0]["a"]):
                ctx.ok("P2", "ts_parser__lex:%s-gets-lookahead_bytes" % ctor, "%s receives lookahead_bytes" % ctor)
            else:
                ctx.bad("P2", "ts_parser__lex:%s-gets-lookahead_bytes" % ctor, "%s in ts_parser__lex is no longer given lookahead_bytes" % ctor)
        rets = [pt for pt, e in fn.points() if e.get("k") == "ret" and strip(e["e"]).get("k") == "ref"]
        ctx.gate("P2", fn, rets, [("an external token carries the scanner state it was produced with",
                                   [("found_external_token", False), ("skipped_error", True), ("ts_external_scanner_state_init(&_->external_scanner_state, self->lexer.debug_buffer, external_scanner_state_len)", "stmt")])],
                 accept_desc="returning the token")
        ctx.gate("P2", fn, rets, [("…and whether that state changed",
                                   [("found_external_token", False), ("skipped_error", True), ("_->has_external_scanner_state_change = external_scanner_state_changed", "stmt")])],
                 accept_desc="returning the token")
    # ---------------- P4: summaries the reuse checks read --------------------------------------
    fn = ctx.need_fn(F, "ts_subtree_summarize_children")
    if fn:
        table = [
            ("lookahead_bytes", "self.ptr->lookahead_bytes = _", "ts_subtree_lookahead_bytes(child)"),
            ("has_external_tokens", "self.ptr->has_external_tokens = 1", None),
            ("depends_on_column", "self.ptr->depends_on_column = 1", None),
        ]
        st = find(fn, "self.ptr->lookahead_bytes = _")
        bind(fn, "child_lookahead_end_byte", "_ + _ + ts_subtree_lookahead_bytes(_)")
        le = fn.ids_named("child_lookahead_end_byte")
        d = fn.single_def(le[0]) if le else None
        if st and d is not None and any(x.get("k") == "call" and x.get("fn") == "ts_subtree_lookahead_bytes" for x in walk(d)):
            ctx.ok("P4", "summarize:lookahead_bytes", "a parent's look-ahead covers the furthest look-ahead of any child")
        else:
            ctx.bad("P4", "summarize:lookahead_bytes", "ts_subtree_summarize_children no longer derives lookahead_bytes from the children's look-ahead")
        for label, stmt, test in (("has_external_tokens", "self.ptr->has_external_tokens = 1", "ts_subtree_has_external_tokens(child)"),
                                  ("depends_on_column", "self.ptr->depends_on_column = 1", "ts_subtree_depends_on_column(child)"),
                                  ("has_external_scanner_state_change", "self.ptr->has_external_scanner_state_change = 1", "ts_subtree_has_external_scanner_state_change(child)")):
            pts = [pt for pt, n in find(fn, stmt)]
            ctx.gate("P4", fn, pts, [("%s is inherited from a child" % label, test, True)], accept_desc="setting " + label)
        err = [pt for pt, n in find(fn, "self.ptr->parse_state = 65535")]
        ctx.gate("P4", fn, err, [("a parent of an error child gets no parse state (never reused as a unit by state)", "ts_subtree_is_error(child)", True)], accept_desc="clearing parse_state")
        frag = [pt for pt, n in find(fn, "self.ptr->fragile_left = _")]
        ctx.floor("fragile_left stores in the summariser", len(frag), 2)
    fn = ctx.need_fn(F, "ts_parser__reduce")
    if fn:
        fl = [pt for pt, n in find(fn, "_.ptr->fragile_left = 1")]
        ps = [pt for pt, n in find(fn, "_.ptr->parse_state = 65535")]
        ctx.floor("fragile marking in ts_parser__reduce", len(fl), 1)
        ctx.gate("P4", fn, fl + ps, [("nodes built under ambiguity are fragile and stateless",
                                      [("is_fragile", True), ("pop.size > 1", True), ("initial_version_count > 1", True)])], accept_desc="marking the new parent fragile")

        class FragMon(Monitor):
            def elem(self, m, pt, e, s):
                if pt in fl:
                    return False
                return m

            def edge(self, m, bid, edge, cond, truth, s):
                if cond is not None and truth is not None:
                    for p in ("is_fragile", "pop.size > 1", "initial_version_count > 1"):
                        if s.m.cond_matches(p, True, cond, truth):
                            return True
                return m
        push = [pt for pt, n in find(fn, "ts_stack_push(self->stack, slice_version, ts_subtree_from_mut(parent), 0, next_state)")]

        class FragMon2(FragMon):
            def elem(self, m, pt, e, s):
                if pt in push and m:
                    return Viol("a parent built under ambiguity is pushed without being marked fragile", pt)
                return FragMon.elem(self, m, pt, e, s)
        for cnd, why in (("is_fragile", "the reduction was one of several actions"), ("pop.size > 1", "several stack paths were popped"), ("initial_version_count > 1", "several stack versions exist")):
            ctx.gate("P4", fn, push, [("parent left non-fragile only when not (%s)" % why, [(cnd, False), ("_.ptr->fragile_left = 1", "stmt")])], accept_desc="pushing the reduced parent")
        if push:
            s = Search(fn, FragMon2())
            v = s.run(False)
            if v is None:
                ctx.ok("P4", "ts_parser__reduce:ambiguity-implies-fragile", "whenever is_fragile || pop.size > 1 || initial_version_count > 1 holds, the new parent is marked fragile before it is pushed (%d states)" % s.states)
            else:
                ctx.bad("P4", "ts_parser__reduce:ambiguity-implies-fragile", "ts_parser__reduce: %s" % v.msg, {"path": s.render_path(v.path)[-8:]})
        else:
            ctx.bad("P4", "ts_parser__reduce:push-anchor", "push of the reduced parent not found")


def rules_gate_state(ctx, F):
    """P5: the state the reuse gates *read* is maintained wherever the walk / the stack moves."""
    fn = ctx.need_fn(F, "reusable_node_advance")
    if fn:
        st = [pt for pt, n in find(fn, "self->last_external_token = ts_subtree_last_external_token(_.tree)")]
        ctx.established_at_exit("P5", "reusable_node_advance:tracks-external-token", fn, st, [("ts_subtree_has_external_tokens(_.tree)", False)],
                                "leaving a subtree that contains external tokens records its last external token")
        ids = fn.ids_named("byte_offset")
        d = fn.single_def(ids[0]) if ids else None
        ok = d is not None and M(fn).match("_.byte_offset + ts_subtree_total_bytes(_.tree)", d)
        pushes = [n for pt, e in fn.points() for n in own_walk(e) if n.get("k") == "init" and n.get("t") == "StackEntry"]
        ok2 = any(f["f"] == "byte_offset" and strip(f["e"]).get("k") == "ref" and strip(f["e"])["name"] == fn.cur("byte_offset") for n in pushes for f in n["fields"])
        if ok and ok2:
            ctx.ok("P5", "reusable_node_advance:offset-accumulates", "the next node's byte offset is the left node's offset plus its total size")
        else:
            ctx.bad("P5", "reusable_node_advance:offset-accumulates", "reusable_node_advance no longer computes the next node's offset as offset + total_bytes of the node left behind")
    fn = ctx.need_fn(F, "reusable_node_descend")
    if fn:
        pushes = [n for pt, e in fn.points() for n in own_walk(e) if n.get("k") == "init" and n.get("t") == "StackEntry"]
        m = M(fn)
        ok = any(any(f["f"] == "byte_offset" and m.match("_.byte_offset", f["e"]) for f in n["fields"]) and
                 any(f["f"] == "child_index" and strip(f["e"]).get("v") == 0 for f in n["fields"]) for n in pushes)
        if ok:
            ctx.ok("P5", "reusable_node_descend:first-child-same-offset", "descending enters child 0 at the parent's byte offset")
        else:
            ctx.bad("P5", "reusable_node_descend:first-child-same-offset", "reusable_node_descend no longer enters child 0 at the parent's byte offset")
    fn = ctx.need_fn(F, "reusable_node_reset")
    if fn:
        clr = [pt for pt, n in find(fn, "reusable_node_clear(self)")]
        desc = [pt for pt, n in find(fn, "reusable_node_descend(self)")]
        ctx.on_all_paths("P5", "reusable_node_reset:never-the-root", fn, desc, "the walk starts below the old root (the root itself is never reused)")
        ctx.before("P5", "reusable_node_reset:clears-first", fn, desc, clr, "state of a previous walk (incl. last_external_token) is cleared first")
    fn = ctx.need_fn(F, "ts_parser__shift")
    if fn:
        st = [pt for pt, n in find(fn, "ts_stack_set_last_external_token(self->stack, version, ts_subtree_last_external_token(_))")]
        ctx.established_at_exit("P5", "ts_parser__shift:stack-tracks-external-token", fn, st, [("ts_subtree_has_external_tokens(_)", False)],
                                "shifting a subtree that contains external tokens records its last external token on the stack version")
    fn = ctx.need_fn(F, "ts_parser__advance")
    if fn:
        c = find(fn, "ts_parser__set_cached_token(self, position, last_external_token, lookahead)")
        if c:
            ctx.ok("P5", "ts_parser__advance:token-cache-keyed", "a lexed token is cached with the position and external-scanner context it was lexed in")
        else:
            ctx.bad("P5", "ts_parser__advance:token-cache-keyed", "the token cache is no longer filled with (position, last_external_token, lookahead)")
    fn = ctx.need_fn(F, "ts_parser__set_cached_token")
    if fn:
        for f, v in (("token", "token"), ("byte_index", "byte_index"), ("last_external_token", "last_external_token")):
            if find(fn, "(&self->token_cache)->%s = %s" % (f, v)):
                ctx.ok("P5", "set_cached_token:%s" % f, "cache.%s is stored" % f, nontrivial=False)
            else:
                ctx.bad("P5", "set_cached_token:%s" % f, "ts_parser__set_cached_token no longer stores %s" % f)


SENTINELS = (4294967295,)


def pure_fn(F, name, depth=0, _memo={}):
    """No stores except to its own locals and only calls to pure functions (getters)."""
    key = (id(F), name)
    if key in _memo:
        return _memo[key]
    fn = F.fns.get(name)
    ok = fn is not None and depth < 4
    if ok:
        _memo[key] = True     # recursion guard
        for pt, e in fn.points():
            for n in walk(e):
                k = n.get("k")
                if k == "assign" and strip(n["l"]).get("k") != "ref":
                    ok = False
                elif k in ("inc", "dec", "pre", "post") and strip(n.get("e") or {}).get("k") != "ref":
                    ok = False
                elif k == "call" and not pure_fn(F, callee_name(n) or "", depth + 1):
                    ok = False
    _memo[key] = ok
    return ok


def addend_params(F, g, _memo={}):
    """indices of g's parameters that are an operand of `+` / `+=` somewhere in g (flow-insensitive)"""
    key = (id(F), g.name)
    if key not in _memo:
        ids = {p["id"]: i for i, p in enumerate(g.params)}
        out = set()
        for pt, e in g.points():
            for n in walk(e):
                if n.get("k") == "bin" and n.get("op") == "+":
                    for side in ("l", "r"):
                        o = strip(n[side])
                        if o.get("k") == "ref" and o.get("id") in ids:
                            out.add(ids[o["id"]])
                if n.get("k") == "assign" and n.get("op") == "+=" and strip(n["l"]).get("k") == "ref" and strip(n["l"]).get("id") in ids:
                    out.add(ids[strip(n["l"])["id"]])
        _memo[key] = out
    return _memo[key]


class SaturationMonitor(Monitor):
    """A local that was set to the saturating sentinel (UINT32_MAX) on this path must not be an
    operand of an addition: it wraps to a small number and every `<`-style range test built on the
    sum silently passes.  Likewise a value computed from the local *before* it was saturated must not
    be used afterwards (it still describes the unsaturated extent).  Paths are pruned with the
    outcomes of pure conditions tested earlier.
    state = (saturated ids, facts, derived pairs (D, X), stale ids)"""

    def __init__(self, fn, F):
        self.fn, self.F = fn, F

    def _pure(self, cond):
        for n in walk(cond):
            if n.get("k") == "call" and not pure_fn(self.F, callee_name(n) or ""):
                return False
            if n.get("k") in ("assign", "inc", "dec"):
                return False
        return True

    def elem(self, m, pt, e, s):
        sat, facts, derived, stale = m
        # uses
        targets = set()
        for n in own_walk(e):
            if n.get("k") == "assign" and strip(n["l"]).get("k") == "ref":
                targets.add(id(strip(n["l"])))
        for n in own_walk(e):
            if n.get("k") == "ref" and n.get("id") in stale and id(n) not in targets:
                src = [x for d, x in derived if d == n.get("id")]
                return Viol("`%s` was computed before `%s` was saturated to UINT32_MAX on this path and is used afterwards: it still describes the unsaturated extent" % (
                    n.get("name"), self.fn._names.get(src[0], "?") if src and hasattr(self.fn, "_names") else "its source"), pt)
            if n.get("k") == "bin" and n.get("op") in ("+",):
                for side in ("l", "r"):
                    o = strip(n[side])
                    if o.get("k") == "ref" and o.get("id") in sat:
                        other = strip(n["r" if side == "l" else "l"])
                        if not (other.get("k") == "int" and not other.get("v")):
                            return Viol("`%s` holds the saturating sentinel UINT32_MAX on this path and is added to `%s`: the sum wraps around" % (o["name"], show(other)[:50]), pt)
        for n in own_walk(e):
            # a saturated local handed to a local function that adds to the corresponding parameter
            if n.get("k") == "call" and sat:
                g = self.F.fns.get(callee_name(n) or "")
                if g is not None:
                    for ai, a in enumerate(n.get("a", [])):
                        a = strip(a)
                        if a.get("k") == "ref" and a.get("id") in sat and ai in addend_params(self.F, g):
                            return Viol("`%s` holds the saturating sentinel UINT32_MAX on this path and is passed to %s, which adds to that parameter: the sum wraps around" % (a["name"], g.name), pt)
        for n in own_walk(e):
            if n.get("k") == "assign" and n.get("op") == "+=" and strip(n["l"]).get("k") == "ref" and strip(n["l"]).get("id") in sat:
                return Viol("`%s` holds the saturating sentinel UINT32_MAX on this path and is incremented by `%s`: it wraps around" % (strip(n["l"])["name"], show(n["r"])[:50]), pt)
        for n in own_walk(e):
            tgt = val = None
            if n.get("k") == "assign" and strip(n["l"]).get("k") == "ref":
                tgt, val = strip(n["l"]), strip(n["r"])
                if n.get("op") not in (None, "="):
                    val = {}
            elif n.get("k") == "decl" and n is e:
                tgt, val = {"id": n.get("id"), "name": n.get("name")}, strip(n.get("init") or {})
            if tgt is not None and tgt.get("id") is not None:
                tid = tgt["id"]
                if val.get("k") == "int" and val.get("v") in SENTINELS:
                    sat = sat | {tid}
                    stale = stale | frozenset(d for d, x in derived if x == tid)
                else:
                    sat = sat - {tid}
                # the target is (re)computed now: it is fresh, and derived from whatever its value mentions
                stale = stale - {tid}
                derived = frozenset((d, x) for d, x in derived if d != tid)
                srcs = {y.get("id") for y in walk(val) if y.get("k") == "ref" and y.get("dk") in ("local", "param") and y.get("id") != tid} if val else set()
                derived = derived | frozenset((tid, x) for x in srcs if x in self.watch)
                nm = tgt.get("name") or ""
                facts = frozenset(f for f in facts if not re.search(r"\b%s\b" % re.escape(nm), f[0]))
        return (sat, facts, derived, stale)

    def edge(self, m, bid, edge, cond, truth, s):
        if cond is None or truth is None:
            return m
        sat, facts, derived, stale = m
        c = strip(cond)
        while c.get("k") == "un" and c.get("op") == "!":
            c, truth = strip(c["e"]), not truth
        txt = show(c)
        if (txt, not truth) in facts:
            return PRUNE
        if self._pure(c):
            facts = facts | {(txt, truth)}
        return (sat, facts, derived, stale)


def rule_saturation(ctx, F):
    n = 0
    for fn in F.fn_list:
        if not fn.file.startswith("lib/src"):
            continue
        has = False
        for pt, e in fn.points():
            for x in own_walk(e):
                if x.get("k") == "assign" and strip(x["l"]).get("k") == "ref" and strip(x["r"]).get("k") == "int" and strip(x["r"]).get("v") in SENTINELS:
                    has = True
                elif x.get("k") == "decl" and x is e and strip(x.get("init") or {}).get("k") == "int" and strip(x["init"]).get("v") in SENTINELS:
                    has = True
        if not has:
            continue
        n += 1
        mon = SaturationMonitor(fn, F)
        # only values derived from a local that *can* be saturated are tracked
        mon.watch = set()
        for pt, e in fn.points():
            for x in own_walk(e):
                if x.get("k") == "assign" and strip(x["l"]).get("k") == "ref" and strip(x["r"]).get("k") == "int" and strip(x["r"]).get("v") in SENTINELS:
                    mon.watch.add(strip(x["l"])["id"])
        fn.defs(0)
        srch = Search(fn, mon, budget=2000000)
        v = srch.run((frozenset(), frozenset(), frozenset(), frozenset()))
        key = "%s:saturated-local-not-added" % fn.name
        if v is None:
            ctx.ok("P6", key, "no path adds to a local while it holds UINT32_MAX, or uses a value computed from it before the saturation (%d states)" % srch.states, sample={"function": fn.name})
        else:
            ctx.bad("P6", key, "%s: %s (%s)" % (fn.name, v.msg, fn.loc(v.pt)), {"site": fn.loc(v.pt), "path": srch.render_path(v.path)[-6:]})
    ctx.floor("functions with a local saturated to UINT32_MAX", n, 5)


def rule_pending(ctx, F):
    """P8: how a reused subtree on the stack is found again for break-down.  Walking down the stack,
    extras are transparent: only a non-extra subtree counts, and only a non-extra, non-pending one (or a
    link without subtree) ends the "still pending" state; the pop happens exactly for a counted pending
    subtree."""
    fn = ctx.need_fn(F, "stack__iter", "P8")
    if fn:
        clr = [pt for pt, n in find(fn, "next_iterator->is_pending = 0")]
        cnt = [pt for pt in __import__("C06").incs(fn, "next_iterator->subtree_count")]
        ctx.floor("stores clearing is_pending in stack__iter", len(clr), 2)
        ctx.gate("P8", fn, clr, [("`pending` ends only at a non-extra subtree (extras on top of a reused node are transparent)", [("ts_subtree_extra(link.subtree)", False), ("link.subtree.ptr", False)]),
                                 ("…that is not itself pending", [("link.is_pending", False), ("link.subtree.ptr", False)])], accept_desc="ending the pending state")
        ctx.gate("P8", fn, cnt, [("only non-extra subtrees are counted", [("ts_subtree_extra(link.subtree)", False), ("link.subtree.ptr", False)])], accept_desc="counting a subtree")
    fn = ctx.need_fn(F, "pop_pending_callback", "P8")
    if fn:
        pops = [pt for pt, e in fn.points() if e.get("k") == "ret" and strip(e["e"]).get("k") in ("bin", "int") and "StackActionPop" in show(e["e"])]
        if not pops:
            pops = [pt for pt, e in fn.points() if e.get("k") == "ret" and strip(e["e"]).get("k") == "int" and strip(e["e"]).get("v") == 3]
        ctx.floor("`pop` verdicts of pop_pending_callback", len(pops), 1)
        ctx.gate("P8", fn, pops, [("a pop happens only for a pending entry", "iterator->is_pending", True), ("…once one subtree was counted", "iterator->subtree_count >= 1", True)], accept_desc="popping the pending subtree")


def rule_fragile_state(ctx, F):
    """P10: a node built under ambiguity is fragile *and* carries no parse state.  In ts_parser__reduce the
    real state is recorded only for a node reduced unambiguously by a single version; the fragile branch
    stores TS_TREE_STATE_NONE.  (Reuse tests the fragile flags; change detection tests the state.)"""
    fn = ctx.need_fn(F, "ts_parser__reduce", "P10")
    if not fn:
        return
    real = [pt for pt, n in find(fn, "parent.ptr->parse_state = state")]
    none = [pt for pt, n in find(fn, "parent.ptr->parse_state = 65535")] + [pt for pt, n in find(fn, "parent.ptr->parse_state = TS_TREE_STATE_NONE")]
    frag = [pt for pt, n in find(fn, "parent.ptr->fragile_left = 1")]
    if not real or not none or not frag:
        ctx.bad("P10", "ts_parser__reduce:state-and-fragility", "ts_parser__reduce no longer has the three stores (real parse state / TS_TREE_STATE_NONE / fragile flags): found %d/%d/%d" % (len(real), len(none), len(frag)))
        return
    ctx.gate("P10", fn, real, [("the real parse state is recorded only for a non-fragile reduction", "is_fragile", False),
                               ("…popped from a single path", "pop.size > 1", False),
                               ("…while a single version existed", "initial_version_count > 1", False)], accept_desc="recording the parse state")
    ctx.after("P10", "ts_parser__reduce:fragile-node-has-no-state", fn, frag, none, "a node marked fragile gets TS_TREE_STATE_NONE", stop_pts=[pt for pt, n in find(fn, "parent.ptr->dynamic_precedence += dynamic_precedence")])


def rule_window_start(ctx, F):
    """P12: the range-difference veto looks at everything a reused node would cover — from where the node's *padding*
    begins.  With included ranges the padding of a node spans the excluded gap before it; text that a new range includes
    inside that gap must veto the reuse.  The first position handed to ts_parser__has_included_range_difference is the
    byte offset of the reusable node itself (reusable_node_byte_offset), with nothing added."""
    fn = ctx.need_fn(F, "ts_parser__reuse_node", "P12")
    if not fn:
        return
    calls = [(pt, c) for pt, c in fn.calls() if callee_name(c) == "ts_parser__has_included_range_difference"]
    key = "reuse_node:veto-window-starts-at-the-padding"
    if not calls:
        ctx.bad("P12", key, "ts_parser__reuse_node no longer consults ts_parser__has_included_range_difference")
        return
    for pt, c in calls:
        a = strip(c["a"][1]) if len(c.get("a", [])) > 1 else {}
        ok = False
        if a.get("k") == "ref":
            d = fn.single_def(a["id"])
            ok = d is not None and M(fn).match("reusable_node_byte_offset(&self->reusable_node)", d)
        elif a.get("k") == "call":
            ok = M(fn).match("reusable_node_byte_offset(&self->reusable_node)", a)
        if ok:
            ctx.ok("P12", key, "the veto window starts at reusable_node_byte_offset(&self->reusable_node)", sample={"site": fn.loc(pt)})
        else:
            ctx.bad("P12", key, "the veto window passed at %s starts at `%s`, not at the reusable node's own offset: text newly included inside the node's padding (the excluded gap before it) does not veto "
                    "the reuse, and the re-parse skips it" % (fn.loc(pt), show(a)[:60]), {"site": fn.loc(pt)})


def rule_column_consulted(ctx, F):
    """P13: a token depends on the column whenever the scanner looked at it — also when the scanner then declined.
    The external scanner may call get_column() and return false because of what it saw; the token the internal lexer
    produces instead exists only because of that answer.  ts_lexer_start clears the lexer's did_get_column flag, so after
    every external scan the flag is read (and remembered) before the lexer is started again."""
    fn = ctx.need_fn(F, "ts_parser__lex", "P13")
    if not fn:
        return
    scan = [pt for pt, c in fn.calls() if callee_name(c) == "ts_parser__external_scanner_scan"]
    start = [pt for pt, c in fn.calls() if callee_name(c) == "ts_lexer_start"]
    reads = sorted({pt for pt, e in fn.points() for x in own_walk(e) if x.get("k") == "mem" and x.get("f") == "did_get_column"})
    key = "ts_parser__lex:column-use-survives-a-declined-scan"
    if not scan or not start:
        ctx.bad("P13", key, "ts_parser__lex no longer calls the external scanner / ts_lexer_start")
        return
    if not reads:
        ctx.bad("P13", key, "ts_parser__lex never reads lexer.did_get_column")
        return
    class Lost(Monitor):
        def elem(self, m, pt, e, s):
            if pt in reads:
                return None
            if m is not None and pt in start:
                return Viol("the lexer is started again (clearing did_get_column) although the flag was not read since the external scan at %s" % fn.loc(m), pt)
            if pt in scan:
                return pt
            return m
    sr = Search(fn, Lost())
    v = sr.run(None)
    if v is None:
        ctx.ok("P13", key, "after every external scan lexer.did_get_column is read before ts_lexer_start clears it (%d states)" % sr.states, sample={"scan": fn.loc(scan[0])})
    else:
        ctx.bad("P13", key, "ts_parser__lex: %s — a column-sensitive scanner that calls get_column() and then declines leaves no trace: the token lexed instead is not marked as depending on the column "
                "and is reused after an edit that shifts it" % v.msg, {"path": sr.render_path(v.path)[-6:]})


def rule_inline_flags(ctx, F):
    """P14: the inline leaf representation has no bit for "depends on the column" (nor for external tokens), and its
    accessor answers false; so a leaf for which either holds is never built inline — otherwise the mark set in
    ts_parser__lex is lost at construction and the reuse test never sees it."""
    from flow import cond_cases
    fn = ctx.need_fn(F, "ts_subtree_new_leaf", "P14")
    if not fn:
        return
    ids = fn.ids_named("is_inline")
    ds = [d for i in ids for d in fn.defs(i) if isinstance(d, dict) and d.get("k") not in ("uninit", "param")]
    key = "ts_subtree_new_leaf:inline-only-without-flags"
    if not ds:
        ctx.bad("P14", key, "ts_subtree_new_leaf no longer computes `is_inline`")
        return
    m = M(fn)
    cases = cond_cases(ds[0], True)
    for pname in ("depends_on_column", "has_external_tokens"):
        ok = bool(cases) and all(any(m.match(pname, ex) and tr is False for ex, tr in case) for case in cases)
        k2 = key + ":" + pname
        if ok:
            ctx.ok("P14", k2, "a leaf is built inline only if `%s` is false" % pname)
        else:
            ctx.bad("P14", k2, "ts_subtree_new_leaf can build a leaf inline although `%s` is set (`is_inline = %s`): the inline form cannot record it, ts_subtree_%s() answers false, and a token whose "
                    "recognition depended on it is reused after an edit that changes it" % (pname, show(ds[0])[:80], pname))


def rule_examined_char(ctx, F):
    """P11: the bytes a token's recognition depended on include the *whole* character the lexer was looking at when it
    stopped.  ts_lexer_finish reports current_position + the size of that look-ahead character (a constant smaller than
    the longest encoding, 4 bytes, cannot be right: changing the last byte of a 3-byte character changes the character,
    yet the token before it would be reused)."""
    fn = ctx.need_fn(F, "ts_lexer_finish", "P11")
    if not fn:
        return
    out = [p["id"] for p in fn.params if p["name"] != "self"]
    cands = []
    for i, nm in fn._names.items() if fn.defs(0) is not None else []:
        pass
    fn.defs(0)
    defs = []
    for vid, nm in fn._names.items():
        for d in fn.defs(vid):
            if isinstance(d, dict) and d.get("k") not in ("uninit", "param") and "current_position.bytes" in show(d):
                defs.append((nm, d))
    key = "ts_lexer_finish:examined-extent-covers-lookahead-character"
    if not defs:
        ctx.bad("P11", key, "ts_lexer_finish no longer derives the examined extent from the lexer's current position")
        return
    nm, d = defs[0]
    txt = show(d)
    consts = [x.get("v") for x in walk(d) if x.get("k") == "int" and isinstance(x.get("v"), int)]
    if "lookahead_size" in txt or any(c >= 4 for c in consts):
        ctx.ok("P11", key, "`%s = %s` spans the look-ahead character" % (nm, txt[:80]))
    else:
        ctx.bad("P11", key, "`%s = %s`: the examined extent ends one byte after the current position although the look-ahead character there may be up to 4 bytes long — an edit to a later byte of "
                "that character (`abc₭ x` → `abc€ x`, last byte only) leaves the preceding token reusable and the incremental tree differs from the from-scratch tree" % (nm, txt[:60]))


def rule_lookahead_end(ctx, F):
    """P9: the text examined for a node ends at its end + look-ahead bytes — or, when that reaches the end of
    the old document (the node was lexed against end-of-input), at infinity: a range included later on
    may extend such a node.  (Only present after the repair of finding F14; absent helper = older layout.)"""
    fn = F.fns.get("ts_parser__lookahead_end_byte")
    if fn is None:
        # another layout of the same mechanism: a comparison with the old document's length inside the reuse test (or a callee of it)
        rn = F.fns.get("ts_parser__reuse_node")
        cands = [rn] + [F.fns[callee_name(c)] for _, c in (rn.calls() if rn else []) if callee_name(c) in F.fns and F.fns[callee_name(c)].file.endswith("parser.c")] if rn else []
        for g in cands:
            for b in g.blocks.values():
                c = g.cond(b.id)
                if c is not None and "ts_subtree_total_bytes(self->old_tree)" in show(c):
                    ctx.ok("P9", "reuse_node:lookahead-window-unbounded-at-old-eof", "%s compares the examined extent with the old document's length (`%s`)" % (g.name, show(c)[:80]))
                    return
        ctx.bad("P9", "reuse_node:lookahead-window-unbounded-at-old-eof", "the range-difference veto of ts_parser__reuse_node measures a node's look-ahead in document bytes only "
                "(no ts_parser__lookahead_end_byte widening it at the old end of input): a token that was lexed against end-of-input is reused when a later included range "
                "extends it — `ab c` with ranges [0,4), then [0,4)[5,7) over `ab cdef`, re-parses to (ab)(c)(ef) instead of (ab)(cef)")
        return
    rets = [(pt, strip(e["e"])) for pt, e in fn.points() if e.get("k") == "ret"]
    inf = [pt for pt, r in rets if r.get("k") == "int" and r.get("v") == 4294967295]
    fin = [pt for pt, r in rets if not (r.get("k") == "int")]
    bind(fn, "lookahead_end_byte", "end_byte_offset + ts_subtree_lookahead_bytes(tree)")
    d = [x for i in fn.ids_named("lookahead_end_byte") for x in fn.defs(i) if x is not None and x.get("k") != "uninit"]
    if d and M(fn).match("end_byte_offset + ts_subtree_lookahead_bytes(tree)", d[0]):
        ctx.ok("P9", "lookahead_end_byte:end-plus-lookahead", "the examined text ends at end_byte_offset + ts_subtree_lookahead_bytes(tree)")
    else:
        ctx.bad("P9", "lookahead_end_byte:end-plus-lookahead", "ts_parser__lookahead_end_byte no longer starts from end_byte_offset + ts_subtree_lookahead_bytes(tree)")
    if inf and fin:
        ctx.gate("P9", fn, fin, [("a finite window is used only if it ends before the old document does", "lookahead_end_byte >= ts_subtree_total_bytes(self->old_tree)", False)], accept_desc="returning the finite window")
    else:
        ctx.bad("P9", "lookahead_end_byte:unbounded-at-old-eof", "ts_parser__lookahead_end_byte no longer widens the window to UINT32_MAX for a node lexed against the old end of input: "
                "`ab c` + newly included `ef` re-parses to (ab)(c)(ef) instead of (ab)(cef)")


def rule_diff_cursor(ctx, F):
    """P7: the cursor into the included-range differences (which vetoes reuse of nodes whose text changed
    inclusion) only moves past a difference that ends at or before the parse position; the reuse test
    starts looking at that cursor."""
    from C06 import incs
    fn = ctx.need_fn(F, "ts_parser_parse", "P7")
    if fn:
        adv = incs(fn, "self->included_range_difference_index")
        ctx.floor("advances of the range-difference cursor in ts_parser_parse", len(adv), 1)
        ctx.gate("P7", fn, adv, [("a difference range is passed only when it ends at or before the parse position", "range->end_byte <= position", True)], accept_desc="moving past a difference range")
        z = [pt for pt, n in find(fn, "self->included_range_difference_index = 0")]
        if z:
            ctx.ok("P7", "ts_parser_parse:cursor-starts-at-zero", "a parse with an old tree starts the range-difference cursor at 0")
        else:
            ctx.bad("P7", "ts_parser_parse:cursor-starts-at-zero", "ts_parser_parse no longer resets included_range_difference_index to 0 when a new parse starts")
    fn = ctx.need_fn(F, "ts_parser__has_included_range_difference", "P7")
    if fn:
        if find(fn, "ts_range_array_intersects(&self->included_range_differences, self->included_range_difference_index, start_position, end_position)"):
            ctx.ok("P7", "has_included_range_difference:searches-from-cursor", "the reuse veto searches the differences from the cursor with the node's own span")
        else:
            ctx.bad("P7", "has_included_range_difference:searches-from-cursor", "ts_parser__has_included_range_difference no longer searches included_range_differences from the cursor for [start_position, end_position)")
    fn = ctx.need_fn(F, "ts_range_array_intersects", "P7")
    if fn:
        rt = [pt for pt, e in fn.points() if e.get("k") == "ret" and strip(e["e"]).get("k") == "int" and strip(e["e"]).get("v") == 1]
        ctx.gate("P7", fn, rt, [("a difference intersects only if it ends after the span starts", "range->end_byte > start_byte", True), ("…and starts before the span ends", "range->start_byte >= end_byte", False)],
                 accept_desc="reporting an intersection")
        rf = [pt for pt, e in fn.points() if e.get("k") == "ret" and strip(e["e"]).get("k") == "int" and strip(e["e"]).get("v") == 0]
        ctx.floor("`no intersection` returns of ts_range_array_intersects", len(rf), 1)


def run(ctx):
    for cfg in configs(ctx):
        ctx.config = cfg
        F = ctx.extract.cfacts(cfg)
        ctx.analysed["c_functions_" + cfg] = len(F.fn_list)
        rules_c(ctx, F)
        rules_pairing(ctx, F)
        rules_gate_state(ctx, F)
        rule_saturation(ctx, F)
        rule_diff_cursor(ctx, F)
        rule_pending(ctx, F)
        rule_lookahead_end(ctx, F)
        rule_fragile_state(ctx, F)
        rule_examined_char(ctx, F)
        rule_window_start(ctx, F)
        rule_column_consulted(ctx, F)
        rule_inline_flags(ctx, F)
        # the edit marks (has_changes) every node the reuse test must refuse — incl. column-dependent ones whose column shifted (shared with C10.P2/P3)
        import C10
        C10.rule_subtree_edit(ctx, F)
        # …and a token's recorded look-ahead is what the lexer examined: an inline leaf stores it only if it fits its bit-field (shared with C02.W4)
        import C02
        C02.rule_inline_widths(ctx, F)
    import rsrules
    rsrules.c01_rust(ctx)
    return ctx.finish(
        "Static gate/pairing rules over Clang CFGs of lib/src (unity TU, build.rs flags): decides that every path on which an old "
        "subtree or cached token is accepted for reuse passes all listed checks with the required outcome. Does not decide tree equality.")
