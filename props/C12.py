"""C12 — re-parsing after a small edit reuses the unchanged parts: reuse is reachable, tried first,
and only the edited path is marked (DESIGN.md §4 C12).  Necessary structural conditions only; the
quantitative claim (fractions independent of document size) is a runtime quantity and not decided.
"""
from common import *  # noqa: F401,F403


class ReachMonitor(Monitor):
    def __init__(self, pts):
        self.pts = set(pts)

    def elem(self, m, pt, e, s):
        if pt in self.pts:
            return Viol("reachable", pt)
        return m


def feasible(ctx, rule, fn, pts, what):
    key = "%s:feasible:%s" % (fn.name, what)
    if not pts:
        ctx.bad(rule, key + ":no-site", "%s: no site found for %s" % (fn.name, what))
        return
    s = Search(fn, ReachMonitor(pts))
    v = s.run(None)
    if v is not None:
        ctx.ok(rule, key, "%s is reachable under constant/flag propagation (witness path of %d branches)" % (what, len(v.path)),
               sample={"function": fn.name, "site": fn.loc(v.pt), "witness": s.render_path(v.path)[:6]})
    else:
        ctx.bad(rule, key, "%s: %s can no longer be reached on any feasible path (a reject condition is constantly true, or the reason flag is set on every path)" % (fn.name, what),
                {"function": fn.name, "sites": [fn.loc(p) for p in pts]})


class WalkMonitor(Monitor):
    """Each iteration of the reuse loop that goes round again must have moved the old-tree walk."""

    def __init__(self, head_pts, move_pts):
        self.head, self.move = set(head_pts), set(move_pts)

    def elem(self, m, pt, e, s):
        if pt in self.move:
            return "moved"
        if pt in self.head:
            if m == "started":
                return Viol("the reuse loop goes round again without advancing or descending the old-tree walk", pt)
            return "started"
        return m


def rules(ctx, F):
    fn = ctx.need_fn(F, "ts_parser__reuse_node", "R1")
    if fn:
        acc = [pt for pt, n in find(fn, "ts_subtree_retain(result)")]
        feasible(ctx, "R1", fn, acc, "the retain-and-return of a reused node")
        head = [pt for pt, n in find(fn, "result = reusable_node_tree(&self->reusable_node)")]
        move = [pt for pt, c in fn.calls() if c.get("fn") in ("reusable_node_advance", "reusable_node_descend", "reusable_node_advance_past_leaf")]
        ctx.floor("old-tree walk movers in ts_parser__reuse_node", len(move), 5)
        s = Search(fn, WalkMonitor(head, move))
        v = s.run(None)
        if v is None and head:
            ctx.ok("R3", "ts_parser__reuse_node:walk-keeps-pace", "every rejecting iteration advances or descends the old-tree walk before trying again (%d states)" % s.states,
                   sample={"function": fn.name, "loop_head": fn.loc(head[0]), "movers": len(move)})
        else:
            ctx.bad("R3", "ts_parser__reuse_node:walk-keeps-pace", "ts_parser__reuse_node: %s" % (v.msg if v else "loop head not found"), {"path": s.render_path(v.path) if v else []})
        rule_skip(ctx, F, fn)
        # a candidate is considered exactly when the old node starts at the parse position: `before` and `past`
        # are strict tests (a non-strict one sends every candidate down the reject path)
        ctx.gate("R7", fn, acc, [("a node starting at the parse position is not treated as lying ahead", "byte_offset > position", False),
                                 ("…nor as lying behind", "byte_offset < position", False)], accept_desc="reusing the node")
        adv_past = [pt for pt, c in fn.calls() if c.get("fn") in ("reusable_node_advance", "reusable_node_descend")]
        brk = [pt for pt, n in find(fn, "end_byte_offset <= position")]
    fn = ctx.need_fn(F, "ts_parser__get_cached_token", "R1")
    if fn:
        feasible(ctx, "R1", fn, [pt for pt, n in find(fn, "ts_subtree_retain(_)")], "the retain-and-return of the cached token")
    fn = ctx.need_fn(F, "ts_parser__advance", "R2")
    if fn:
        lex = [pt for pt, n in find(fn, "ts_parser__lex(self, version, state)")]
        cache = [pt for pt, n in find(fn, "ts_parser__get_cached_token(self, state, position, last_external_token, &table_entry)")]
        reuse = [pt for pt, n in find(fn, "ts_parser__reuse_node(self, version, &state, position, last_external_token, &table_entry)")]
        relex = [pt for pt, n in find(fn, "needs_lex = 1")]
        ctx.floor("lexer calls in ts_parser__advance", len(lex), 1)
        ctx.gate("R2", fn, lex, [("the lexer runs only after the token cache was tried (or a lookahead that was present got invalidated)",
                                  [("ts_parser__get_cached_token(self, state, position, last_external_token, &table_entry)", "stmt"), ("needs_lex = 1", "stmt"), ("lookahead.ptr", True)])],
                 accept_desc="running the lexer")
        ctx.gate("R2", fn, cache, [("token cache is tried when node reuse gave nothing", "lookahead.ptr", False)], accept_desc="trying the token cache")
        ctx.gate("R2", fn, cache, [("node reuse is attempted first whenever it is allowed", [("allow_node_reuse", False), ("ts_parser__reuse_node(self, version, &state, position, last_external_token, &table_entry)", "stmt")])],
                 accept_desc="trying the token cache")
        ctx.gate("R2", fn, reuse, [("node reuse attempted exactly when allowed", "allow_node_reuse", True)], accept_desc="attempting node reuse")
        feasible(ctx, "R2", fn, reuse, "the node-reuse attempt")
        ids = fn.ids_named("needs_lex")
        ds = [d for i in ids for d in fn.defs(i)]
        first = [d for d in ds if d is not None and M(fn).match("!lookahead.ptr", d)]
        if first:
            ctx.ok("R2", "ts_parser__advance:needs_lex-initial", "needs_lex starts as `!lookahead.ptr`")
        else:
            ctx.bad("R2", "ts_parser__advance:needs_lex-initial", "needs_lex is no longer initialised to `!lookahead.ptr`")
    fn = ctx.need_fn(F, "ts_parser_parse", "R2")
    if fn:
        calls = find(fn, "ts_parser__advance(self, version, allow_node_reuse)")
        ids = fn.ids_named("allow_node_reuse")
        d = fn.single_def(ids[0]) if ids else None
        if calls and d is not None and M(fn).match("version_count == 1", d):
            ctx.ok("R2", "ts_parser_parse:allow_node_reuse", "node reuse is allowed exactly when a single stack version exists (`version_count == 1`), not a constant")
        else:
            ctx.bad("R2", "ts_parser_parse:allow_node_reuse", "allow_node_reuse passed to ts_parser__advance is no longer `version_count == 1`")
        rn = find(fn, "reusable_node_reset(&self->reusable_node, old_tree->root)")
        if rn:
            ctx.ok("R2", "ts_parser_parse:walk-starts-at-old-root", "the old-tree walk is initialised from the old tree's root")
        else:
            ctx.bad("R2", "ts_parser_parse:walk-starts-at-old-root", "ts_parser_parse no longer points the reusable-node walk at old_tree->root")
    fn = ctx.need_fn(F, "ts_subtree_edit", "R4")
    if fn:
        res = bind(fn, "result", "ts_subtree_make_mut(pool, *entry.tree)")
        mk = [pt for pt, e in fn.points() if e.get("k") == "decl" and e["name"] == res]
        ctx.gate("R4", fn, mk, [("nodes lying entirely before the edit are left untouched (not cloned, not marked)", "edit.start.bytes > total_size.bytes + lookahead_bytes", False)],
                 accept_desc="making a node mutable")
        from cstores import stores
        push = [pt for pt, n, l, op in stores(fn) if "child_edit" in show(n)]
        ctx.gate("R4", fn, push, [("children ending before the edit are not queued", "_ + ts_subtree_lookahead_bytes(*child) < edit.start.bytes", False)], accept_desc="queueing a child")
        is_break = lambda bid, e: fn.blocks[e.to].term.get("cls") == "BreakStmt" and not fn.blocks[e.to].elems
        feasible_break = any(is_break(b.id, e) and e.reach for b in fn.blocks.values() for e in b.succs)
        if feasible_break:
            ctx.ok("R4", "ts_subtree_edit:stops-after-the-edit", "the child loop has a reachable early exit for children starting after the edit")
        else:
            ctx.bad("R4", "ts_subtree_edit:stops-after-the-edit", "the child loop of ts_subtree_edit no longer stops at children that start after the edit (whole tree would be marked)")


def rule_skip(ctx, F, fn):
    """R6: the old-tree walk steps over a whole node (reusable_node_advance) only when nothing inside
    it can still be reused: the node ends at or before the parse position, it has no children to
    descend into, or the scanner state in front of it differs.  A rejection for any other reason must
    descend (or step past the first leaf only), otherwise the rest of the node is re-lexed."""
    ADV = "reusable_node_advance"
    direct = [pt for pt, c in fn.calls() if c.get("fn") == ADV]
    helpers = {}
    for pt, c in fn.calls():
        h = F.fns.get(c.get("fn") or "")
        if h is None or h.name in (ADV, "reusable_node_descend") or not h.file.endswith("reusable_node.h"):
            continue
        inner = [p for p, cc in h.calls() if cc.get("fn") == ADV]
        if inner:
            helpers.setdefault(h.name, (h, inner, []))[2].append(pt)
    ctx.floor("whole-node steps of the old-tree walk in ts_parser__reuse_node", len(direct) + sum(len(v[2]) for v in helpers.values()), 4)
    self_arg = fn.cur("self")
    ctx.gate("R6", fn, direct, [("a whole old node is stepped over only when it ends before the parse position, has no children, or sits behind a different scanner state",
                                 [("end_byte_offset <= position", True), ("reusable_node_descend(&%s->reusable_node)" % self_arg, False),
                                  ("ts_subtree_external_scanner_state_eq(%s->reusable_node.last_external_token, last_external_token)" % self_arg, False)])],
             accept_desc="stepping over a whole old node")
    for name, (h, inner, sites) in sorted(helpers.items()):
        hs = h.params[0]["name"] if h.params else "self"
        ctx.gate("R6", h, inner, [("the helper steps over a node only after descending as far as possible (a leaf)", [("reusable_node_descend(%s)" % hs, False)])],
                 accept_desc="stepping over a node")


def rule_condense(ctx, F):
    """R8: reuse needs a single stack version (R2), so versions must collapse again after an ambiguity.
    In ts_parser__condense_stack every pairwise comparison that keeps both versions (prefer-left,
    prefer-right, none) tries to merge them; a comparison that merely reorders never skips the merge."""
    fn = ctx.need_fn(F, "ts_parser__condense_stack", "R8")
    if not fn:
        return
    sw = [b.id for b in fn.blocks.values() if fn.cond(b.id) is not None and callee_name(strip(fn.cond(b.id))) == "ts_parser__compare_versions" and b.term.get("switch")]
    if not sw:
        ctx.bad("R8", "condense_stack:compares-versions", "ts_parser__condense_stack no longer switches on ts_parser__compare_versions(...)")
        return
    keep = {"ErrorComparisonPreferLeft", "ErrorComparisonNone", "ErrorComparisonPreferRight"}
    merges = {pt for pt, c in fn.calls() if callee_name(c) == "ts_stack_merge"}
    compares = {pt for pt, c in fn.calls() if callee_name(c) == "ts_parser__compare_versions"}
    ctx.floor("merge attempts in ts_parser__condense_stack", len(merges), 2)

    class MergeTried(Monitor):
        def elem(self, m, pt, e, s):
            if pt in merges:
                return None
            if m is not None and pt in compares:
                return Viol("after the comparison said `%s` the two versions are left side by side without a merge attempt" % m, pt)
            return m

        def edge(self, m, bid, edge, cond, truth, s):
            if bid in sw and isinstance(edge.lab, dict):
                return edge.lab.get("name") if edge.lab.get("name") in keep else None
            return m

        def exit(self, m, bid, s):
            if m is not None:
                return Viol("after the comparison said `%s` the function returns without a merge attempt" % m)
            return None
    srch = Search(fn, MergeTried())
    v = srch.run(None)
    if v is None:
        ctx.ok("R8", "condense_stack:kept-pairs-are-merged", "every comparison that keeps both versions is followed by ts_stack_merge before the next pair is looked at (%d states)" % srch.states)
    else:
        ctx.bad("R8", "condense_stack:kept-pairs-are-merged", "ts_parser__condense_stack: %s (%s) — equivalent versions then run side by side to the end of the file and node reuse (single version only) stays off" % (
            v.msg, fn.loc(v.pt) if v.pt else "exit"), {"path": srch.render_path(v.path)[-6:]})


def rule_eq(ctx, F):
    """R5: the scanner-state equality the reuse gates use treats an absent token like an empty
    state (otherwise every candidate is refused until the next external token)."""
    fn = ctx.need_fn(F, "ts_subtree_external_scanner_state_eq", "R5")
    if fn:
        rets = [(pt, strip(e["e"])) for pt, e in fn.points() if e.get("k") == "ret"]
        const_false = [pt for pt, v in rets if v.get("k") == "int" and v.get("v") == 0]
        calls = [pt for pt, v in rets if M(fn).match("ts_external_scanner_state_eq(ts_subtree_external_scanner_state(self), _, _)", v)]
        if const_false:
            ctx.bad("R5", "ts_subtree_external_scanner_state_eq:no-shortcut-inequality", "ts_subtree_external_scanner_state_eq returns a constant `false` at %s: an absent token no longer equals a token with empty scanner state, "
                    "so node reuse is refused wholesale after such an edit" % fn.loc(const_false[0]), {"site": fn.loc(const_false[0])})
        elif calls:
            ctx.ok("R5", "ts_subtree_external_scanner_state_eq:no-shortcut-inequality", "inequality is only ever decided by comparing the serialized states (absent token ≡ empty state)")
        else:
            ctx.bad("R5", "ts_subtree_external_scanner_state_eq:compares-states", "ts_subtree_external_scanner_state_eq no longer compares the two serialized scanner states")
    fn = ctx.need_fn(F, "ts_subtree_external_scanner_state", "R5")
    if fn:
        rets = [strip(e["e"]) for pt, e in fn.points() if e.get("k") == "ret"]
        if any(v.get("k") == "un" and v["op"] == "&" and strip(v["e"]).get("dk") == "global" for v in rets) or any("empty_state" in show(v) for v in rets):
            ctx.ok("R5", "ts_subtree_external_scanner_state:absent-is-empty", "a subtree without external-token state yields the shared empty state")
        else:
            ctx.bad("R5", "ts_subtree_external_scanner_state:absent-is-empty", "ts_subtree_external_scanner_state no longer maps an absent token to the empty state")


def rule_fragile_sides(ctx, F):
    """R9: fragility is inherited one side at a time.  A parent is left-fragile because its *first* child is
    left-fragile and right-fragile because its *last* child is right-fragile (or both because a child is an error).
    The reuse veto tests either flag, so a wider inheritance (any fragile child / either side) spreads the veto up
    a whole spine of healthy nodes and they are re-parsed on every edit."""
    from cstores import stores, writes_record
    fn = ctx.need_fn(F, "ts_subtree_summarize_children", "R9")
    if not fn:
        return
    sides = {"fragile_left": [], "fragile_right": []}
    for pt, n, l, op in stores(fn):
        f = writes_record(l, "SubtreeHeapData")
        if f in sides:
            sides[f].append(pt)
    ctx.floor("stores of the fragile flags in ts_subtree_summarize_children", sum(len(v) for v in sides.values()), 4)
    fc = bind(fn, "first_child", "children[0]")
    lc = bind(fn, "last_child", "children[self.ptr->child_count - 1]")
    if not fc or not lc:
        ctx.bad("R9", "ts_subtree_summarize_children:edge-children", "first_child / last_child are no longer children[0] / children[child_count - 1]")
        return
    ctx.gate("R9", fn, sides["fragile_left"], [("left fragility comes from the first child's left side (or an error child)",
                                               [("ts_subtree_fragile_left(first_child)", True), ("ts_subtree_is_error(child)", True)])], accept_desc="marking the parent left-fragile")
    ctx.gate("R9", fn, sides["fragile_right"], [("right fragility comes from the last child's right side (or an error child)",
                                                [("ts_subtree_fragile_right(last_child)", True), ("ts_subtree_is_error(child)", True)])], accept_desc="marking the parent right-fragile")


def run(ctx):
    for cfg in configs(ctx):
        ctx.config = cfg
        F = ctx.extract.cfacts(cfg)
        ctx.analysed["c_functions_" + cfg] = len(F.fn_list)
        rules(ctx, F)
        rule_eq(ctx, F)
        rule_condense(ctx, F)
        rule_fragile_sides(ctx, F)
        # a resumed parse keeps its place in the old tree: nothing touches parser state before the resume test (shared with C09.P1)
        import C09
        C09.rule_p1(ctx, F)
        # the range-difference veto is unbounded only for a node lexed against the end of the *old document* — not for every node (shared with C01.P9)
        import C01
        C01.rule_lookahead_end(ctx, F)
        # ts_parser_reset leaves nothing behind that makes the next call look like a resumption (which ignores the old tree) (shared with C09.F1)
        C09.rule_f1(ctx, F)
        # an edited tree's included ranges feed the range difference that vetoes reuse (shared with C10.W2)
        import C10
        C10.rule_range_edit(ctx, F)
    return ctx.finish(
        "Feasibility and ordering rules over parser.c/subtree.c: the reuse accept exits are reachable under constant/flag propagation; node reuse and the token cache are tried "
        "before the lexer; every rejecting iteration moves the old-tree walk; the edit marks only nodes on the edited path. Necessary conditions only — the reuse fractions are runtime quantities.")
