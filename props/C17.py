"""C17 — highlight events nested and reproduce the source: start/end pairing and HTML escaping
(DESIGN.md §4 C17).

Decides on rustc MIR of tree-sitter-highlight: HighlightStart is emitted exactly where an end
position is pushed and HighlightEnd exactly where one is popped (nowhere else), mid-stream Source
events come only from emit_event, which advances byte_offset to the event offset; the stream ends
only after the tail of the source was emitted; the HTML renderer pushes a raw source byte only
when it needs no escaping, never pushes a carriage return, escapes < > & " ' and ends with a
newline.  Does not decide ordering across layers or injection containment.
"""
import re as _re
from common import *  # noqa: F401,F403
import rsrules
from rsrules import calls_named, find_fn, cond_text, text_gate, inline_text, cond_def

CRATE = "tree_sitter_highlight"


def aggs(fn, adt_sub, variant):
    return [pt for pt, e in fn.points() for n in own_walk(e) if n.get("k") == "agg" and adt_sub in (n.get("adt") or "") and n.get("variant") == variant]


def vec_calls(fn, method, recv_sub):
    out = []
    for pt, e in fn.points():
        for n in own_walk(e):
            if n.get("k") == "call" and (n.get("fn") or "").endswith(method) and n.get("a") and recv_sub in inline_text(fn, n["a"][0]):
                out.append((pt, n))
    return out


def rule_p1(ctx, F):
    nxt = find_fn(ctx, F, "<HighlightIter<'a, F> as std::iter::Iterator>::next", "P1")
    if nxt is None:
        nxt = [f for f in F.fn_list if f.name.startswith("<HighlightIter") and f.name.endswith("::next")]
        nxt = nxt[0] if nxt else None
    emit = find_fn(ctx, F, "HighlightIter::emit_event", "P1")
    if not nxt or not emit:
        return
    # who may push/pop the end stack and who may build each event kind
    for f in F.fn_list:
        for method in ("::push", "::pop"):
            for pt, n in vec_calls(f, method, "highlight_end_stack"):
                if f is not nxt:
                    ctx.bad("P1", "%s:%s-end-stack" % (f.name, method[2:]), "%s %ss highlight_end_stack at %s; only HighlightIter::next may" % (f.name, method[2:], f.loc(pt)))
        for variant in ("HighlightStart", "HighlightEnd", "Source"):
            for pt in aggs(f, "HighlightEvent", variant):
                allowed = {"HighlightStart": [nxt], "HighlightEnd": [nxt], "Source": [nxt, emit]}[variant]
                if f not in allowed:
                    ctx.bad("P1", "%s:builds-%s" % (f.name, variant), "%s constructs HighlightEvent::%s at %s outside the event loop" % (f.name, variant, f.loc(pt)))
    starts = aggs(nxt, "HighlightEvent", "HighlightStart")
    ends = aggs(nxt, "HighlightEvent", "HighlightEnd")
    pushes = [pt for pt, n in vec_calls(nxt, "::push", "highlight_end_stack")]
    pops = [pt for pt, n in vec_calls(nxt, "::pop", "highlight_end_stack")]
    ctx.floor("HighlightStart constructions", len(starts), 1)
    ctx.floor("HighlightEnd constructions", len(ends), 2)
    ctx.before("P1", "next:start-after-push", nxt, starts, pushes, "every HighlightStart is preceded by pushing its end position")
    ctx.before("P1", "next:end-after-pop", nxt, ends, pops, "every HighlightEnd is preceded by popping an end position")
    ctx.after("P1", "next:push-emits-start", nxt, pushes, starts, "every push of an end position is followed by emitting HighlightStart")
    ctx.after("P1", "next:pop-emits-end", nxt, pops, ends, "every pop of an end position is followed by emitting HighlightEnd")
    if len(pushes) == len(starts) and len(pops) == len(ends):
        ctx.ok("P1", "next:counts", "%d push/%d start, %d pop/%d end sites" % (len(pushes), len(starts), len(pops), len(ends)))
    else:
        ctx.bad("P1", "next:counts", "push/start or pop/end site counts differ (%d/%d, %d/%d)" % (len(pushes), len(starts), len(pops), len(ends)))
    # the three events are returned through emit_event
    ev_calls = calls_named(nxt, "emit_event")
    ctx.floor("emit_event calls in next", len(ev_calls), 4)
    ctx.after("P1", "next:start-goes-through-emit_event", nxt, starts, [pt for pt, c, d in ev_calls], "HighlightStart is handed to emit_event")
    ctx.after("P1", "next:end-goes-through-emit_event", nxt, ends, [pt for pt, c, d in ev_calls], "HighlightEnd is handed to emit_event")
    # emit_event: Source only when byte_offset < offset, then byte_offset := offset and the event is deferred
    src = aggs(emit, "HighlightEvent", "Source")
    text_gate(ctx, "P1", emit, src, [("a Source span is emitted only for a non-empty gap", [(("byte_offset", "<", "offset"), True)])], accept_desc="building the Source event")
    adv = [pt for pt, e in emit.points() for n in own_walk(e) if n.get("k") == "assign" and inline_text(emit, n["l"]).endswith("byte_offset") and "offset" in inline_text(emit, n["r"])]
    dfr = [pt for pt, e in emit.points() for n in own_walk(e) if n.get("k") == "assign" and inline_text(emit, n["l"]).endswith("next_event")]
    ctx.after("P1", "emit_event:advances-byte_offset", emit, src, adv, "after emitting a Source span byte_offset moves to the event offset")
    ctx.after("P1", "emit_event:defers-event", emit, src, dfr, "the event itself is kept for the next call")
    # termination: None only after the tail was emitted
    nones = [pt for pt, e in nxt.points() for n in own_walk(e) if n.get("k") == "assign" and show(n["l"]) == "_0" and strip(n["r"]).get("k") == "agg" and strip(n["r"]).get("variant") == "None"]
    text_gate(ctx, "P1", nxt, nones, [("the stream ends only when byte_offset reached the end of the source", [(("byte_offset", "<", "len"), False)])], accept_desc="returning None")
    tail = aggs(nxt, "HighlightEvent", "Source")
    text_gate(ctx, "P1", nxt, tail, [("tail Source only when text remains and no layer is left", [(("byte_offset", "<", "len"), True)])], accept_desc="building the tail Source event")


def rule_g1(ctx, F):
    fn = find_fn(ctx, F, "HtmlRenderer::add_text", "G1")
    esc = find_fn(ctx, F, "HtmlRenderer::add_text::html_escape", "G1")
    if not fn or not esc:
        return
    pushes = [pt for pt, n in vec_calls(fn, "::push", "html")]
    ctx.floor("raw byte pushes in add_text", len(pushes), 2)
    text_gate(ctx, "G1", fn, pushes, [
        ("a raw byte is pushed only if it is a newline or needs no escape", [(("== 10",), True), (("html_escape", "=None"), True), (("html_escape", "=default"), True)]),
        ("carriage returns are never pushed", [(("== 13",), False)]),
    ], accept_desc="pushing a source byte into the HTML")
    # html_escape covers < > & " '
    cases = set()
    for b in esc.blocks.values():
        for e in b.succs:
            if isinstance(e.lab, dict) and e.lab.get("case"):
                cases.add(e.lab.get("v"))
    need = {60: "<", 62: ">", 38: "&", 34: '"', 39: "'"}
    missing = [ch for v, ch in need.items() if v not in cases]
    if not missing:
        ctx.ok("G1", "html_escape:covers", "html_escape has arms for < > & and both quote characters", sample={"cases": sorted(cases)})
    else:
        ctx.bad("G1", "html_escape:covers", "html_escape has no arm for %s: those characters reach the HTML unescaped" % missing)
    somes = [pt for pt, e in esc.points() for n in own_walk(e) if n.get("k") == "assign" and show(n["l"]) == "_0" and strip(n["r"]).get("variant") == "Some"]
    if len(somes) >= 5:
        ctx.ok("G1", "html_escape:some-arms", "%d arms return an entity" % len(somes))
    else:
        ctx.bad("G1", "html_escape:some-arms", "html_escape returns an entity on only %d arms" % len(somes))
    r = find_fn(ctx, F, "HtmlRenderer::render", "G1")
    if r:
        nl = [pt for pt, n in vec_calls(r, "::push", "html") if strip(n["a"][1]).get("v") == 10]
        text_gate(ctx, "G1", r, [], [("the output ends with a newline", [(("last", "ne"), False), (("last", "!="), False), (("Err",), True)])], accept_desc="return", est_pts=nl, at_exit=True)


def rule_p2(ctx, F):
    """A reused Highlighter's parser is reset before every parse of a layer (a previous call may
    have been cancelled mid-parse; without a reset the parser resumes the old document)."""
    fn = find_fn(ctx, F, "HighlightIterLayer::new", "P2")
    if not fn:
        return
    parses = [pt for pt, c, d in calls_named(fn, "Parser::parse")]
    resets = [pt for pt, c, d in calls_named(fn, "Parser::set_language")] + [pt for pt, c, d in calls_named(fn, "Parser::reset")]
    ctx.floor("parse calls in HighlightIterLayer::new", len(parses), 1)
    # every parse is preceded by a reset *since the previous parse* (loop over layers)
    class M2(Monitor):
        def elem(self, m, pt, e, s):
            if pt in resets:
                return True
            if pt in parses:
                if not m:
                    return Viol("a layer is parsed without the parser having been reset (set_language/reset) since its last use", pt)
                return False
            return m
    s = Search(fn, M2(), budget=3000000)
    v = s.run(False)
    if v is None:
        ctx.ok("P2", "HighlightIterLayer::new:reset-before-parse", "each layer's parse is preceded by Parser::set_language (which resets the parser) or Parser::reset",
               sample={"function": fn.name, "parses": [fn.loc(p) for p in parses], "resets": [fn.loc(p) for p in resets]})
    else:
        ctx.bad("P2", "HighlightIterLayer::new:reset-before-parse", "HighlightIterLayer::new: %s — after a cancelled highlight the next call resumes the old document's parse" % v.msg,
                {"site": fn.loc(v.pt), "path": s.render_path(v.path)[-6:]})


def rule_g2(ctx, F):
    """G2: a carriage return waits for the next byte.  The pending CR offset is consumed by *every* following
    byte — a line feed just drops it — so nothing is spliced into the HTML after the next line's offset
    was recorded."""
    fn = find_fn(ctx, F, "HtmlRenderer::add_text", "G2")
    if not fn:
        return
    takes = [pt for pt, c, d in calls_named(fn, "Option", "::take") if "last_carriage_return" in rsrules.deep_text(fn, c["a"][0], user=False)]
    lines = [pt for pt, n in vec_calls(fn, "::push", "line_offsets")]
    heads = [pt for pt, c, d in calls_named(fn, "Iterator", "::next")]
    heads = sorted(heads, key=lambda p: int(fn.loc(p).rsplit(":", 1)[-1]))[:1]        # the byte loop (outermost); inner loops re-open highlights
    ctx.floor("consumptions of the pending carriage return in add_text", len(takes), 1)
    if not lines or not heads:
        ctx.bad("G2", "add_text:line-offset-recording", "add_text no longer records line offsets inside its byte loop")
        return
    s = Search(fn, BeforeMonitor(lines, takes, reset_pts=heads), budget=2000000)
    v = s.run(False)
    if v is None:
        ctx.ok("G2", "add_text:pending-cr-consumed-before-newline", "a line offset is recorded only after the pending carriage return was consumed for this byte (%d states)" % s.states)
    else:
        ctx.bad("G2", "add_text:pending-cr-consumed-before-newline", "HtmlRenderer::add_text records a new line offset at %s while a carriage return may still be pending (take() not reached for this byte): "
                "the CR marker is later spliced into the previous line and the line table no longer matches the text" % fn.loc(v.pt), {"path": s.render_path(v.path)[-6:]})


def rule_p4(ctx, F):
    """Injection containment, structural part: an injected layer is parsed only over included
    ranges that were accepted by the parser, and the ranges handed to an injected layer are always
    computed by intersect_ranges (parent ranges ∩ content nodes).  With C13 (a ranged parse never
    produces nodes outside its ranges) this gives "injected spans stay inside the content"."""
    from taint import Taint
    new = find_fn(ctx, F, "HighlightIterLayer::new", "P4")
    nxt = [f for f in F.fn_list if f.name.startswith("<HighlightIter") and f.name.endswith("::next")]
    if not new or not nxt:
        return
    nxt = nxt[0]
    parses = [pt for pt, c, d in calls_named(new, "Parser::parse")]
    text_gate(ctx, "P4", new, parses, [("a layer is parsed only after its ranges were installed successfully", [(("set_included_ranges", "is_ok"), True)])], accept_desc="parsing a layer")
    is_src = lambda n, f: n.get("k") == "call" and "intersect_ranges" in (n.get("fn") or "")
    # (1) combined injections queued inside new()
    T = Taint(F, [new], is_src).run()
    pushes = [(pt, n) for pt, n in vec_calls(new, "::push", "queue")]
    ctx.floor("queued combined-injection layers in HighlightIterLayer::new", len(pushes), 1)
    for pt, n in pushes:
        if T.expr_tainted(n["a"][1], new):
            ctx.ok("P4", "new:queued-ranges-from-intersect_ranges", "the ranges of a queued combined-injection layer come from intersect_ranges", sample={"site": new.loc(pt)})
        else:
            ctx.bad("P4", "new:queued-ranges-from-intersect_ranges", "HighlightIterLayer::new queues an injected layer at %s whose ranges do not come from intersect_ranges: its spans are not confined to the injection's content" % new.loc(pt),
                    {"site": new.loc(pt)})
    # (2) plain injections discovered while iterating
    T2 = Taint(F, [nxt], is_src).run()
    calls = [(pt, c) for pt, c, d in calls_named(nxt, "HighlightIterLayer", "::new")]
    ctx.floor("injected-layer constructions in HighlightIter::next", len(calls), 1)
    for pt, c in calls:
        if any(T2.expr_tainted(a, nxt) for a in c["a"][-1:]):
            ctx.ok("P4", "next:injected-ranges-from-intersect_ranges", "the ranges of an injected layer come from intersect_ranges", sample={"site": nxt.loc(pt)})
        else:
            ctx.bad("P4", "next:injected-ranges-from-intersect_ranges", "HighlightIter::next builds an injected layer at %s whose ranges do not come from intersect_ranges" % nxt.loc(pt), {"site": nxt.loc(pt)})
    # who may construct layers at all
    for f in F.fn_list:
        if calls_named(f, "HighlightIterLayer", "::new") and f is not nxt and not f.name.endswith("Highlighter::highlight"):
            ctx.bad("P4", "%s:constructs-layer" % f.name, "%s constructs a HighlightIterLayer; only Highlighter::highlight (whole document) and HighlightIter::next (injections) may" % f.name)


def rule_p5(ctx, F):
    """intersect_ranges: every range it emits was clamped against the parent range that is current
    at that moment — after the walk moves on to the next parent range, the lower clamp, the overlap
    test and the upper clamp are all evaluated again before anything is pushed."""
    fn = find_fn(ctx, F, "HighlightIterLayer::intersect_ranges", "P5")
    if not fn:
        return
    pushes = [pt for pt, n in vec_calls(fn, "::push", "result")]
    ctx.floor("ranges emitted by intersect_ranges", len(pushes), 2)
    # the "current parent range": a user-named `&Range` local that is re-assigned while iterating
    cur = set()
    for lc in fn.j.get("locals", []) or []:
        if (lc.get("t") or "").startswith("&") and (lc.get("t") or "").endswith("Range") and not str(lc.get("name", "_")).startswith("_"):
            ds = [d for d in fn.defs(lc["id"]) if isinstance(d, dict) and d.get("k") not in ("uninit", "param")]
            if len(ds) >= 2:
                cur.add(lc["id"])
    resets = [pt for pt, e in fn.points() for n in own_walk(e) if n.get("k") == "assign" and strip(n["l"]).get("k") == "ref" and strip(n["l"])["id"] in cur]
    if not cur or len(resets) < 2:
        ctx.bad("P5", "intersect_ranges:current-parent-range", "the local holding the current parent range (a `&Range` re-assigned from the parent iterator) was not found in intersect_ranges")
        return
    tests = [
        ("lower clamp evaluated against the current parent range", (".start_byte < (*", ").start_byte)")),
        ("overlap with the current parent range tested", ("(*", ").end_byte > ", ".start_byte)")),
        ("upper clamp evaluated against the current parent range", ("(*", ").end_byte < ", ".end_byte)")),
    ]
    for label, needles in tests:
        srch = Search(fn, rsrules.TextGate(fn, pushes, [(needles, True), (needles, False)], reset_pts=resets), budget=2000000)
        v = srch.run(0)
        key = "intersect_ranges:" + label
        if v is None:
            ctx.ok("P5", key, "every emitted range passed this test since the parent range last changed (%d pushes, %d re-assignments, %d states)" % (len(pushes), len(resets), srch.states),
                   sample={"function": fn.name, "pushes": [fn.loc(p) for p in pushes]})
        else:
            ctx.bad("P5", key, "intersect_ranges emits a range at %s that was not re-tested after the walk moved to the next parent range (%s): the injected layer then covers text between the parent's ranges" % (
                fn.loc(v.pt), label), {"site": fn.loc(v.pt), "path": srch.render_path(v.path)[-8:]})
    clamp = [pt for pt, e in fn.points() for n in own_walk(e) if n.get("k") == "assign" and strip(n["l"]).get("k") == "mem" and strip(n["l"]).get("f") == "start_byte" and ").start_byte" in inline_text(fn, n["r"]) and "(*" in inline_text(fn, n["r"])]
    text_gate(ctx, "P5", fn, clamp, [("the start is raised to the parent's start exactly when it lies before it", [((".start_byte < (*", ").start_byte)"), True)])], accept_desc="raising the range start")


def rule_p6(ctx, F):
    """P6: an injection that does not include children excludes *all* children of its content node — named or
    anonymous (e.g. the quotes of a string whose inside is the injected document).  In intersect_ranges every content
    node has its children walked (Node::children) unless `includes_children` is set, and the closure that turns a child
    into an excluded range drops a child only when `includes_children` is set."""
    from C15 import FoldAll, loop_switch_of, origin_calls
    fn = find_fn(ctx, F, "HighlightIterLayer::intersect_ranges", "P6")
    if not fn:
        return
    nodes_param = fn.params[1]["name"] if len(fn.params) > 1 else "nodes"
    nxt = [pt for pt, c, d in calls_named(fn, "Iterator::next") if "slice::Iter" in ((c.get("targs") or "") + (c.get("fn") or "")) and "Node" in (c.get("targs") or "")]
    walks = [pt for pt, c, d in calls_named(fn, "Node", "::children")]
    if len(nxt) != 1 or not walks:
        ctx.bad("P6", "intersect_ranges:children-walked", "intersect_ranges: expected one loop over the content nodes that walks each node's children (found %d loop(s), %d Node::children call(s))" % (len(nxt), len(walks)))
        return
    sw = loop_switch_of(fn, nxt[0])

    class M(FoldAll):
        def edge(self, m, bid, edge, cond, truth, s):
            if cond is not None and truth is not None and m[0]:
                txt, t = rsrules.cond_text(fn, cond, truth)
                if "includes_children" in txt and t is True and "(" not in txt.replace("(*", ""):
                    return (m[0], True)        # the licensed skip
            return FoldAll.edge(self, m, bid, edge, cond, truth, s)
    sr = Search(fn, M(fn, sw, walks), budget=3000000)
    v = sr.run((False, False)) if sw is not None else Viol("loop switch not found")
    if v is None:
        ctx.ok("P6", "intersect_ranges:children-walked", "every content node has its children walked unless includes_children is set (%d states)" % sr.states, sample={"loop": fn.loc(nxt[0]), "walk": fn.loc(walks[0])})
    else:
        ctx.bad("P6", "intersect_ranges:children-walked", "intersect_ranges: a content node is passed over without walking its children although includes_children is not set (%s): children that are "
                "anonymous tokens (quotes, delimiters) stay inside the injected document and are highlighted by the injected language" % v.msg, {"path": sr.render_path(v.path)[-6:] if v.path else []})
    cl = [f for f in F.fn_list if f.name.startswith(fn.name + "::{closure") and calls_named(f, "Node", "::range")]
    if len(cl) == 1:
        g = cl[0]
        nones = [pt for pt, e in g.points() for x in own_walk(e) if x.get("k") == "assign" and show(x["l"]) == "_0" and not (strip(x["r"]).get("k") == "agg" and strip(x["r"]).get("variant") == "Some")]
        if nones:
            text_gate(ctx, "P6", g, nones, [("a child is kept in the injected document only when includes_children is set", [(("includes_children",), True), (("_1",), True)])], accept_desc="dropping a child's range from the exclusions")
        else:
            ctx.ok("P6", "intersect_ranges:child-closure-excludes-all", "the child closure always yields the child's range")
    else:
        ctx.bad("P6", "intersect_ranges:child-closure", "expected one closure of intersect_ranges mapping a child to its range, found %d" % len(cl))


def rule_p7(ctx, F):
    """P7: every layer is parsed from scratch.  The Highlighter keeps one Parser; a highlight run cancelled while parsing
    leaves an outstanding parse in it.  Before every parse call in HighlightIterLayer::new the parser was reset by
    Parser::set_language (or Parser::reset) in the same loop iteration, so the next document is not a continuation."""
    fn = find_fn(ctx, F, "HighlightIterLayer::new", "P7")
    if not fn:
        return
    use = [pt for pt, c, d in calls_named(fn, "Parser", "::parse")]
    rst = [pt for pt, c, d in calls_named(fn, "Parser", "::reset")] + [pt for pt, c, d in calls_named(fn, "Parser", "::set_language")]
    ctx.floor("parse calls in HighlightIterLayer::new", len(use), 1)
    if not rst:
        ctx.bad("P7", "new:parser-reset-before-parse", "HighlightIterLayer::new parses without resetting the parser or assigning the language first")
        return
    # re-armed by the loop: reaching a parse call again requires passing the reset again
    ctx.before("P7", "new:parser-reset-before-parse", fn, use, rst, "the parser is reset (set_language) before each layer is parsed", reset_pts=use)


def rule_u1(ctx):
    """U1: the lossy decoder that HtmlRenderer::add_text writes text through never swallows text.  LossyUtf8::next may
    end the iteration (None) only when no bytes are left *and* no replacement character is owed; an incomplete sequence at
    the end of the input is an error like any other (valid text before it is yielded, then U+FFFD)."""
    from rsrules import TextGate
    F2 = ctx.extract.rsfacts("tree_sitter")
    c = [f for f in F2.fn_list if "LossyUtf8" in f.name and f.name.endswith("::next")]
    if not c:
        ctx.bad("U1", "LossyUtf8::next:anchor", "LossyUtf8::next not found in the tree_sitter crate")
        return
    fn = c[0]
    nones = [pt for pt, e in fn.points() for x in own_walk(e) if x.get("k") == "assign" and show(x["l"]) == "_0" and strip(x["r"]).get("k") == "agg" and strip(x["r"]).get("variant") != "Some"
             and "Option" in str(strip(x["r"]).get("adt"))]
    if not nones:
        ctx.bad("U1", "LossyUtf8::next:none-exits", "LossyUtf8::next has no `None` exit")
        return
    text_gate(ctx, "U1", fn, nones, [
        ("the iteration ends only when no bytes are left", [(("is_empty(", "bytes"), True), (("len(", "bytes", "== 0"), True)]),
        ("…and no replacement character is still owed", [(("in_replacement",), False)]),
    ], accept_desc="ending the iteration")


def rule_s1(ctx, F):
    """S1: the front layer is always the one with the earliest pending boundary.  HighlightIter::next works on
    `layers[0]`; consuming a capture from it moves its position, so before the loop looks at `layers[0]` again (or the
    call returns) the layers are re-sorted — by sort_layers() or by emit_event(), which sorts.  Otherwise a layer that ran
    ahead keeps the front and flushes source text across another layer's pending end: an injected language's highlight
    then covers text outside its content."""
    nxt = [f for f in F.fn_list if f.name.startswith("<HighlightIter") and f.name.endswith("::next")]
    if not nxt:
        return
    fn = nxt[0]
    take = [pt for pt, c, d in calls_named(fn, "Peekable", "::next")]
    sort = [pt for pt, c, d in calls_named(fn, "sort_layers")] + [pt for pt, c, d in calls_named(fn, "emit_event")]
    head = [pt for pt, c, d in calls_named(fn, "Peekable", "::peek")]
    head = sorted(head)[:1]           # the look at layers[0] at the top of the main loop
    # an error return ends the whole iteration: no order to keep
    for pt, e in fn.points():
        for x in own_walk(e):
            if x.get("k") == "assign" and show(x["l"]) == "_0" and "Result::Err" in rsrules.deep_text(fn, x["r"], user=False):
                sort.append(pt)
    ctx.floor("captures consumed in HighlightIter::next", len(take), 3)
    if not sort or not head:
        ctx.bad("S1", "next:layers-resorted-after-consuming", "HighlightIter::next no longer has sort_layers()/emit_event() or the peek at the top of its loop")
        return
    ctx.after("S1", "next:layers-resorted-after-consuming", fn, take, sort, "after a capture is consumed the layers are re-sorted before the front layer is consulted again or the call returns",
              stop_pts=head, retrigger_is_stop=False)


def rule_s2(ctx, F):
    """S2: the layers are ordered from the start.  HighlightIterLayer::new returns the root layer plus one layer per
    combined injection, in the order of the injection *patterns*; sort_layers() only bubbles the front layer into an
    otherwise ordered list.  So Highlighter::highlight must not take that vector as it is: every initial layer goes
    through insert_layer (or the vector is fully sorted) — otherwise a combined injection whose content comes earlier in
    the document than another one's is consulted too late and its highlights come out as empty spans outside its content."""
    c = [f for f in F.fn_list if f.name.endswith("Highlighter::highlight") and "TSHighlighter" not in f.name]
    if not c:
        ctx.bad("S2", "highlight:initial-layers-ordered", "Highlighter::highlight not found")
        return
    fn = c[0]
    direct = False
    for pt, e in fn.points():
        for x in own_walk(e):
            if x.get("k") == "agg" and str(x.get("adt")).endswith("HighlightIter"):
                for f in x.get("fields", []):
                    t = rsrules.deep_text(fn, f["e"], user=True)
                    fresh = t.lstrip("&*( ").startswith(("std::vec::Vec::<T>::with_capacity", "std::vec::Vec::<T>::new", "Vec::<T>::new", "Vec::<T>::with_capacity"))
                    if f["f"] == "layers" and "HighlightIterLayer" in t and "::new(" in t and not fresh:
                        direct = True
    ins = calls_named(fn, "insert_layer")
    full = [pt for pt, c2 in fn.calls() if any(k in (c2.get("fn") or "") for k in ("::sort_by", "::sort_unstable_by", "::sort_by_key", "::sort_by_cached_key"))]
    if direct and not full:
        ctx.bad("S2", "highlight:initial-layers-ordered", "Highlighter::highlight installs the vector returned by HighlightIterLayer::new as the iterator's layers and only calls sort_layers(), which moves the "
                "front layer: with two combined injections whose contents appear in the opposite order of their patterns, the second layer's highlights are emitted late as empty spans outside its content")
    elif ins or full:
        ctx.ok("S2", "highlight:initial-layers-ordered", "the initial layers are %s" % ("inserted one by one with insert_layer" if ins else "fully sorted"))
    else:
        ctx.bad("S2", "highlight:initial-layers-ordered", "Highlighter::highlight neither inserts the initial layers with insert_layer nor sorts them")


def rule_l1(ctx, F):
    """L1: a name resolved as a local reference is highlighted like its definition: the emitted
    highlight is `reference_highlight.or(current_highlight)`; a definition's slot receives the highlight
    its own node gets; the look-up matches by name and only definitions whose value ended before the
    reference, searching outwards and stopping at the first scope that does not inherit."""
    nxt = [f for f in F.fn_list if f.name.startswith("<HighlightIter") and f.name.endswith("::next")]
    if not nxt:
        return
    fn = nxt[0]
    starts = [(pt, x) for pt, e in fn.points() for x in own_walk(e) if x.get("k") == "agg" and x.get("variant") == "HighlightStart"]
    ok = False
    for pt, x in starts:
        t = rsrules.deep_text(fn, x, user=True)
        if "Option::<T>::or(" in t:
            ok = True
    ors = [(pt, x) for pt, e in fn.points() for x in own_walk(e) if x.get("k") == "call" and (x.get("fn") or "").endswith("Option::<T>::or") and len(x.get("a", [])) == 2]
    refs, cur = None, None
    if ors:
        refs = rsrules.trace_root(fn, ors[0][1]["a"][0])
        cur = rsrules.trace_root(fn, ors[0][1]["a"][1])
    cur_ok = bool(cur) and any("highlight_indices" in rsrules.deep_text(fn, d, user=False) for i in fn.ids_named(cur) for d in fn.defs(i) if isinstance(d, dict))
    if ok and refs and cur and cur_ok:
        ctx.ok("L1", "next:emits-reference-highlight-first", "HighlightStart carries `%s.or(%s)`; the fallback is the capture's own highlight index" % (refs, cur))
    else:
        ctx.bad("L1", "next:emits-reference-highlight-first", "the HighlightStart event no longer carries reference_highlight.or(current_highlight): a local reference is not highlighted like its definition")
        return
    # the definition slot gets the node's own highlight
    st = [pt for pt, e in fn.points() for x in own_walk(e) if x.get("k") == "assign" and strip(x["l"]).get("k") == "un" and strip(x["l"]).get("op") == "*"
          and rsrules.trace_root(fn, x["r"]) == cur and "Highlight" in (strip(x["r"]).get("t") or "Highlight")]
    if st:
        ctx.ok("L1", "next:definition-slot-gets-own-highlight", "a definition's highlight slot is assigned the highlight its node gets (`%s`)" % cur)
    else:
        ctx.bad("L1", "next:definition-slot-gets-own-highlight", "the local definition's highlight slot is no longer assigned `%s`" % cur)
    # the reference look-up: by name, value ended before the reference, outward, stop at non-inheriting scope
    sets = [pt for pt, e in fn.points() for x in own_walk(e) if x.get("k") == "assign" and strip(x["l"]).get("k") == "ref" and strip(x["l"]).get("name") == refs and strip(x["r"]).get("k") == "ref"
            and not (rsrules.cond_def(fn, x["r"]).get("k") == "agg" and rsrules.cond_def(fn, x["r"]).get("variant") == "None")]
    ctx.floor("assignments of a found definition's highlight to `%s`" % refs, len(sets), 1)
    text_gate(ctx, "L1", fn, sets, [("the reference highlight comes from a definition found in a scope", [(("Iterator::find_map(",), True), (("find_map", "=Some"), True)])], accept_desc="adopting a definition's highlight")
    cl = [f for f in F.fn_list if f.name.startswith(fn.name + "::{closure") and any("value_range" in inline_text(f, e) for _, e in f.points())]
    okc = False
    for f in cl:
        somes = [pt for pt, e in f.points() for x in own_walk(e) if x.get("k") == "assign" and show(x["l"]) == "_0" and strip(x["r"]).get("k") == "agg" and strip(x["r"]).get("variant") == "Some"]
        if somes:
            okc = True
            text_gate(ctx, "L1", f, somes, [("a definition matches only by name", [((".name", "::eq("), True)]),
                                            ("…and only if its value ended at or before the reference", [((">= (*", ").value_range.end)"), True)])], accept_desc="accepting a definition")
    if not okc:
        # the same filter written as a predicate (`.filter(|def| name-test && position-test)`): every answer other than a
        # literal `false` is given under the name test, and is the position test itself or given under it
        for f in cl:
            if str(f.ret or "") != "bool":
                continue
            ans = [(pt, x) for pt, e in f.points() for x in own_walk(e) if x.get("k") == "assign" and show(x["l"]) == "_0"
                   and not (strip(x["r"]).get("k") == "int" and not strip(x["r"]).get("v"))]
            if not ans:
                continue
            okc = True
            text_gate(ctx, "L1", f, [pt for pt, x in ans], [("a definition matches only by name", [((".name", "::eq("), True)])], accept_desc="accepting a definition")
            rest = [pt for pt, x in ans if not _re.search(r">= \(*\(\*+\w+\)\.value_range\)*\.end", rsrules.deep_text(f, x["r"], user=True))]
            if rest:
                text_gate(ctx, "L1", f, rest, [("…and only if its value ended at or before the reference", [((">= (*", ").value_range.end)"), True)])], accept_desc="accepting a definition")
            else:
                ctx.ok("L1", "next:…and only if its value ended at or before the reference", "the predicate's answer under the name test is the position test itself")
    if not okc:
        ctx.bad("L1", "next:definition-filter", "the closure that filters local definitions (name and value_range.end) was not found")
    # "no definition here" and "a definition that has no highlight" are different answers: the innermost definition of the
    # name ends the search even if it is not highlighted (the reference is then not highlighted as a local either), so the
    # look-up closure answers Option<Option<Highlight>> — with a flat Option the search would run on to a shadowed definition
    nested = [f for f in F.fn_list if f.name.startswith(fn.name + "::{closure") and str(f.ret or "").replace("std::option::", "").startswith("Option<Option<")]
    if nested:
        ctx.ok("L3", "next:unhighlighted-definition-ends-the-search", "the definition look-up yields Option<Option<Highlight>> (%s): finding a definition and that definition having a highlight are kept apart" % nested[0].name.split("::")[-1])
    else:
        ctx.bad("L3", "next:unhighlighted-definition-ends-the-search", "no closure of HighlightIter::next answers Option<Option<Highlight>> any more: a matching definition without a highlight is indistinguishable from "
                "no definition, the search continues outwards, and the reference takes the colour of a shadowed definition of the same name")
    brk = None
    for b in fn.blocks.values():
        c = fn.cond(b.id)
        if c is not None and rsrules.cond_text(fn, c, True)[0].endswith(".inherits"):
            brk = b.id
    if brk is not None:
        ctx.ok("L1", "next:search-stops-at-non-inheriting-scope", "the outward search tests `scope.inherits`")
    else:
        ctx.bad("L1", "next:search-stops-at-non-inheriting-scope", "the reference search no longer stops at a scope that does not inherit")


def emptying_points(F, fn, recv_sub, depth=0, seen=()):
    """Points of fn that leave the Vec denoted by `recv_sub` empty: Vec::clear, truncate(0), or a
    call of a local helper that empties its corresponding parameter on every path to its return."""
    pts = []
    for pt, e in fn.points():
        for n in own_walk(e):
            if n.get("k") != "call" or not n.get("a"):
                continue
            name = n.get("fn") or ""
            for i, a in enumerate(n["a"]):
                if recv_sub not in inline_text(fn, a):
                    continue
                if i == 0 and name.endswith("::clear") and "Vec" in name:
                    pts.append(pt)
                elif i == 0 and name.endswith("::truncate") and "Vec" in name and strip(n["a"][1]).get("v") == 0:
                    pts.append(pt)
                else:
                    h = next((f for f in F.fn_list if f.name == name), None)
                    if h is not None and depth < 3 and h.name not in seen and i < len(h.params):
                        inner = emptying_points(F, h, h.params[i]["name"], depth + 1, seen + (fn.name,))
                        if inner and Search(h, BeforeMonitor((), inner, check_exit=True)).run(False) is None:
                            pts.append(pt)
    return pts


def rule_p3(ctx, F):
    """HtmlRenderer::reset leaves every accumulating buffer empty (a reused renderer must not start
    the next document behind the previous one's HTML or line offsets)."""
    fn = find_fn(ctx, F, "HtmlRenderer::reset", "P3")
    if not fn:
        return
    # the buffers render() grows: Vec fields of HtmlRenderer that some method pushes to / extends
    grown = set()
    for f in F.fn_list:
        if "HtmlRenderer" not in f.name:
            continue
        for pt, e in f.points():
            for n in own_walk(e):
                if n.get("k") == "call" and n.get("a") and "Vec" in (n.get("fn") or "") and (n["fn"].endswith("::push") or "extend" in n["fn"]):
                    t = inline_text(f, n["a"][0])
                    for fld in ("html", "line_offsets"):
                        if t.endswith("." + fld):
                            grown.add(fld)
                    if ".html" not in t and ".line_offsets" not in t and "self" in t and "highlights" not in t:
                        grown.add(t.split(".")[-1])
    # per-document scratch: fields stored to while rendering (methods other than new/reset/setters)
    def field_stores(f):
        out = []
        for pt, e in f.points():
            for n in own_walk(e):
                if n.get("k") == "assign":
                    l = strip(n["l"])
                    if l.get("k") == "mem" and l.get("rec") == "HtmlRenderer":
                        out.append((pt, l["f"]))
        return out
    scratch = set()
    for f in F.fn_list:
        short = f.name.split("::")[-1]
        if "HtmlRenderer" in f.name and short not in ("new", "reset", "default") and not short.startswith("set_"):
            scratch.update(fld for pt, fld in field_stores(f))
    scratch -= grown
    ctx.floor("per-document scratch fields of HtmlRenderer", len(scratch), 1)
    for fld in sorted(scratch):
        pts = [pt for pt, f2 in field_stores(fn) if f2 == fld]
        if pts:
            ctx.on_all_paths("P3", "HtmlRenderer::reset:restores-" + fld, fn, pts, "reset() re-initialises `%s`" % fld)
        else:
            ctx.bad("P3", "HtmlRenderer::reset:restores-" + fld, "HtmlRenderer::reset does not re-initialise `%s`, which rendering stores to: a render that ended early (an Err event) leaves it set, "
                    "and the next document rendered with the reused renderer starts from that stale value" % fld, {"function": fn.name, "field": fld})
    ctx.floor("accumulating buffers of HtmlRenderer", len(grown), 2)
    for fld in sorted(grown):
        pts = emptying_points(F, fn, "." + fld)
        ctx.on_all_paths("P3", "HtmlRenderer::reset:empties-" + fld, fn, pts, "reset() empties `%s` (clear / truncate(0), directly or through a helper that does so on all of its paths)" % fld)


def run(ctx):
    # the order in which the highlighter receives captures is the query cursor's: its finished-match heap (C11.P3, run here too)
    for cfg in configs(ctx):
        ctx.config = cfg
        FC = ctx.extract.cfacts(cfg)
        import C11
        C11.rule_p3(ctx, FC)
    ctx.config = "rust"
    F = ctx.extract.rsfacts(CRATE)
    ctx.analysed["rust_functions"] = len(F.fn_list)
    rule_p1(ctx, F)
    rule_g1(ctx, F)
    rule_p2(ctx, F)
    rule_p3(ctx, F)
    rule_p4(ctx, F)
    rule_p5(ctx, F)
    rule_p6(ctx, F)
    rule_p7(ctx, F)
    rule_u1(ctx)
    rule_s1(ctx, F)
    rule_s2(ctx, F)
    rule_l1(ctx, F)
    rule_g2(ctx, F)
    return ctx.finish(
        "Pairing, who-may-construct and gate rules over rustc MIR of tree-sitter-highlight: HighlightStart↔push and HighlightEnd↔pop of the end stack in both directions and nowhere else; "
        "Source spans only from emit_event (advancing byte_offset) and the tail; None only after the tail; raw bytes reach the HTML only unescaped-safe, never CR; final newline. "
        "Does not decide ordering across layers, injection containment or local-reference colouring.")
