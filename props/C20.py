"""C20 — corpus update preserves inputs and converges: reader→writer coverage (DESIGN.md §4 C20).

Decides on rustc MIR of crates/cli/src/test.rs: every text-derived field of a test entry flows, at
each TestCorrection::new call, from the same destructured entry into the corresponding argument;
the writer reads every TestCorrection field; with --update every path through an Example that ends
in Ok(true) records exactly one correction (none = test dropped, more = duplicated); the delimiter
suffix the reader recognises reaches the entry.  Does not decide byte-for-byte idempotence.
"""
from common import *  # noqa: F401,F403
import os
import re
import rsrules
from rsrules import calls_named, trace_root, user_local_def_field, adt, is_loop_next_switch
from taint import Taint, root_var

CRATE = "tree_sitter_cli"
# TestCorrection::new(name, input, output, attributes_str, header_delim_len, divider_delim_len)
ARG_FIELDS = {0: "name", 1: "input", 3: "attributes_str", 4: "header_delim_len", 5: "divider_delim_len"}


def rule_f1(ctx, F):
    fn = ctx.need_fn(F, "test::run_tests", "F1")
    if not fn:
        return
    news = calls_named(fn, "TestCorrection::new")
    ctx.floor("TestCorrection::new calls in run_tests", len(news), 7)
    for k, (pt, c, dest) in enumerate(sorted(news, key=lambda x: x[0])):
        for ai, field in ARG_FIELDS.items():
            key = "run_tests:new#%d:%s" % (k, field)
            root = trace_root(fn, c["a"][ai]) if ai < len(c["a"]) else None
            srcs = user_local_def_field(fn, root) if root else []
            if root and any(f == field and v == "Example" for v, f in srcs):
                ctx.ok("F1", key, "argument %d is `%s`, bound from TestEntry::Example.%s (%s)" % (ai, root, field, fn.loc(pt)),
                       sample={"site": fn.loc(pt), "argument": ai, "local": root, "field": field} if k < 2 else None)
            else:
                ctx.bad("F1", key, "run_tests: TestCorrection::new at %s takes `%s` for %s, which is not the entry's own `%s` (bound from %s)" % (
                    fn.loc(pt), root, field, field, srcs), {"site": fn.loc(pt), "argument": ai, "traced_to": root})
    # the writer reads every field of TestCorrection
    a = adt(F, "test::TestCorrection")
    w = ctx.need_fn(F, "test::write_tests_to_buffer", "F1")
    if a and w:
        read = set()
        bound = {}     # field -> local ids it was bound to by the destructuring pattern
        for pt, e in w.points():
            for n in own_walk(e):
                if n.get("k") == "assign" and strip(n["l"]).get("k") == "ref":
                    for x in walk(n["r"]):
                        if x.get("k") == "mem" and (x.get("rec") or "").endswith("TestCorrection"):
                            bound.setdefault(x["f"], set()).add(strip(n["l"])["id"])
        uses = {}
        for pt, e in w.points():
            for n in own_walk(e):
                tops = [n["r"]] if n.get("k") == "assign" else ([n] if n is e else [])
                for t in tops:
                    for x in walk(t):
                        if x.get("k") == "ref" and x.get("dk") in ("local", "param"):
                            uses[x["id"]] = uses.get(x["id"], 0) + 1
        for f, ids in bound.items():
            if any(uses.get(i, 0) > 0 for i in ids):
                read.add(f)
        for f in a["variants"][0]["fields"]:
            if f["name"] in read:
                ctx.ok("F1", "write_tests_to_buffer:reads:%s" % f["name"], "the writer reads TestCorrection.%s" % f["name"])
            else:
                ctx.bad("F1", "write_tests_to_buffer:reads:%s" % f["name"], "write_tests_to_buffer never reads TestCorrection.%s — what the reader extracted is not written back" % f["name"])
    else:
        ctx.bad("F1", "missing:TestCorrection", "struct TestCorrection / write_tests_to_buffer not found")
    wt = ctx.need_fn(F, "test::write_tests", "F1")
    if wt:
        if calls_named(wt, "write_tests_to_buffer"):
            ctx.ok("F1", "write_tests:delegates", "write_tests hands the corrections to write_tests_to_buffer")
        else:
            ctx.bad("F1", "write_tests:delegates", "write_tests no longer calls write_tests_to_buffer")


def rule_f2(ctx, F):
    fns = [f for f in F.fn_list if f.file == "crates/cli/src/test.rs" and not f.name.startswith("test::tests::")]

    def is_source(n, fn):
        # the suffix component (.1) of a `(usize, &str)` delimiter tuple
        if n.get("k") == "mem" and str(n.get("f")) == "1":
            b = strip(n["b"])
            t = (b.get("t") or "").replace("'_ ", "").replace("&'_", "&")
            return t.replace(" ", "") in ("(usize,&str)",)
        return False
    has_src = sum(1 for f in fns for pt, e in f.points() for n in walk(e) if is_source(n, f))
    ctx.floor("reads of the delimiter suffix component", has_src, 3)
    T = Taint(F, fns, is_source, carrier=lambda t: "str" in t.lower() or "test::Test" in t or "PendingTest" in t or "closure" in t).run()
    sinks = 0
    reached = []
    for f in fns:
        for pt, e in f.points():
            for n in own_walk(e):
                if n.get("k") == "agg" and any(x in (n.get("adt") or "") for x in ("TestEntry", "PendingTest", "TestCorrection")):
                    sinks += 1
                    for fld in n.get("fields", []):
                        if T.expr_tainted(fld["e"], f):
                            reached.append((f.name, f.loc(pt), n.get("adt"), fld["f"]))
    ctx.floor("entry/pending-test constructions in the reader", sinks, 3)
    if reached:
        ctx.ok("F2", "reader-keeps-delimiter-suffix", "the delimiter suffix reaches %s" % reached[:3], sample={"reached": reached[:3]})
    else:
        ctx.bad("F2", "reader-drops-delimiter-suffix", "the suffix recognised after `===`/`---` delimiters (second component of parse_delimiter_line) never flows into a PendingTest/TestEntry/TestCorrection value: "
                "a corpus using `===|||` is rewritten with plain `===`", {"sources": has_src, "sinks": sinks})
    # the length component does reach the entry
    def is_len(n, fn):
        if n.get("k") == "mem" and str(n.get("f")) == "0":
            b = strip(n["b"])
            t = (b.get("t") or "").replace("'_ ", "").replace("&'_", "&")
            return t.replace(" ", "") in ("(usize,&str)",)
        return False
    T2 = Taint(F, fns, is_len).run()
    ok = False
    for f in fns:
        for pt, e in f.points():
            for n in own_walk(e):
                if n.get("k") == "agg" and any(x in (n.get("adt") or "") for x in ("TestEntry", "PendingTest")):
                    for fld in n.get("fields", []):
                        if fld["f"] in ("header_delim_len", "divider_delim_len") and T2.expr_tainted(fld["e"], f):
                            ok = True
    if ok:
        ctx.ok("F2", "reader-keeps-delimiter-length", "the delimiter length reaches header_delim_len/divider_delim_len")
    else:
        ctx.bad("F2", "reader-drops-delimiter-length", "the delimiter length no longer flows into header_delim_len/divider_delim_len")


import re as _re
# conditions on immutable inputs of run_tests (whatever the variables are called)
PURE_RE = [_re.compile(r) for r in (r"^\(\*\w+\)\.update$", r"^\w+\.platform$", r"^test::TestAttributes::skip\(&\w+\)$", r"^test::TestAttributes::error\(&\w+\)$",
                                    r"^\w+\.fail_fast$", r"^\w+\.cst$")]
UPDATE_RE = PURE_RE[0]


def is_pure(txt):
    return any(r.match(txt) for r in PURE_RE)


def update_truth(pure):
    for k, v in pure:
        if UPDATE_RE.match(k):
            return v
    return None


def inline_text(fn, e, depth=0):
    """Render a condition with single-definition temporaries replaced by their definitions."""
    e = strip(e)
    if depth < 6 and e.get("k") == "ref" and str(e.get("name", "")).startswith("_"):
        d = fn.single_def(e["id"])
        if d is not None:
            return inline_text(fn, d, depth + 1)
    if e.get("k") == "call":
        return "%s(%s)" % (e.get("fn"), ", ".join(inline_text(fn, a, depth + 1) for a in e.get("a", [])))
    if e.get("k") == "un":
        return "%s%s" % (e["op"], inline_text(fn, e["e"], depth + 1))
    if e.get("k") == "mem":
        b = inline_text(fn, e["b"], depth + 1)
        return "(%s).%s" % (b, e["f"]) if b.startswith("*") else "%s.%s" % (b, e["f"])
    return show(e)


class CountMonitor(Monitor):
    """m = (pushes 0..2, frozenset of (pure condition text, truth), last _0 kind, iterations 0..1).
    Conditions on immutable inputs (opts.update, attributes.*) are correlated across tests."""

    def __init__(self, fn, push_pts):
        self.fn = fn
        self.push = set(push_pts)

    def elem(self, m, pt, e, s):
        cnt, pure, r, it = m
        if pt in self.push:
            cnt = min(cnt + 1, 2)
        for n in own_walk(e):
            if n.get("k") == "assign" and show(n["l"]) == "_0":
                x = strip(n["r"])
                if x.get("k") == "agg" and x.get("variant") == "Ok":
                    v = strip(x["fields"][0]["e"]).get("v")
                    r = "ok_true" if v == 1 else "ok_false"
                else:
                    r = "other"
        return (cnt, pure, r, it)

    def edge(self, m, bid, edge, cond, truth, s):
        cnt, pure, r, it = m
        if cond is not None and truth is not None:
            a, t = s.m.atom(cond, truth)
            txt = inline_text(self.fn, a)
            if is_pure(txt):
                d = dict(pure)
                if txt in d and d[txt] != t:
                    return PRUNE
                d[txt] = t
                pure = frozenset(d.items())
        if isinstance(edge.lab, dict) and edge.lab.get("name") in ("None", "Some") and is_loop_next_switch(self.fn, bid):
            if edge.lab["name"] == "Some":
                it = 1
            elif it == 0:
                return PRUNE     # `attributes.languages` is never empty (checked separately)
        return (cnt, pure, r, it)

    def exit(self, m, bid, s):
        cnt, pure, r, it = m
        if r == "ok_true" and update_truth(pure) is True and cnt != 1:
            return Viol("dropped" if cnt == 0 else "duplicated")
        return None


def rule_p1(ctx, F):
    fn = ctx.need_fn(F, "test::run_tests", "P1")
    if not fn:
        return
    pushes = [pt for pt, c, d in calls_named(fn, "Vec", "::push") if "TestCorrection" in (c.get("targs") or "")]
    ctx.floor("corrected_entries pushes in run_tests", len(pushes), 7)
    # start at the Example arm
    start = None
    for b in fn.blocks.values():
        for e in b.succs:
            if isinstance(e.lab, dict) and e.lab.get("name") == "Example" and b.id == fn.entry:
                start = e.to
    if start is None:
        ctx.bad("P1", "run_tests:example-arm", "could not find the `TestEntry::Example` arm of run_tests")
        return
    s = Search(fn, CountMonitor(fn, pushes), budget=2000000)
    v = s.run((0, frozenset(), None, 0), start_block=start)
    if v is None:
        ctx.ok("P1", "run_tests:example-recorded-exactly-once", "with --update every path through an Example that returns Ok(true) pushes exactly one correction (%d states)" % s.states,
               sample={"function": fn.name, "pushes": [fn.loc(p) for p in pushes], "states": s.states})
    elif v.msg == "duplicated":
        path = s.render_path(v.path)
        ctx.bad("P1", "run_tests:example-pushed-once-per-language", "with --update an Example can record more than one correction (the push sits inside the loop over `attributes.languages`): "
                "a test with two :language attributes is duplicated in the rewritten file", {"path": path[-10:]})
        # look for drops separately, ignoring duplicates
        class NoDup(CountMonitor):
            def exit(self, m, bid, s2):
                cnt, pure, r, it = m
                if r == "ok_true" and update_truth(pure) is True and cnt == 0:
                    return Viol("dropped")
                return None
        s2 = Search(fn, NoDup(fn, pushes), budget=2000000)
        v2 = s2.run((0, frozenset(), None, 0), start_block=start)
        if v2 is None:
            ctx.ok("P1", "run_tests:example-never-dropped", "with --update no path through an Example that returns Ok(true) records nothing (%d states)" % s2.states)
        else:
            ctx.bad("P1", "run_tests:example-dropped",
                    "with --update a path through an Example returns Ok(true) without recording a correction: the test disappears from the rewritten file", {"path": s2.render_path(v2.path)[-10:]})
    else:
        path = s.render_path(v.path)
        key = "run_tests:example-dropped"
        ctx.bad("P1", key, "with --update a path through an Example returns Ok(true) without recording a correction: the test disappears from the rewritten file", {"path": path[-10:]})
    # languages is never empty
    ph = ctx.need_fn(F, "test::parse_header", "P1")
    if ph:
        aggs = [pt for pt, e in ph.points() for n in own_walk(e) if n.get("k") == "agg" and (n.get("adt") or "").endswith("TestAttributes")]
        push_l = [pt for pt, c, d in calls_named(ph, "Vec", "::push") if "Box<str>" in (c.get("targs") or "")]
        emp = calls_named(ph, "is_empty")
        if aggs and push_l and emp:
            ctx.ok("P1", "parse_header:languages-never-empty", "TestAttributes.languages gets a default entry when none was given (assumption of the path count)")
        else:
            ctx.bad("P1", "parse_header:languages-never-empty", "parse_header no longer guarantees a non-empty `languages` list; the per-language loop in run_tests could then drop a test")
    # Group arm: a filtered-out child records exactly one unchanged correction; the file is written once and the list cleared
    wt = calls_named(fn, "test::write_tests")
    clr = calls_named(fn, "Vec", "::clear")
    if len(wt) == 1 and len(clr) >= 1:
        ctx.before("P1", "run_tests:write-before-clear", fn, [pt for pt, c, d in clr], [pt for pt, c, d in wt] + [], "corrected entries are written before the list is cleared") if False else None
        ctx.ok("P1", "run_tests:write-once-per-file", "write_tests is called at exactly one site (per file group) and the list is cleared afterwards")
    else:
        ctx.bad("P1", "run_tests:write-once-per-file", "expected one write_tests call and a clear of corrected_entries in run_tests (found %d, %d)" % (len(wt), len(clr)))
    if wt:
        ctx.gate("P1", fn, [pt for pt, c, d in wt], [("the file is rewritten only with --update", "(*_).update", True)], accept_desc="rewriting the corpus file")


CORRECTION_LIST_OPS = {"::push": "one entry per test, in file order", "::clear": "after the file was written", "Deref>::deref": "read-only view for write_tests",
                       "::len": "read", "::is_empty": "read", "::iter": "read", "::as_slice": "read"}


def rule_p3(ctx, F):
    """P3: the list of entries that is written back is exactly what was collected: in run_tests the per-file list of
    corrections is only appended to, read, and cleared after the write.  Any reshaping in between (dedup, retain, sort,
    truncate, remove…) drops or reorders tests on --update — e.g. a dedup by name deletes the second of two adjacent tests
    that share a name."""
    import rsrules
    fn = ctx.need_fn(F, "test::run_tests", "P3")
    if not fn:
        return
    lst = fn.params[4]["name"] if len(fn.params) > 4 else "corrected_entries"
    ops = [(pt, c.get("fn") or "") for pt, c in fn.calls() if c.get("a") and rsrules.trace_root(fn, c["a"][0]) == lst and "Vec" in (c.get("fn") or "")]
    ctx.floor("operations on the list of corrected entries in run_tests", len(ops), 5)
    bad = [(pt, f) for pt, f in ops if not any(f.endswith(k) or k in f for k in CORRECTION_LIST_OPS)]
    if bad:
        ctx.bad("P3", "run_tests:corrections-only-appended", "run_tests reshapes the list of entries to be written back with %s at %s: tests are dropped or reordered by --update" % (
            bad[0][1].split("::")[-1], fn.loc(bad[0][0])), {"site": fn.loc(bad[0][0]), "call": bad[0][1]})
    else:
        ctx.ok("P3", "run_tests:corrections-only-appended", "the list handed to write_tests is only pushed to, read and cleared (%d operations)" % len(ops))


def rule_p4(ctx, F):
    """P4: the expected output of a `:cst` test is not an S-expression and is never pretty-printed as one.  Wherever
    run_tests passes a test's *stored* output through format_sexp (to write the test back, or to compare), the test was
    found not to be a `:cst` test — also for tests that are only copied through because a filter excluded them."""
    import rsrules
    from rsrules import text_gate, deep_text
    fn = ctx.need_fn(F, "test::run_tests", "P4")
    if not fn:
        return
    fmt = [pt for pt, c, d in calls_named(fn, "format_sexp") if "as:Example).output" in deep_text(fn, c["a"][0], user=True)]
    ctx.floor("format_sexp calls on a test's stored output in run_tests", len(fmt), 5)
    text_gate(ctx, "P4", fn, fmt, [("the stored output is re-formatted only for a test that is not :cst", [((".cst",), False), (("cst",), False)])], accept_desc="re-formatting a test's stored expected output")


def rule_p5(ctx, F):
    """P5: a test is written back under its own name and with its own text.  Every TestCorrection that run_tests records
    takes its name, input, attribute text and delimiter lengths from fields of one and the same `TestEntry::Example` —
    never from the enclosing group (whose `name` is the file stem and is in scope in the Group arm)."""
    import rsrules
    from rsrules import deep_text
    fn = ctx.need_fn(F, "test::run_tests", "P5")
    if not fn:
        return
    calls = calls_named(fn, "TestCorrection", "::new")
    ctx.floor("TestCorrection::new calls in run_tests", len(calls), 7)
    want = {0: ").as:Example).name", 3: ").as:Example).attributes_str", 4: ").as:Example).header_delim_len", 5: ").as:Example).divider_delim_len"}
    badn = 0
    for pt, c, d in calls:
        texts = [deep_text(fn, a, user=True) for a in c.get("a", [])]
        owners = set()
        for i, suffix in want.items():
            t = texts[i] if i < len(texts) else ""
            if suffix not in t:
                badn += 1
                ctx.bad("P5", "run_tests:correction-fields-from-the-example:arg%d" % i, "run_tests records a correction at %s whose %s is `%s`, not a field of the test entry itself: with --update and a filter "
                        "the test is written back under another name / with other delimiters" % (fn.loc(pt), ("name", "input", "output", "attribute text", "header length", "divider length")[i], t[:70]), {"site": fn.loc(pt)})
            else:
                owners.add(t.split(suffix)[0].lstrip("&*("))
        if len(owners) > 1:
            badn += 1
            ctx.bad("P5", "run_tests:correction-fields-from-one-example", "the fields of the correction recorded at %s come from different entries (%s)" % (fn.loc(pt), sorted(owners)[:2]))
    if not badn:
        ctx.ok("P5", "run_tests:correction-fields-from-the-example", "all %d corrections take name, attribute text and delimiter lengths from the fields of one Example entry" % len(calls))


def rule_p6(ctx, F):
    """P6: the number of `=` on a header's opening line is recorded (the writer re-emits it on both lines) and never
    decides anything: which line closes the header depends only on its being a `=` delimiter line with the file's suffix.
    If the closing line had to be as long as the opening one, a hand-written header whose two lines differ is not closed
    where the user closed it — the test is swallowed or the file is rejected, and --update rewrites the rest."""
    from rsrules import deep_text
    fn = ctx.need_fn(F, "test::parse_header", "P6")
    if not fn:
        return
    rec = [f["e"] for pt, e in fn.points() for x in own_walk(e) if x.get("k") == "agg" and x.get("adt", "").endswith("PendingTest") for f in x.get("fields", []) if f["f"] == "header_delim_len"]
    if not rec:
        ctx.bad("P6", "parse_header:records-opening-length", "parse_header no longer records the opening line's delimiter length in PendingTest.header_delim_len")
        return
    want = deep_text(fn, rec[0], user=True)
    if "parse_delimiter_line(" not in want or "start_line" not in want:
        ctx.bad("P6", "parse_header:records-opening-length", "PendingTest.header_delim_len is `%s`, not the delimiter length parsed from the opening line" % want[:100])
        return
    ctx.ok("P6", "parse_header:records-opening-length", "PendingTest.header_delim_len is the length parsed from lines[start_line]")
    conds = 0
    for b in fn.blocks.values():
        c = fn.cond(b.id)
        if c is None:
            continue
        conds += 1
        t = deep_text(fn, c, user=True)
        if want in t:
            ctx.bad("P6", "parse_header:opening-length-decides-nothing", "parse_header branches on the opening line's `=` count (`%s`): a header whose closing line is shorter or longer than its opening line is no "
                    "longer closed there, so the test is lost or merged into its neighbour" % t[:140], {"site": fn.loc((b.id, 0))})
            return
    ctx.floor("branch conditions in parse_header", conds, 20)
    ctx.ok("P6", "parse_header:opening-length-decides-nothing", "none of parse_header's %d branch conditions reads the opening line's delimiter length" % conds)


def rule_p2(ctx, F):
    """P2: a corpus file is rewritten only from the *complete* list of its tests: write_tests is reached
    only after the loop over the group's children ran to exhaustion (a fail-fast stop must leave the
    file alone, otherwise every test after the failing one is dropped)."""
    import rsrules
    fn = ctx.need_fn(F, "test::run_tests", "P2")
    if not fn:
        return
    rec = [pt for pt, c, d in calls_named(fn, "test::run_tests")]
    wt = [pt for pt, c, d in calls_named(fn, "write_tests")]
    loops = []
    for b in fn.blocks.values():
        if rsrules.is_loop_next_switch(fn, b.id):
            some = [e.to for e in b.succs if isinstance(e.lab, dict) and e.lab.get("name") == "Some"]
            seen, work = set(), list(some)
            while work:
                x = work.pop()
                if x in seen or x == b.id:
                    continue
                seen.add(x)
                work.extend(e.to for e in fn.blocks[x].succs)
            if any(pt[0] in seen for pt in rec):
                loops.append(b.id)
    if not rec or not wt or not loops:
        ctx.bad("P2", "run_tests:children-loop", "the loop over a group's children (containing the recursive run_tests call) or the write_tests call was not found")
        return
    loop_set, wt_set = set(loops), set(wt)

    class Exhausted(Monitor):
        def elem(self, m, pt, e, s):
            if pt in wt_set and not m:
                return Viol("the corpus file is rewritten although the loop over the group's tests was left early", pt)
            return m

        def edge(self, m, bid, edge, cond, truth, s):
            if bid in loop_set and isinstance(edge.lab, dict):
                return edge.lab.get("name") == "None"
            return m
    srch = Search(fn, Exhausted(), budget=3000000)
    v = srch.run(False)
    if v is None:
        ctx.ok("P2", "run_tests:rewrite-only-after-all-children", "write_tests is reached only after the children loop was exhausted (%d states)" % srch.states)
    else:
        ctx.bad("P2", "run_tests:rewrite-only-after-all-children", "run_tests: %s (%s): after a fail-fast stop the file is written from a partial list and the remaining tests disappear" % (v.msg, fn.loc(v.pt)),
                {"path": srch.render_path(v.path)[-6:]})


def rule_p7(ctx, F):
    """P7: the entries collected for one corpus file never reach the next file.  run_tests collects the entries of all
    groups in one shared list; when the loop over a file's tests is exhausted and the group is a file, the list is emptied on
    every path that goes on to the next file (writing is conditional on --update, emptying is not conditional on anything
    else).  If emptying depended on, say, whether a filter selected a test in this file, the file's tests would be written
    at the top of the next file that is rewritten."""
    import rsrules
    from rsrules import cond_text
    fn = ctx.need_fn(F, "test::run_tests", "P7")
    if not fn:
        return
    lst = fn.params[4]["name"] if len(fn.params) > 4 else "corrected_entries"
    clears = set(pt for pt, c in fn.calls() if (c.get("fn") or "").endswith("::clear") and c.get("a") and rsrules.trace_root(fn, c["a"][0]) == lst)
    rec = [pt for pt, c, d in calls_named(fn, "test::run_tests")]
    loops = set()
    for b in fn.blocks.values():
        if rsrules.is_loop_next_switch(fn, b.id):
            some = [e.to for e in b.succs if isinstance(e.lab, dict) and e.lab.get("name") == "Some"]
            seen, work = set(), list(some)
            while work:
                x = work.pop()
                if x in seen or x == b.id:
                    continue
                seen.add(x)
                work.extend(e.to for e in fn.blocks[x].succs)
            if any(pt[0] in seen for pt in rec):
                loops.add(b.id)
    if not clears or not loops:
        ctx.bad("P7", "run_tests:list-emptied-after-each-file", "run_tests no longer empties the shared list of collected entries (clear calls: %d) or the loop over a group's children was not found" % len(clears))
        return

    class PerFile(Monitor):
        # m = (children exhausted, the group is a file, emptied, leaving with an error)
        def elem(self, m, pt, e, s):
            ex, isf, clr, err = m
            if pt in clears:
                clr = True
            for x in own_walk(e):
                if x.get("k") == "call" and "from_residual" in (x.get("fn") or ""):
                    err = True
            return (ex, isf, clr, err)

        def edge(self, m, bid, edge, cond, truth, s):
            ex, isf, clr, err = m
            if bid in loops and isinstance(edge.lab, dict):
                if edge.lab.get("name") == "None":
                    return (True, False, False, False)
                return (False, False, False, False)
            if cond is not None and isinstance(edge.lab, dict):
                txt, _ = cond_text(fn, cond, True)
                if txt.startswith("discriminant(") and "file_path" in txt and edge.lab.get("name") == "Some":
                    isf = True
            return (ex, isf, clr, err)

        def exit(self, m, bid, s):
            ex, isf, clr, err = m
            if ex and isf and not clr and not err:
                return Viol("a file's tests were all visited and run_tests returns normally without emptying the shared list")
            return None
    srch = Search(fn, PerFile(), budget=3000000)
    v = srch.run((False, False, False, False))
    if v is None:
        ctx.ok("P7", "run_tests:list-emptied-after-each-file", "after the loop over a file's tests every normal return has emptied the list of collected entries (%d states)" % srch.states)
    else:
        ctx.bad("P7", "run_tests:list-emptied-after-each-file", "run_tests: %s — the entries of this file are written at the top of the next corpus file that is rewritten (tests move between files; repeated updates keep growing it)" % v.msg,
                {"path": srch.render_path(v.path)[-8:]})


def rule_f3(ctx, F):
    """Delimiter recognition is exact: the only characters ignored after the repeated `=`/`-` are
    line terminators.  (Ignoring more — blanks, arbitrary whitespace — turns input lines into
    dividers and makes --update truncate inputs.)"""
    fn = ctx.need_fn(F, "test::parse_delimiter_line", "F3")
    if not fn:
        return
    trims = [(pt, c) for pt, c in fn.calls() if "::trim" in (c.get("fn") or "") and "trim_start_matches" not in c["fn"]]
    ok = bool(trims)
    why = "no trimming of the delimiter suffix found"
    for pt, c in trims:
        if not (c["fn"].endswith("::trim_end_matches") and "[char; 2]" in (c.get("targs") or "")):
            ok, why = False, "the delimiter suffix is trimmed with `%s`%s, which ignores more than the line terminator" % (c["fn"].split("::")[-1], c.get("targs") or "")
        else:
            # the two characters are \r and \n
            arr = strip(c["a"][1])
            d = fn.single_def(arr["id"]) if arr.get("k") == "ref" else None
            vals = sorted(strip(f["e"]).get("v") for f in strip(d).get("fields", [])) if d is not None and strip(d).get("k") == "agg" else None
            if vals is not None and vals != [10, 13]:
                ok, why = False, "the characters trimmed from a delimiter line are %s, not CR/LF" % vals
    if ok:
        ctx.ok("F3", "parse_delimiter_line:only-line-terminators-ignored", "after the repeated delimiter characters only CR/LF are stripped; anything else is the suffix", sample={"function": fn.name})
    else:
        ctx.bad("F3", "parse_delimiter_line:only-line-terminators-ignored", "parse_delimiter_line: %s — lines of the input that merely look like delimiters become delimiters and `--update` cuts the input there" % why, {"function": fn.name})


def rule_f5(ctx, F):
    """The attribute text written back on --update is `header_lines.strip_prefix(&test_name)`: that
    only works while test_name is the *verbatim* concatenation of the header's leading lines.  So the
    prefix operand may only ever be grown by push_str of an untransformed element of `lines`."""
    import rsrules
    from rsrules import deep_text
    fn = ctx.need_fn(F, "test::parse_header", "F5")
    if not fn:
        return
    sp = [(pt, n) for pt, e in fn.points() for n in own_walk(e) if n.get("k") == "call" and (n.get("fn") or "").endswith("strip_prefix") and len(n.get("a", [])) == 2
          and "String" in deep_text(fn, n["a"][0], user=False)]
    if not sp:
        ctx.bad("F5", "parse_header:attributes-by-prefix", "parse_header no longer derives the attribute text with strip_prefix(name); the rule needs re-reading")
        return
    pref = strip(sp[0][1]["a"][1])
    while pref.get("k") == "un":
        pref = strip(pref["e"])
    root = rsrules.trace_root(fn, pref)
    lines_param = fn.params[0]["name"] if fn.params else "lines"
    muts = []
    for pt, e in fn.points():
        for n in own_walk(e):
            if n.get("k") == "call" and n.get("a") and "String" in (n.get("fn") or "") and "Deref" not in (n.get("fn") or ""):
                a0 = rsrules.cond_def(fn, n["a"][0])
                is_mut = (strip(n["a"][0]).get("t") or "").startswith("&mut") or (a0.get("k") == "un" and a0.get("op") == "&" and a0.get("mut"))
                if is_mut and rsrules.trace_root(fn, n["a"][0]) == root:
                    muts.append((pt, n))
    ctx.floor("mutations of the name prefix in parse_header", len(muts), 1)
    bad = []
    for pt, n in muts:
        short = (n.get("fn") or "").split("::")[-1]
        arg = deep_text(fn, n["a"][1], user=False) if len(n["a"]) > 1 else ""
        if not (short == "push_str" and re.match(r"^&\*\*%s\[\w+\]$" % re.escape(lines_param), arg)):
            bad.append((pt, short, arg))
    if not bad:
        ctx.ok("F5", "parse_header:name-prefix-is-verbatim", "`%s` (the prefix stripped to obtain the attribute text) grows only by push_str of untransformed header lines (%d site(s))" % (root, len(muts)),
               sample={"function": fn.name, "sites": [fn.loc(p) for p, n in muts]})
    else:
        pt, short, arg = bad[0]
        ctx.bad("F5", "parse_header:name-prefix-is-verbatim", "parse_header changes `%s` with %s(%s) at %s: it is no longer a verbatim prefix of the header lines, strip_prefix() fails and the test's attribute lines are silently dropped on --update" % (
            root, short, arg[:80], fn.loc(pt)), {"site": fn.loc(pt)})


def rule_b1(ctx, F):
    """B1 (build_test_entry): the divider is the longest matching `---` line, the later one on ties
    (an earlier same-length line is input text); the input is what precedes it and the output what
    follows it; at most one line terminator is taken off the input; the entry keeps the header's name,
    attribute text and delimiter lengths."""
    import rsrules
    from rsrules import deep_text, text_gate, cond_text
    fn = ctx.need_fn(F, "test::build_test_entry", "B1")
    if not fn:
        return
    ex = [(pt, x) for pt, e in fn.points() for x in own_walk(e) if x.get("k") == "agg" and x.get("variant") == "Example"]
    if not ex:
        ctx.bad("B1", "build_test_entry:builds-example", "build_test_entry no longer constructs TestEntry::Example")
        return
    flds = {f["f"]: f["e"] for f in ex[0][1]["fields"]}
    pend = fn.params[2]["name"] if len(fn.params) > 2 else "pending"
    want = {"name": "(%s).name" % pend, "header_delim_len": "(%s).header_delim_len" % pend, "attributes_str": "(%s).attributes_str" % pend, "attributes": "(%s).attributes" % pend}
    for f, w in want.items():
        t = deep_text(fn, flds.get(f), user=True) if f in flds else "?"
        if t == w:
            ctx.ok("B1", "build_test_entry:entry.%s" % f, "Example.%s = %s" % (f, w), nontrivial=False)
        else:
            ctx.bad("B1", "build_test_entry:entry.%s" % f, "TestEntry::Example.%s is `%s`, not the header's `%s`" % (f, t[:80], w))
    # the divider: which local holds the best candidate?
    dt = deep_text(fn, flds.get("divider_delim_len"), user=True)
    m = re.search(r"Try>::branch\((\w+)\)", dt)
    best = m.group(1) if m else None
    if not best or not dt.endswith(".0).0"):
        ctx.bad("B1", "build_test_entry:divider-length-from-best", "Example.divider_delim_len is no longer the delimiter length of the chosen divider (`%s`)" % dt[:100])
        return
    ctx.ok("B1", "build_test_entry:divider-length-from-best", "Example.divider_delim_len is the chosen divider's delimiter length")
    elems = dict(fn.points())
    sets = []
    for pt, e in fn.points():
        for x in own_walk(e):
            if x.get("k") == "assign" and strip(x["l"]).get("k") == "ref" and strip(x["l"]).get("name") == best:
                r = rsrules.cond_def(fn, x["r"])
                if r.get("k") == "agg" and r.get("variant") == "Some":
                    sets.append(pt)
    ctx.floor("updates of the best divider", len(sets), 1)
    text_gate(ctx, "B1", fn, sets, [
        ("a candidate is a line of dashes", [(("parse_delimiter_line(", ", 45)", "=Some"), True)]),
        ("…whose suffix matches the header's", [(("suffix_matches(",), True)]),
        ("…at least as long as the best so far (the later line wins a tie)", [((" >= ",), True)]),
    ], accept_desc="choosing a divider")
    # …and what is compared is the delimiter as parsed (dashes + suffix), not the raw line: the raw line carries its terminator,
    # and the writer emits LF after its own dividers whatever the input's line endings are
    cmp_ok, cmp_seen = True, 0
    for b in fn.blocks.values():
        c = fn.cond(b.id)
        if c is None:
            continue
        d = rsrules.cond_def(fn, c)
        if d.get("k") == "bin" and d.get("op") in (">=", "<=", "Ge", "Le") and ("best" in deep_text(fn, d, user=False)):
            cmp_seen += 1
            sides = [deep_text(fn, d["l"], user=True), deep_text(fn, d["r"], user=True)]
            cand = [t for t in sides if "best" not in t.split("(")[0]] or sides
            if not any("parse_delimiter_line(" in t for t in cand):
                cmp_ok = False
                ctx.bad("B1", "build_test_entry:tie-compares-parsed-delimiter", "the divider candidates are compared by `%s`, which is not the length of the parsed delimiter (dashes + suffix): a raw line length includes the "
                        "line terminator, so a `---` line of the input ending in CRLF beats the writer's LF-terminated divider of the same length" % cand[0][:80], {"site": fn.loc((b.id, 0))})
    if cmp_seen and cmp_ok:
        ctx.ok("B1", "build_test_entry:tie-compares-parsed-delimiter", "the length compared against the best so far is computed from parse_delimiter_line's result (dashes and suffix, no terminator)")
    elif not cmp_seen:
        ctx.bad("B1", "build_test_entry:tie-compares-parsed-delimiter", "no `>=` comparison against the best divider length found in build_test_entry")
    # input before / output after
    idx = [(pt, x) for pt, e in fn.points() for x in own_walk(e) if x.get("k") == "call" and "Index" in (x.get("fn") or "") and x.get("a") and rsrules.trace_root(fn, x["a"][0]) == fn.params[0]["name"]]
    texts = [deep_text(fn, x["a"][1], user=True) for pt, x in idx]
    before = any(t.startswith("RangeTo") and ".1" in t for t in texts)
    after = any(t.startswith("RangeFrom") and "+ 1" in t for t in texts)
    if before and after:
        ctx.ok("B1", "build_test_entry:input-before-output-after", "input = lines[..divider], output = lines[divider + 1..]")
    else:
        ctx.bad("B1", "build_test_entry:input-before-output-after", "build_test_entry no longer slices the body as [..divider] / [divider + 1..] (slices: %s)" % [t[:60] for t in texts])
    pops = [pt for pt, e in fn.points() for x in own_walk(e) if x.get("k") == "call" and (x.get("fn") or "").endswith("::pop")]
    cyc = []
    for pt in pops:
        seen, work = set(), [e.to for e in fn.blocks[pt[0]].succs]
        while work:
            b = work.pop()
            if b in seen:
                continue
            seen.add(b)
            work.extend(e.to for e in fn.blocks[b].succs)
        if pt[0] in seen:
            cyc.append(pt)
    if pops and not cyc and len(pops) <= 2:
        ctx.ok("B1", "build_test_entry:strips-one-terminator", "at most one LF and one CR are taken off the end of the input (%d pops, none in a loop)" % len(pops))
    else:
        ctx.bad("B1", "build_test_entry:strips-one-terminator", "build_test_entry strips the end of the input with %d pops (%d inside a loop): inputs ending in blank lines lose them on --update" % (len(pops), len(cyc)))


def rule_w1(ctx, F):
    """W1 (writer): both header lines are `=` repeated header_delim_len times and the divider is `-`
    repeated divider_delim_len times — the remembered lengths, each with its own character."""
    import rsrules
    from rsrules import deep_text
    fn = ctx.need_fn(F, "test::write_tests_to_buffer", "W1")
    if not fn:
        return
    seen = []
    for pt, e in fn.points():
        for x in own_walk(e):
            if x.get("k") == "call" and (x.get("fn") or "").endswith("str>::repeat") and len(x.get("a", [])) == 2:
                lit = deep_text(fn, x["a"][0], user=True)
                cnt = deep_text(fn, x["a"][1], user=True)
                ch = "=" if '"="' in lit else "-" if '"-"' in lit else lit[:10]
                fld = "header_delim_len" if cnt.endswith(".header_delim_len") else "divider_delim_len" if cnt.endswith(".divider_delim_len") else cnt[-30:]
                seen.append((ch, fld))
    want = sorted([("=", "header_delim_len"), ("=", "header_delim_len"), ("-", "divider_delim_len")])
    if sorted(seen) == want:
        ctx.ok("W1", "write_tests_to_buffer:delimiters-with-remembered-lengths", "`=` × header_delim_len twice, `-` × divider_delim_len once")
    else:
        ctx.bad("W1", "write_tests_to_buffer:delimiters-with-remembered-lengths", "the writer's delimiter lines are %s, expected %s: delimiter lengths are not preserved on --update" % (sorted(seen), want))
    tr = [pt for pt, e in fn.points() for x in own_walk(e) if x.get("k") == "call" and (x.get("fn") or "").endswith("str>::trim") and deep_text(fn, x["a"][0], user=True).rstrip(")").endswith(".output")]
    if tr:
        ctx.ok("W1", "write_tests_to_buffer:output-trimmed", "the expected output is written trimmed")
    else:
        ctx.bad("W1", "write_tests_to_buffer:output-trimmed", "the writer no longer writes `output.trim()`; a second --update would change the file again")


def rule_f4(ctx, F):
    """The field stripper recognises every plain-identifier field name (ASCII letters, digits and
    `_` — the alphabet the generator's own identifier sanitiser passes through unchanged).  A
    narrower class leaves `name1: (` in the rewritten expectation; the next run then sees `: (`,
    compares with fields shown, and the freshly updated test fails / is rewritten again."""
    import rsrules
    fn = ctx.need_fn(F, "test::strip_sexp_fields", "F4")
    if not fn:
        return
    need = rsrules._ALPHA | rsrules._DIGIT | frozenset([95])
    src = "table [A-Za-z0-9_]"
    # the alphabet the grammar DSL admits for field names (crates/generate/src/dsl.js: function field)
    try:
        import re as _re
        js = open(os.path.join(ctx.extract.REPO, "crates/generate/src/dsl.js")).read()
        m = _re.search(r"function field\(name, rule\) \{.*?/\^((?:\[[^\]]+\][*+?]?)+)\$/", js, _re.S)
        if m:
            dsl = set()
            for cls in _re.findall(r"\[([^\]]+)\]", m.group(1)):
                i = 0
                while i < len(cls):
                    if i + 2 < len(cls) and cls[i + 1] == "-":
                        dsl.update(range(ord(cls[i]), ord(cls[i + 2]) + 1)); i += 3
                    else:
                        dsl.add(ord(cls[i])); i += 1
            if dsl and all(c < 128 for c in dsl):
                need = frozenset(dsl)
                src = "dsl.js field(): /^%s$/" % m.group(1)
    except OSError:
        pass
    cl = [f for f in F.fn_list if f.name.startswith("test::strip_sexp_fields::{closure") and len(f.params) == 2 and f.params[1]["t"] in ("u8", "char")]
    ctx.floor("field-name character classifiers in strip_sexp_fields", len(cl), 1)
    for f in cl:
        acc = rsrules.ascii_class(f)
        key = "strip_sexp_fields:field-name-class-covers-identifiers"
        if acc is None:
            ctx.bad("F4", key, "could not evaluate the character class of %s (%s:%d) — not a loop-free predicate over std classifiers and constants" % (f.name, f.file, f.line), {"function": f.name})
        elif need <= acc:
            ctx.ok("F4", key, "the field-name class accepts every character the grammar DSL admits in a field name (%s; %d ASCII code points accepted; P(ASCII) dataflow over the closure's MIR)" % (src, len(acc)),
                   sample={"function": f.name, "accepted": "".join(chr(c) for c in sorted(acc) if 32 < c < 127)})
        else:
            miss = "".join(chr(c) for c in sorted(need - acc))
            ctx.bad("F4", key, "strip_sexp_fields no longer recognises field names containing `%s` (%s:%d): such fields survive the stripping, and an updated test fails on the next run" % (miss, f.file, f.line),
                    {"function": f.name, "missing": miss})


def run(ctx):
    ctx.config = "rust"
    F = ctx.extract.rsfacts(CRATE)
    ctx.analysed["rust_functions"] = len(F.fn_list)
    rule_f1(ctx, F)
    rule_f2(ctx, F)
    rule_p1(ctx, F)
    rule_f3(ctx, F)
    rule_f4(ctx, F)
    rule_f5(ctx, F)
    rule_b1(ctx, F)
    rule_w1(ctx, F)
    rule_p2(ctx, F)
    rule_p3(ctx, F)
    rule_p4(ctx, F)
    rule_p5(ctx, F)
    rule_p6(ctx, F)
    rule_p7(ctx, F)
    return ctx.finish(
        "Field-flow, taint and path-counting rules over rustc MIR of crates/cli/src/test.rs: each TestCorrection is built from the entry's own name/input/attributes/delimiter lengths; "
        "the writer reads every field; with --update each Example path to Ok(true) records exactly one correction; the recognised delimiter suffix must reach the entry. "
        "Does not decide byte-for-byte idempotence or S-expression formatting.")
