"""C08 — trees are persistent values, safe across threads (DESIGN.md §4 C08).

Decides: no non-atomic write to a shared node's reference count exists; every conversion of a shared
Subtree into a MutableSubtree is one of the tabled sites and satisfies its licence class; functions
that write node payload are exactly the tabled ones; nothing reachable from the read-only tree API
writes node payload; roots are retained before being shared.  Does not decide interleavings.
"""
from common import *  # noqa: F401,F403
from cstores import stores, heap_store, writes_record, lvalue_chain, roots

FRESH_CTORS = {"ts_subtree_new_leaf", "ts_subtree_new_error", "ts_subtree_new_node", "ts_subtree_clone",
               "ts_subtree_new_missing_leaf", "ts_subtree_new_error_node", "ts_subtree_pool_allocate", "ts_malloc", "ts_calloc",
               "ts_current_malloc", "ts_current_calloc"}

# Functions allowed to store into SubtreeHeapData fields / child slots, with the reason (who-may-write).
HEAP_WRITERS = {
    "ts_subtree_new_leaf": "constructor: writes the node it just allocated",
    "ts_subtree_new_error": "constructor: node fresh from ts_subtree_new_leaf",
    "ts_subtree_new_error_node": "constructor: node fresh from ts_subtree_new_node",
    "ts_subtree_new_missing_leaf": "constructor: node fresh from ts_subtree_new_leaf",
    "ts_subtree_new_node": "constructor: header placed behind the caller-owned children array",
    "ts_subtree_clone": "constructor: private copy",
    "ts_subtree_summarize_children": "writes only through its MutableSubtree parameter",
    "ts_subtree_set_symbol": "writes only through its MutableSubtree* parameter",
    "ts_subtree_set_extra": "writes only through its MutableSubtree* parameter",
    "ts_subtree_set_has_changes": "writes only through its MutableSubtree* parameter",
    "ts_subtree_compress": "rotation of exclusively owned nodes (ref_count guards, C08.W1)",
    "ts_subtree_edit": "copy-on-write: every node written comes from ts_subtree_make_mut or is freshly allocated",
    "ts_parser__lex": "external-scanner state stored on the token just created",
    "ts_parser__reduce": "fragility/extra flags on the parent just created by ts_subtree_new_node",
}
MUTPARAM = {"ts_subtree_summarize_children": 0, "ts_subtree_set_symbol": 0, "ts_subtree_set_extra": 0,
            "ts_subtree_set_has_changes": 0}

READONLY_FILES = ("lib/src/node.c", "lib/src/tree_cursor.c", "lib/src/get_changed_ranges.c", "lib/src/query.c")
READONLY_ROOTS = ("ts_tree_root_node", "ts_tree_root_node_with_offset", "ts_tree_included_ranges", "ts_tree_copy",
                  "ts_tree_language", "ts_tree_get_changed_ranges", "ts_tree_print_dot_graph")


def heap_writers(F):
    w = {}
    for fn in F.fn_list:
        for pt, n, l, op in stores(fn):
            d = heap_store(l)
            if d:
                w.setdefault(fn.name, []).append((pt, n, l, d))
    return w


def rule_w2(ctx, F):
    """ref_count of SubtreeHeapData: only `= 1` on fresh nodes, otherwise atomics."""
    n_const = n_atomic = 0
    for fn in F.fn_list:
        for pt, n, l, op in stores(fn):
            f = writes_record(l, "SubtreeHeapData")
            if f == "ref_count":
                key = "%s:ref_count-store" % fn.name
                r = strip(n.get("r") or {})
                if op == "=" and r.get("k") == "int" and r.get("v") == 1 and fn.name in ("ts_subtree_clone", "ts_subtree_edit"):
                    n_const += 1
                    ctx.ok("W2", key, "ref_count = 1 on a freshly allocated node at %s" % fn.loc(pt), sample={"site": fn.loc(pt), "expr": show(n)})
                else:
                    ctx.bad("W2", key, "non-atomic store to a shared node's ref_count: `%s` at %s" % (show(n), fn.loc(pt)),
                            {"function": fn.name, "site": fn.loc(pt), "expr": show(n)})
            elif f == "*":
                # whole-struct initialisation `*data = (SubtreeHeapData){...}`: ref_count must be the constant 1
                r = strip(n.get("r") or {})
                key = "%s:whole-node-init" % fn.name
                rc = [x for x in r.get("fields", []) if x["f"] == "ref_count"] if r.get("k") == "init" else []
                if fn.name in ("ts_subtree_new_leaf", "ts_subtree_new_node") and rc and strip(rc[0]["e"]).get("v") == 1:
                    n_const += 1
                    ctx.ok("W2", key, "fresh node initialised with ref_count = 1 at %s" % fn.loc(pt), sample={"site": fn.loc(pt)})
                else:
                    ctx.bad("W2", key, "whole-node store that does not set ref_count = 1 in a constructor: %s" % fn.loc(pt), {"site": fn.loc(pt)})
        # address of ref_count may only be passed to atomic_inc / atomic_dec
        for pt, e in fn.points():
            for n in own_walk(e):
                if n.get("k") == "un" and n["op"] == "&" and strip(n["e"]).get("k") == "mem" and strip(n["e"])["f"] == "ref_count" and strip(n["e"]).get("rec") == "SubtreeHeapData":
                    ok = False
                    for c in own_walk(e):
                        if c.get("k") == "call" and c.get("fn") in ("atomic_inc", "atomic_dec") and any(x is n for a in c["a"] for x in walk(a)):
                            ok = True
                    key = "%s:&ref_count" % fn.name
                    if ok:
                        n_atomic += 1
                        ctx.ok("W2", key + ":%d" % n_atomic, "&node->ref_count passed to an atomic helper at %s" % fn.loc(pt), sample={"site": fn.loc(pt), "expr": show(e)[:120]})
                    else:
                        ctx.bad("W2", key, "address of a shared node's ref_count escapes to something other than atomic_inc/atomic_dec at %s" % fn.loc(pt), {"site": fn.loc(pt), "expr": show(e)[:200]})
    ctx.floor("constant ref_count initialisations", n_const, 4)
    ctx.floor("atomic ref_count updates", n_atomic, 3)
    # the atomic helpers really are atomic in the configuration compiled
    for name in ("atomic_inc", "atomic_dec"):
        fn = ctx.need_fn(F, name, "W2")
        if not fn:
            continue
        atomic_calls = [c for _, c in fn.calls() if c.get("builtin") and (c.get("atomic") or (c.get("fn") or "").startswith("__sync_") or (c.get("fn") or "").startswith("__atomic_"))]
        plain = [n for pt, n, l, op in stores(fn)]
        if atomic_calls and not plain:
            ctx.ok("W2", name + ":is-atomic", "%s is implemented by %s and contains no plain store" % (name, atomic_calls[0]["fn"]),
                   sample={"function": name, "builtin": atomic_calls[0]["fn"]})
        else:
            ctx.bad("W2", name + ":is-atomic", "%s is not an atomic read-modify-write in the compiled configuration (atomic builtins: %d, plain stores: %d)" % (name, len(atomic_calls), len(plain)),
                    {"function": name, "file": fn.file})


def all_defs_fresh(fn, name, depth=0):
    """Every definition of local `name` is a fresh-constructor call, or an address computed from
    a local that is itself fresh (memory just obtained from the allocator)."""
    fn.defs(0)
    ids = [i for i, nm in fn._names.items() if nm == name]
    if not ids or depth > 4:
        return False, "no local named %s" % name
    for i in ids:
        for d in fn.defs(i):
            if d is None:
                return False, "modified in place"
            if d.get("k") == "uninit":
                continue
            if d.get("k") == "param":
                return False, "is a parameter"
            d2 = strip(d)
            if d2.get("k") == "call":
                if callee_name(d2) in FRESH_CTORS:
                    continue
                return False, "defined as `%s`" % show(d)[:100]
            refs = [n["name"] for n in walk(d2) if n.get("k") == "ref" and n.get("dk") == "local"]
            base = [r for r in refs if r != name]
            if base and all(all_defs_fresh(fn, r, depth + 1)[0] for r in base[:1]):
                continue
            return False, "defined as `%s`" % show(d)[:100]
    return True, ""


def rule_w1(ctx, F, writers):
    """Every Subtree → MutableSubtree conversion is tabled and satisfies its class."""
    sites = []
    for fn in F.fn_list:
        ordinal = {}
        for pt, e in sorted(fn.points()):
            for n in own_walk(e):
                kind = None
                if n.get("k") == "call" and n.get("fn") == "ts_subtree_to_mut_unsafe":
                    kind = "to_mut"
                elif n.get("k") == "init" and n.get("t") == "MutableSubtree":
                    kind = "literal"
                elif n.get("k") == "cast" and n.get("dropconst") and n.get("to", "").replace(" ", "") in ("SubtreeHeapData*",):
                    kind = "constcast"
                if kind:
                    o = ordinal.get(kind, 0)
                    ordinal[kind] = o + 1
                    sites.append((fn, pt, n, kind, o))
    table = {
        # (function, kind) -> (class, expected count, argument for the class check)
        ("ts_parser__lex", "to_mut"): ("FRESH", 1, "result"),
        ("ts_subtree_new_error", "constcast"): ("FRESH", 1, "result"),
        ("ts_subtree_new_missing_leaf", "constcast"): ("FRESH", 1, "result"),
        ("ts_subtree_clone", "literal"): ("FRESH", 1, "result"),
        ("ts_subtree_new_node", "literal"): ("OWNED_ARRAY", 1, "data"),
        ("ts_subtree_pool_free", "literal"): ("POOL", 1, None),
        ("ts_subtree_make_mut", "to_mut"): ("GUARDED", 1, [("self.ptr->ref_count == 1", True)]),
        ("ts_subtree_make_mut", "literal"): ("INLINE", 1, [("self.data.is_inline", True)]),
        ("ts_parser__balance_subtree", "to_mut"): ("GUARDED_ARG", 2, None),
        ("ts_subtree_compress", "to_mut"): ("COMPRESS", 4, None),
        ("ts_subtree_release", "to_mut"): ("DEC_TO_ZERO", 2, None),
        ("ts_subtree_compare", "to_mut"): ("READONLY", 4, None),
        ("ts_subtree_to_mut_unsafe", "literal"): ("DEFINITION", 0, None),
    }
    seen = {}
    for fn, pt, n, kind, o in sites:
        k = (fn.name, kind)
        seen[k] = seen.get(k, 0) + 1
        key = "%s:%s#%d" % (fn.name, kind, o)
        if k not in table:
            ctx.bad("W1", key, "untabled conversion of a shared Subtree into a mutable one: `%s` at %s" % (show(n)[:80], fn.loc(pt)),
                    {"function": fn.name, "site": fn.loc(pt), "expr": show(n)[:200]})
            continue
        cls, cnt, arg = table[k]
        site = {"function": fn.name, "site": fn.loc(pt), "class": cls, "expr": show(n)[:100]}
        if cls in ("FRESH", "OWNED_ARRAY"):
            # the variable actually converted at this site (whatever it is called)
            src = n["a"][0] if kind == "to_mut" else (n["e"] if kind == "constcast" else next((f["e"] for f in n.get("fields", []) if not f.get("implicit")), {}))
            rv = [x["name"] for x in walk(strip(src)) if x.get("k") == "ref" and x.get("dk") == "local"]
            if rv:
                arg = rv[0]
        if cls == "FRESH":
            ok, why = all_defs_fresh(fn, arg)
            if ok:
                ctx.ok("W1", key, "FRESH: every definition of `%s` in %s is a constructor/allocation" % (arg, fn.name), sample=site)
            else:
                ctx.bad("W1", key, "%s: mutable view of `%s` at %s, but `%s` is not always fresh (%s)" % (fn.name, arg, fn.loc(pt), arg, why), site)
        elif cls == "OWNED_ARRAY":
            ids = fn.ids_named(arg)
            d = fn.single_def(ids[0]) if ids else None
            arrp = [q["name"] for q in fn.params if q["t"].startswith("SubtreeArray *")]
            ok = d is not None and arrp and M(fn).match("&%s->contents[%s->size]" % (arrp[0], arrp[0]), strip(d))
            grow = find(fn, "_array__reserve(...)") or find(fn, "children->contents = _") or find(fn, "ts_realloc(...)")
            if ok and grow:
                ctx.ok("W1", key, "OWNED_ARRAY: the node header is placed behind the caller's private children array (grown in this function)", sample=site)
            else:
                ctx.bad("W1", key, "%s: node header no longer placed in the caller-owned children array" % fn.name, site)
        elif cls in ("GUARDED", "INLINE"):
            ctx.gate("W1", fn, [pt], [("%s %s#%d: %s" % (cls, kind, o, p), p, w) for p, w in arg], accept_desc="the in-place mutable view")
        elif cls == "GUARDED_ARG":
            a = n["a"][0]
            nm = show(a)
            ctx.gate("W1", fn, [pt], [("GUARDED %s#%d: %s.ptr->ref_count == 1" % (kind, o, nm), "%s.ptr->ref_count == 1" % nm, True)],
                     kill_names=(nm,), accept_desc="pushing the node for in-place balancing")
        elif cls == "DEC_TO_ZERO":
            a = show(n["a"][0])
            ctx.gate("W1", fn, [pt], [("DEC_TO_ZERO %s#%d: atomic_dec(&%s.ptr->ref_count) == 0" % (kind, o, a), "atomic_dec(&%s.ptr->ref_count) == 0" % a, True)],
                     kill_names=(a,), accept_desc="taking the node for destruction")
        elif cls == "READONLY":
            bad = [c for c in F.callees(fn) if c in writers]
            if fn.name in writers or bad:
                ctx.bad("W1", key, "%s was tabled READONLY but writes node payload (%s)" % (fn.name, bad or "directly"), site)
            else:
                ctx.ok("W1", key, "READONLY: %s neither stores into node payload nor calls a function that does" % fn.name, sample=site)
        elif cls == "POOL":
            callers = sorted({c[0].name for c in F.callers().get(fn.name, [])})
            if callers == ["ts_subtree_release"]:
                ctx.ok("W1", key, "POOL: only ts_subtree_release (after the count reached zero) calls %s" % fn.name, sample=site)
            else:
                ctx.bad("W1", key, "%s is called from %s; only ts_subtree_release may recycle nodes" % (fn.name, callers), site)
        elif cls == "COMPRESS":
            pass  # checked as a whole below
        elif cls == "DEFINITION":
            ctx.ok("W1", key, "definition of the conversion itself", nontrivial=False)
    for k, (cls, cnt, arg) in table.items():
        if seen.get(k, 0) != cnt and cls != "DEFINITION":
            ctx.bad("W1", "%s:%s:count" % k, "expected %d `%s` site(s) in %s (class %s), found %d — table and code disagree" % (cnt, k[1], k[0], cls, seen.get(k, 0)))
    ctx.floor("Subtree→MutableSubtree conversion sites", len(sites), 19)

    # ts_subtree_compress: every store into tree/child/grandchild slots and every push for the
    # unwinding loop is dominated by the three `ref_count > 1 → break` guards.
    fn = ctx.need_fn(F, "ts_subtree_compress", "W1")
    if fn:
        st = [(pt, n, l, d) for pt, n, l, d in writers.get(fn.name, [])]
        slot_pts = sorted({pt for pt, n, l, d in st if d == "childslot"})
        push_pts = [pt for pt, n in find(fn, "_array__grow(...)")]
        acc = slot_pts + push_pts
        ctx.floor("child-slot stores in ts_subtree_compress", len(slot_pts), 3)
        preds = []
        for nm in ("tree", "child", "grandchild"):
            preds.append(("COMPRESS: %s is exclusively owned" % nm, "%s.ptr->ref_count > 1" % nm, False))
        ctx.gate("W1", fn, acc, preds, accept_desc="rotation store / push for re-summarising")
        # the unwinding loop only touches nodes popped from `stack` above its initial size
        pops = [pt for pt, n in find(fn, "tree = (stack)->contents[_]")] or [pt for pt, n in find(fn, "tree = _") if "contents" in show(n)]
        sums = [pt for pt, n in find(fn, "ts_subtree_summarize_children(...)")]
        ctx.floor("re-summarise calls in ts_subtree_compress", len(sums), 3)
        if pops:
            ctx.before("W1", "ts_subtree_compress:ROTATED-nodes-come-from-stack", fn, sums, pops,
                       "ROTATED: nodes re-summarised in the unwinding loop are popped from the stack that only received guarded nodes")
        else:
            ctx.bad("W1", "ts_subtree_compress:ROTATED-nodes-come-from-stack", "could not find `tree = array_pop(stack)` in the unwinding loop")

    # ts_subtree_make_mut: the shared path clones and releases
    fn = ctx.need_fn(F, "ts_subtree_make_mut", "W1")
    if fn:
        rets = [pt for pt, e in fn.points() if e.get("k") == "ret"]
        clone = [pt for pt, n in find(fn, "ts_subtree_clone(self)")]
        rel = [pt for pt, n in find(fn, "ts_subtree_release(pool, self)")]
        final = [pt for pt, e in fn.points() if e.get("k") == "ret" and M(fn, inline=False).match("result", e["e"])]
        ctx.before("W1", "ts_subtree_make_mut:shared-path-clones", fn, final, clone, "the non-exclusive path returns a clone")
        ctx.before("W1", "ts_subtree_make_mut:shared-path-releases-original", fn, final, rel, "the non-exclusive path drops its reference to the shared original")


def rule_writers(ctx, F, writers):
    for name, sts in sorted(writers.items()):
        if name not in HEAP_WRITERS:
            pt, n, l, d = sts[0]
            fn = F.fn(name)
            ctx.bad("W1", "%s:untabled-node-writer" % name, "%s stores into a shared node (%s, `%s` at %s) but is not one of the tabled writers" % (name, d, show(n)[:80], fn.loc(pt)),
                    {"function": name, "site": fn.loc(pt), "stores": len(sts)})
        else:
            ctx.ok("W1", "%s:node-writer" % name, "%d store(s); %s" % (len(sts), HEAP_WRITERS[name]), sample={"function": name, "stores": len(sts), "why": HEAP_WRITERS[name]})
    ctx.floor("functions storing into node payload", len(writers), 12)
    # MUTPARAM functions write only through their MutableSubtree parameter
    for name, pidx in MUTPARAM.items():
        fn = F.fn(name)
        if not fn or pidx >= len(fn.params):
            continue
        p = fn.params[pidx]["name"]
        bad = [(pt, n) for pt, n, l, d in writers.get(name, []) if p not in roots(l)]
        if bad:
            ctx.bad("W1", "%s:writes-only-through-%s" % (name, p), "%s stores into a node not reached through its MutableSubtree parameter: `%s` at %s" % (name, show(bad[0][1])[:80], fn.loc(bad[0][0])))
        else:
            ctx.ok("W1", "%s:writes-only-through-%s" % (name, p), "all %d node stores go through parameter `%s`" % (len(writers.get(name, [])), p))
        prm = [q for q in fn.params if q["name"] == p]
        if not prm or "MutableSubtree" not in prm[0]["t"]:
            ctx.bad("W1", "%s:param-type" % name, "parameter %s of %s is no longer a MutableSubtree" % (p, name))


def rule_w3(ctx, F, writers):
    roots_ = [fn.name for fn in F.fn_list if fn.file in READONLY_FILES] + [r for r in READONLY_ROOTS]
    missing = [r for r in READONLY_ROOTS if r not in F.fns]
    for r in missing:
        ctx.bad("W3", "missing-root:" + r, "read-only API function %s not found" % r)
    reach = F.reachable_from(roots_)
    ctx.analysed["readonly_api_closure"] = len(reach)
    bad = sorted(reach & (set(writers) | {"ts_subtree_to_mut_unsafe", "ts_subtree_make_mut"}))
    if bad:
        for b in bad:
            # find a caller chain for the report
            ctx.bad("W3", "readonly-api-reaches:" + b, "a function reachable from the read-only tree API (node.c, tree_cursor.c, get_changed_ranges.c, query.c, ts_tree_copy/root_node/included_ranges) writes node payload: %s" % b,
                    {"writer": b})
    else:
        ctx.ok("W3", "readonly-api-closure", "%d functions reachable from the read-only tree API; none stores into node payload or takes a mutable view" % len(reach),
               sample={"roots": len(roots_), "closure": len(reach)})
    ctx.floor("read-only API closure size", len(reach), 300)


def rule_p1(ctx, F):
    fn = ctx.need_fn(F, "ts_tree_copy", "P1")
    if fn:
        uses = [pt for pt, n in find(fn, "ts_tree_new(self->root, ...)")]
        g = [pt for pt, n in find(fn, "ts_subtree_retain(self->root)")]
        ctx.before("P1", "ts_tree_copy:retain-before-share", fn, uses, g, "ts_subtree_retain(self->root) precedes ts_tree_new(self->root, …)")
    fn = ctx.need_fn(F, "ts_parser_parse", "P1")
    if fn:
        uses = [pt for pt, n in find(fn, "self->old_tree = old_tree->root")]
        g = [pt for pt, n in find(fn, "ts_subtree_retain(old_tree->root)")]
        ctx.before("P1", "ts_parser_parse:retain-before-share", fn, uses, g, "ts_subtree_retain(old_tree->root) precedes self->old_tree = old_tree->root")
    fn = ctx.need_fn(F, "ts_tree_edit", "P1")
    if fn:
        st = find(fn, "self->root = ts_subtree_edit(self->root, edit, _)")
        others = [(pt, n) for pt, n, l, op in stores(fn) if writes_record(l, "TSTree") == "root"]
        if len(st) == 1 and len(others) == 1:
            ctx.ok("P1", "ts_tree_edit:root-is-cow-result", "the only store to root is the copy-on-write result of ts_subtree_edit", sample={"site": fn.loc(st[0][0])})
        else:
            ctx.bad("P1", "ts_tree_edit:root-is-cow-result", "ts_tree_edit must assign self->root exactly once, from ts_subtree_edit(self->root, edit, pool) (found %d matching of %d stores)" % (len(st), len(others)))
    fn = ctx.need_fn(F, "ts_subtree_edit", "P1")
    if fn:
        res = bind(fn, "result", "ts_subtree_make_mut(pool, *entry.tree)")
        bind(fn, "child", "&_[i]")
        mk = [pt for pt, n in find(fn, "result = ts_subtree_make_mut(pool, *entry.tree)")] or [pt for pt, e in fn.points() if e.get("k") == "decl" and e["name"] == res and M(fn).match("ts_subtree_make_mut(pool, *entry.tree)", e.get("init") or {})]
        writes = sorted({pt for pt, n, l, op in stores(fn) if res in roots(l) and (heap_store(l) or writes_record(l, "SubtreeInlineData"))})
        ctx.floor("stores through `result` in ts_subtree_edit", len(writes), 3)
        ctx.before("P1", "ts_subtree_edit:writes-go-through-make_mut", fn, writes, mk, "every node written by ts_subtree_edit is first passed through ts_subtree_make_mut")
        setch = [pt for pt, n in find(fn, "ts_subtree_set_has_changes(&result)")]
        ctx.before("P1", "ts_subtree_edit:set_has_changes-after-make_mut", fn, setch, mk, "ts_subtree_set_has_changes(&result) acts on the make_mut result")
        wb = [pt for pt, n in find(fn, "*entry.tree = ts_subtree_from_mut(result)")]
        child_ptr = [pt for pt, e in fn.points() if e.get("k") == "decl" and e["name"] == fn.cur("child")]
        ctx.before("P1", "ts_subtree_edit:write-back-before-descending", fn, child_ptr, wb,
                   "pointers into the children array are taken only after the (now exclusively owned) node was written back")
        ctx.before("P1", "ts_subtree_edit:write-back-after-make_mut", fn, wb, mk, "the write-back stores the make_mut result")


def rule_p2(ctx, F):
    """A clone owns its own copy of everything the release path frees per node: whatever
    ts_subtree_release deletes through a field of the node (`X_delete(&tree.ptr->f)`) must be
    duplicated by ts_subtree_clone (`result->f = X_copy(..)`), and every child the release path
    drops a reference to must be retained by the clone."""
    rel = ctx.need_fn(F, "ts_subtree_release", "P2")
    clone = ctx.need_fn(F, "ts_subtree_clone", "P2")
    if not rel or not clone:
        return
    owned = []
    for pt, c in rel.calls():
        name = c.get("fn") or ""
        if name.endswith("_delete") and c.get("a"):
            a = strip(c["a"][0])
            if a.get("k") == "un" and a["op"] == "&" and strip(a["e"]).get("k") == "mem":
                owned.append((strip(a["e"])["f"], name))
    ctx.floor("node-owned resources freed by ts_subtree_release", len(owned), 1)
    for fld, dele in owned:
        copy = dele[:-len("_delete")] + "_copy"
        key = "ts_subtree_clone:duplicates-" + fld
        if copy not in F.fns:
            ctx.bad("P2", key, "no `%s` counterpart of `%s` found" % (copy, dele))
            continue
        pts = []
        for pt, e in clone.points():
            for n in own_walk(e):
                if n.get("k") == "assign" and strip(n["l"]).get("k") == "mem" and strip(n["l"])["f"] == fld and strip(n["r"]).get("k") == "call" and callee_name(strip(n["r"])) == copy:
                    pts.append(pt)
        if not pts:
            ctx.bad("P2", key, "ts_subtree_clone no longer duplicates `%s` with %s although ts_subtree_release frees it with %s: a clone and its original then share (and both free) the same block" % (fld, copy, dele),
                    {"function": "ts_subtree_clone", "freed_by": dele})
            continue
        selfv = clone.params[0]["name"] if clone.params else "self"
        ctx.established_at_exit("P2", key, clone, pts, [("%s.ptr->has_external_tokens" % selfv, False), ("%s.ptr->child_count > 0" % selfv, True)],
                                "the clone gets its own %s (%s) whenever the node is a leaf that has one" % (fld, copy))
    # children: release drops one reference per child, clone must take one per child
    ret = [pt for pt, n in find(clone, "ts_subtree_retain(_[_])")]
    if ret:
        ctx.ok("P2", "ts_subtree_clone:retains-children", "the clone retains each child it now also points to", sample={"site": clone.loc(ret[0])})
    else:
        ctx.bad("P2", "ts_subtree_clone:retains-children", "ts_subtree_clone no longer retains the children it copies")


EXPECTED_WITNESSES = ["W1EditWhileNodeBorrowed", "W2EditWhileCursorBorrowed", "W3EditNeedsMut", "W4ParseNeedsMut", "W5NodeOutlivesTree",
                      "W6DropWhileNodeBorrowed", "W7OneStreamPerCursor"]


def rule_t1(ctx):
    """Compile-fail witnesses (E4): misuse of the Rust API that would break tree isolation does not type-check."""
    ctx.config = "rustc"
    r = ctx.extract.witnesses()
    res = r.get("results", {})
    if not res:
        ctx.bad("T1", "witness-harness", "the witness crate did not build (cargo +nightly test --doc): %s" % r.get("tail", "")[-400:])
        return
    for w in EXPECTED_WITNESSES:
        cf, tw = res.get(w + ":compile_fail"), res.get(w + ":twin")
        if cf == "ok" and tw == "ok":
            ctx.ok("T1", w, "rejected by rustc with the expected error code; the twin without the offending line compiles", sample={"witness": w})
        elif tw != "ok":
            ctx.bad("T1", w + ":twin", "the compiling twin of witness %s no longer compiles (API changed?) — the witness proves nothing" % w)
        else:
            ctx.bad("T1", w, "witness %s now COMPILES (or fails with a different error): the type system no longer forbids this misuse" % w)
    ctx.floor("witness pairs", sum(1 for k in res if k.endswith(":compile_fail")), 7)


def run(ctx):
    for cfg in configs(ctx):
        ctx.config = cfg
        F = ctx.extract.cfacts(cfg)
        ctx.analysed["c_functions_" + cfg] = len(F.fn_list)
        w = heap_writers(F)
        rule_w2(ctx, F)
        rule_w1(ctx, F, w)
        rule_writers(ctx, F, w)
        rule_w3(ctx, F, w)
        rule_p1(ctx, F)
        # "freed exactly once": a local reference given away (released, or released by a callee on its failing return) is not touched again (shared with C07.B3)
        import C07
        C07.rule_b3(ctx, F)
    rule_p2(ctx, F)
    rule_t1(ctx)
    return ctx.finish(
        "Who-may-write and gate rules over the Clang-resolved C runtime: ref_count is only touched by atomics (or set to 1 on fresh nodes); "
        "every Subtree→MutableSubtree conversion is a tabled site whose licence (fresh / ref_count==1 / decremented to zero / read-only) is re-verified; "
        "node payload is stored only by tabled functions; the read-only API's call-graph closure contains no payload store; roots are retained before sharing. "
        "Decides the absence of unlicensed non-atomic writes to shared nodes, not the interleavings themselves.")
