"""Helpers for rules over rustc MIR facts (engine E2) and the Rust halves of C-side properties."""
from common import *  # noqa: F401,F403


def calls_named(fn, *needles):
    """(pt, call node, dest lvalue) for calls whose resolved callee contains every needle."""
    out = []
    for pt, e in fn.points():
        for n in own_walk(e):
            if n.get("k") == "assign" and isinstance(n.get("r"), dict) and n["r"].get("k") == "call":
                c = n["r"]
                name = (c.get("fn") or "") + " " + (c.get("tfn") or "")
                if all(x in name for x in needles):
                    out.append((pt, c, n["l"]))
            elif n.get("k") == "call" and n.get("fn") == "drop" and all(x in ("drop " + n.get("dropty", "")) for x in needles):
                out.append((pt, n, None))
    return out


def trace_root(fn, e, depth=0):
    """Follow single-definition temporaries (through refs, derefs, clones, conversions and the
    first argument of calls) back to a user-named local; returns its name or a description."""
    e = strip(e)
    if depth > 25 or e is None:
        return None
    k = e.get("k")
    if k == "ref":
        nm = e.get("name", "")
        if not nm.startswith("_") or e.get("dk") == "param":
            return nm
        d = fn.single_def(e["id"])
        if d is None:
            return None
        return trace_root(fn, d, depth + 1)
    if k == "un":
        return trace_root(fn, e["e"], depth + 1)
    if k == "mem":
        r = trace_root(fn, e["b"], depth + 1)
        return r
    if k == "call":
        a = e.get("a") or []
        return trace_root(fn, a[0], depth + 1) if a else None
    if k == "cast":
        return trace_root(fn, e["e"], depth + 1)
    return None


def user_local_def_field(fn, name):
    """For a user local bound by destructuring (`name = place.as:Variant.field`), the
    (variant, field) it was bound from."""
    out = []
    for i in fn.ids_named(name):
        for d in fn.defs(i):
            if isinstance(d, dict):
                x = strip(d)
                while x.get("k") == "un":
                    x = strip(x["e"])
                if x.get("k") == "mem":
                    b = strip(x["b"])
                    var = b["f"][3:] if b.get("k") == "mem" and str(b.get("f", "")).startswith("as:") else None
                    out.append((var, x["f"]))
    return out


def adt(F, name_suffix):
    for a in F.j.get("adts", []):
        if a["name"] == name_suffix or a["name"].endswith("::" + name_suffix):
            return a
    return None


def is_loop_next_switch(fn, bid):
    """Is block `bid` the `match iter.next()` switch of a `for` loop?"""
    c = fn.cond(bid)
    if c is None:
        return False
    c = strip(c)
    if c.get("k") != "ref":
        return False
    d = fn.single_def(c["id"])
    if d is None or strip(d).get("fn") != "discriminant":
        return False
    place = strip(d)["a"][0]
    from taint import root_var
    rv = root_var(place)
    if rv is None:
        return False
    for dd in fn.defs(rv):
        if isinstance(dd, dict) and strip(dd).get("k") == "call" and "::next" in ((strip(dd).get("fn") or "") + (strip(dd).get("tfn") or "")):
            return True
    return False


def find_fn(ctx, F, suffix, rule="anchor"):
    """Function whose path ends with `suffix` (lifetimes like ::<'_> in the path are ignored)."""
    import re
    want = suffix
    cands = []
    for fn in F.fn_list:
        nm = re.sub(r"::<[^>]*>", "", fn.name)
        if nm == want or nm.endswith("::" + want):
            cands.append(fn)
    if len(cands) == 1 and cands[0].entry is not None:
        return cands[0]
    ctx.bad(rule, "missing-function:%s" % suffix, "anchor function %s not found exactly once in crate %s (found %d)" % (suffix, F.j.get("crate"), len(cands)))
    return None


def cond_def(fn, cond, depth=0):
    """The defining expression of a MIR branch operand (through single-definition temporaries)."""
    e = strip(cond)
    while depth < 8 and e.get("k") == "ref":
        d = fn.single_def(e["id"])
        if d is None:
            break
        e = strip(d)
        depth += 1
    return e


def callee_text(c):
    return ((c.get("fn") or "") + " " + (c.get("tfn") or "")) if isinstance(c, dict) and c.get("k") == "call" else ""


def inline_text(fn, e, depth=0):
    """Render an expression with single-definition temporaries replaced by their definitions."""
    e = strip(e)
    if depth < 8 and e.get("k") == "ref" and str(e.get("name", "")).startswith("_"):
        d = fn.single_def(e["id"])
        if d is not None:
            return inline_text(fn, d, depth + 1)
    k = e.get("k")
    if k == "call":
        return "%s(%s)" % (e.get("fn"), ", ".join(inline_text(fn, a, depth + 1) for a in e.get("a", [])))
    if k == "un":
        return "%s%s" % (e["op"], inline_text(fn, e["e"], depth + 1))
    if k == "bin":
        return "(%s %s %s)" % (inline_text(fn, e["l"], depth + 1), e["op"], inline_text(fn, e["r"], depth + 1))
    if k == "mem":
        b = inline_text(fn, e["b"], depth + 1)
        return "(%s).%s" % (b, e["f"]) if b.startswith("*") else "%s.%s" % (b, e["f"])
    if k == "cast":
        return inline_text(fn, e["e"], depth + 1)
    return show(e)


def cond_text(fn, cond, truth):
    """(text, truth) of a MIR branch with leading negations folded into the truth value."""
    d = cond_def(fn, cond)
    while d.get("k") == "un" and d["op"] == "!":
        truth = not truth
        d = cond_def(fn, d["e"])
    return inline_text(fn, d), truth


class TextGate(Monitor):
    """Must-pass-through gate for MIR: alternatives are (substring-tuple, want) tested against the
    inlined text of branch conditions; for `match` switches the text is `<scrutinee>=<Variant>` and
    want is True.  Statement points in est_pts establish too.  m: 0/1."""

    def __init__(self, fn, accept_pts, alts, reset_pts=(), est_pts=(), check_exit=False):
        self.fn, self.accept, self.alts, self.reset = fn, set(accept_pts), alts, set(reset_pts)
        self.est, self.check_exit = set(est_pts), check_exit

    def elem(self, m, pt, e, s):
        if pt in self.accept and not m:
            return Viol("reached without the required test", pt)
        if pt in self.est:
            return 1
        if pt in self.reset:
            return 0
        return m

    def edge(self, m, bid, edge, cond, truth, s):
        if cond is None:
            return m
        if truth is not None:
            txt, t = cond_text(self.fn, cond, truth)
        elif isinstance(edge.lab, dict) and (edge.lab.get("name") or edge.lab.get("case") or edge.lab.get("default")):
            txt, t = cond_text(self.fn, cond, True)
            txt, t = "%s=%s" % (txt, edge.lab.get("name") or ("default" if edge.lab.get("default") else edge.lab.get("v"))), True
        else:
            return m
        for needles, want in self.alts:
            if t == want and all(n in txt for n in needles):
                return 1
        return m

    def exit(self, m, bid, s):
        if self.check_exit and not m:
            return Viol("function exit reached without the required statement/test")
        return None


def text_gate(ctx, rule, fn, accept_pts, preds, accept_desc="accept", est_pts=(), at_exit=False):
    """preds: list of (label, [((needle, …), want), …])."""
    if not accept_pts and not at_exit:
        ctx.bad(rule, "%s:no-accept-point" % fn.name, "no %s point found in %s" % (accept_desc, fn.name))
        return
    for label, alts in preds:
        s = Search(fn, TextGate(fn, accept_pts, alts, est_pts=est_pts, check_exit=at_exit), budget=2000000)
        v = s.run(0)
        key = "%s:%s" % (fn.name.split("::")[-1], label)
        if v is None:
            ctx.ok(rule, key, "every path to %s (%d point(s)) passes `%s` (%d states)" % (accept_desc, len(accept_pts), label, s.states),
                   sample={"function": fn.name, "accept": [fn.loc(p) for p in sorted(accept_pts)][:3], "predicate": label})
        else:
            ctx.bad(rule, key, "%s: a path reaches %s at %s without `%s`" % (fn.name, accept_desc, fn.loc(v.pt) if v.pt else "exit", label),
                    {"function": fn.name, "site": fn.loc(v.pt) if v.pt else "exit", "path": s.render_path(v.path)[-10:]})


def const_ret_points(fn, value):
    """Points assigning the constant `value` (0/1) to the return place _0."""
    out = []
    for pt, e in fn.points():
        for n in own_walk(e):
            if n.get("k") == "assign" and show(n["l"]) == "_0" and strip(n["r"]).get("k") == "int" and strip(n["r"]).get("v") == value:
                out.append(pt)
    return out


# Rust halves of C-side properties are added below as they are written ------------------------
def c13_rust(ctx):
    pass


def c10_rust(ctx):
    pass


def c14_rust(ctx):
    pass


def c07_rust(ctx):
    pass
