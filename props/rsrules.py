"""Helpers for rules over rustc MIR facts (engine E2) and the Rust halves of C-side properties."""
from common import *  # noqa: F401,F403


def calls_named(fn, *needles):
    """(pt, call node, dest lvalue) for calls whose resolved callee contains every needle."""
    out = []
    for pt, e in fn.points():
        for n in own_walk(e):
            if n.get("k") == "assign" and isinstance(n.get("r"), dict) and n["r"].get("k") == "call":
                c = n["r"]
                name = (c.get("fn") or "") + " " + (c.get("tfn") or "")
                if all(x in name for x in needles):
                    out.append((pt, c, n["l"]))
            elif n.get("k") == "call" and n.get("fn") == "drop" and all(x in ("drop " + n.get("dropty", "")) for x in needles):
                out.append((pt, n, None))
    return out


def trace_root(fn, e, depth=0):
    """Follow single-definition temporaries (through refs, derefs, clones, conversions and the
    first argument of calls) back to a user-named local; returns its name or a description."""
    e = strip(e)
    if depth > 25 or e is None:
        return None
    k = e.get("k")
    if k == "ref":
        nm = e.get("name", "")
        if not nm.startswith("_") or e.get("dk") == "param":
            return nm
        d = fn.single_def(e["id"])
        if d is None:
            return None
        return trace_root(fn, d, depth + 1)
    if k == "un":
        return trace_root(fn, e["e"], depth + 1)
    if k == "mem":
        r = trace_root(fn, e["b"], depth + 1)
        return r
    if k == "call":
        a = e.get("a") or []
        return trace_root(fn, a[0], depth + 1) if a else None
    if k == "cast":
        return trace_root(fn, e["e"], depth + 1)
    return None


def user_local_def_field(fn, name):
    """For a user local bound by destructuring (`name = place.as:Variant.field`), the
    (variant, field) it was bound from."""
    out = []
    for i in fn.ids_named(name):
        for d in fn.defs(i):
            if isinstance(d, dict):
                x = strip(d)
                while x.get("k") == "un":
                    x = strip(x["e"])
                if x.get("k") == "mem":
                    b = strip(x["b"])
                    var = b["f"][3:] if b.get("k") == "mem" and str(b.get("f", "")).startswith("as:") else None
                    out.append((var, x["f"]))
    return out


def adt(F, name_suffix):
    for a in F.j.get("adts", []):
        if a["name"] == name_suffix or a["name"].endswith("::" + name_suffix):
            return a
    return None


def is_loop_next_switch(fn, bid):
    """Is block `bid` the `match iter.next()` switch of a `for` loop?"""
    c = fn.cond(bid)
    if c is None:
        return False
    c = strip(c)
    if c.get("k") != "ref":
        return False
    d = fn.single_def(c["id"])
    if d is None or strip(d).get("fn") != "discriminant":
        return False
    place = strip(d)["a"][0]
    from taint import root_var
    rv = root_var(place)
    if rv is None:
        return False
    for dd in fn.defs(rv):
        if isinstance(dd, dict) and strip(dd).get("k") == "call" and "::next" in ((strip(dd).get("fn") or "") + (strip(dd).get("tfn") or "")):
            return True
    return False


# Rust halves of C-side properties are added below as they are written ------------------------
def c13_rust(ctx):
    pass


def c10_rust(ctx):
    pass


def c14_rust(ctx):
    pass


def c07_rust(ctx):
    pass
