import re
"""Helpers for rules over rustc MIR facts (engine E2) and the Rust halves of C-side properties."""
from common import *  # noqa: F401,F403


def calls_named(fn, *needles):
    """(pt, call node, dest lvalue) for calls whose resolved callee contains every needle."""
    out = []
    for pt, e in fn.points():
        for n in own_walk(e):
            if n.get("k") == "assign" and isinstance(n.get("r"), dict) and n["r"].get("k") == "call":
                c = n["r"]
                name = (c.get("fn") or "") + " " + (c.get("tfn") or "")
                if all(x in name for x in needles):
                    out.append((pt, c, n["l"]))
            elif n.get("k") == "call" and n.get("fn") == "drop" and all(x in ("drop " + n.get("dropty", "")) for x in needles):
                out.append((pt, n, None))
    return out


def trace_root(fn, e, depth=0):
    """Follow single-definition temporaries (through refs, derefs, clones, conversions and the
    first argument of calls) back to a user-named local; returns its name or a description."""
    e = strip(e)
    if depth > 25 or e is None:
        return None
    k = e.get("k")
    if k == "ref":
        nm = e.get("name", "")
        if not nm.startswith("_") or e.get("dk") == "param":
            return nm
        d = fn.single_def(e["id"])
        if d is None:
            return None
        return trace_root(fn, d, depth + 1)
    if k == "un":
        return trace_root(fn, e["e"], depth + 1)
    if k == "mem":
        r = trace_root(fn, e["b"], depth + 1)
        return r
    if k == "call":
        a = e.get("a") or []
        return trace_root(fn, a[0], depth + 1) if a else None
    if k == "cast":
        return trace_root(fn, e["e"], depth + 1)
    return None


def user_local_def_field(fn, name):
    """For a user local bound by destructuring (`name = place.as:Variant.field`), the
    (variant, field) it was bound from."""
    out = []
    for i in fn.ids_named(name):
        for d in fn.defs(i):
            if isinstance(d, dict):
                x = strip(d)
                while x.get("k") == "un":
                    x = strip(x["e"])
                if x.get("k") == "mem":
                    b = strip(x["b"])
                    var = b["f"][3:] if b.get("k") == "mem" and str(b.get("f", "")).startswith("as:") else None
                    out.append((var, x["f"]))
    return out


def adt(F, name_suffix):
    for a in F.j.get("adts", []):
        if a["name"] == name_suffix or a["name"].endswith("::" + name_suffix):
            return a
    return None


def is_loop_next_switch(fn, bid):
    """Is block `bid` the `match iter.next()` switch of a `for` loop?"""
    c = fn.cond(bid)
    if c is None:
        return False
    c = strip(c)
    if c.get("k") != "ref":
        return False
    d = fn.single_def(c["id"])
    if d is None or strip(d).get("fn") != "discriminant":
        return False
    place = strip(d)["a"][0]
    from taint import root_var
    rv = root_var(place)
    if rv is None:
        return False
    for dd in fn.defs(rv):
        if isinstance(dd, dict) and strip(dd).get("k") == "call" and "::next" in ((strip(dd).get("fn") or "") + (strip(dd).get("tfn") or "")):
            return True
    return False


def find_fn(ctx, F, suffix, rule="anchor"):
    """Function whose path ends with `suffix` (lifetimes like ::<'_> in the path are ignored)."""
    import re
    want = suffix
    cands = []
    for fn in F.fn_list:
        nm = re.sub(r"::<[^>]*>", "", fn.name)
        if nm == want or nm.endswith("::" + want):
            cands.append(fn)
    if len(cands) == 1 and cands[0].entry is not None:
        return cands[0]
    ctx.bad(rule, "missing-function:%s" % suffix, "anchor function %s not found exactly once in crate %s (found %d)" % (suffix, F.j.get("crate"), len(cands)))
    return None


def cond_def(fn, cond, depth=0):
    """The defining expression of a MIR branch operand (through single-definition temporaries)."""
    e = strip(cond)
    while depth < 8 and e.get("k") == "ref":
        d = fn.single_def(e["id"])
        if d is None:
            break
        e = strip(d)
        depth += 1
    return e


def callee_text(c):
    return ((c.get("fn") or "") + " " + (c.get("tfn") or "")) if isinstance(c, dict) and c.get("k") == "call" else ""


def inline_text(fn, e, depth=0):
    """Render an expression with single-definition temporaries replaced by their definitions."""
    e = strip(e)
    if depth < 8 and e.get("k") == "ref" and str(e.get("name", "")).startswith("_"):
        d = fn.single_def(e["id"])
        if d is not None:
            return inline_text(fn, d, depth + 1)
    k = e.get("k")
    if k == "call":
        return "%s(%s)" % (e.get("fn"), ", ".join(inline_text(fn, a, depth + 1) for a in e.get("a", [])))
    if k == "un":
        return "%s%s" % (e["op"], inline_text(fn, e["e"], depth + 1))
    if k == "bin":
        return "(%s %s %s)" % (inline_text(fn, e["l"], depth + 1), e["op"], inline_text(fn, e["r"], depth + 1))
    if k == "mem":
        b = inline_text(fn, e["b"], depth + 1)
        return "(%s).%s" % (b, e["f"]) if b.startswith("*") else "%s.%s" % (b, e["f"])
    if k == "cast":
        return inline_text(fn, e["e"], depth + 1)
    return show(e)


def cond_text(fn, cond, truth, deep=False):
    """(text, truth) of a MIR branch with leading negations folded into the truth value."""
    d = cond_def(fn, cond)
    while d.get("k") == "un" and d["op"] == "!":
        truth = not truth
        d = cond_def(fn, d["e"])
    return (deep_text(fn, d, user=False) if deep else inline_text(fn, d)), truth


_CONJ_MEMO = {}
RS_COND_HITS = None    # set() when tools/cond_coverage.py --rust wants to know which branch conditions a text gate matched


def conj_summary(h):
    """For a loop-free bool helper: the (text, truth) facts that hold on *every* path on which it can
    return true — branch outcomes plus the final value expression.  None if not analysable."""
    key = (id(h.facts) if hasattr(h, "facts") else 0, h.name)
    if key in _CONJ_MEMO:
        return _CONJ_MEMO[key]
    res = None
    try:
        entry = min(h.blocks)
        paths = []

        def walk_paths(b, facts, seen, ret0):
            if len(paths) > 64 or b in seen:
                raise RuntimeError("loop or too many paths")
            blk = h.blocks[b]
            for el in blk.elems:
                e = el.get("e", el) if isinstance(el, dict) and "k" not in el else el
                for n in own_walk(strip(e)):
                    if n.get("k") == "assign" and show(n["l"]) == "_0":
                        ret0 = n["r"]
            if not blk.succs or b == h.exit:
                paths.append((facts, ret0))
                return
            c = h.cond(b)
            for edge in blk.succs:
                f2 = facts
                if c is not None and edge.lab in ("T", "F"):
                    txt, t = cond_text(h, c, edge.lab == "T")
                    f2 = facts | {(txt, t)}
                walk_paths(edge.to, f2, seen | {b}, ret0)
        walk_paths(entry, frozenset(), frozenset(), None)
        sets = []
        for facts, r0 in paths:
            if r0 is None:
                continue
            r = strip(r0)
            if r.get("k") == "int":
                if not r.get("v"):
                    continue            # returns false on this path
                sets.append(set(facts))
            else:
                sets.append(set(facts) | {(inline_text(h, r), True)})
        if sets:
            res = set.intersection(*sets)
    except (RuntimeError, RecursionError, KeyError):
        res = None
    _CONJ_MEMO[key] = res
    return res


def helper_facts(fn, cond):
    """If the branch condition is a call of a crate-local bool helper with a conjunction summary,
    the helper's facts with its parameters replaced by the call's arguments."""
    d = cond_def(fn, cond)
    if d.get("k") != "call" or not hasattr(fn, "facts"):
        return []
    h = next((f for f in fn.facts.fn_list if f.name == d.get("fn")), None)
    if h is None or h is fn or len(h.blocks) > 40:
        return []
    summ = conj_summary(h)
    if not summ:
        return []
    out = []
    args = [inline_text(fn, a) for a in d.get("a", [])]
    for txt, t in summ:
        for p, a in zip(h.params, args):
            base = a[1:] if a.startswith("&") else "*" + a
            txt = txt.replace("(*%s)" % p["name"], base if base.startswith("(") else base)
            txt = re.sub(r"\b%s\b" % re.escape(p["name"]), a, txt)
        out.append((txt, t))
    return out


_FLIP_OP = {"<": ">", ">": "<", "<=": ">=", ">=": "<=", "==": "==", "!=": "!="}


def cond_forms(fn, cond, truth, deep=False):
    """The condition's text in every equivalent operand order: `(a <= b)` is also `(b >= a)`."""
    txt, t = cond_text(fn, cond, truth, deep)
    out = [(txt, t)]
    d = cond_def(fn, cond)
    while d.get("k") == "un" and d.get("op") == "!":
        d = cond_def(fn, d["e"])
    if d.get("k") == "bin" and d.get("op") in _FLIP_OP:
        render = (lambda x: deep_text(fn, x, user=False)) if deep else (lambda x: inline_text(fn, x))
        out.append(("(%s %s %s)" % (render(d["r"]), _FLIP_OP[d["op"]], render(d["l"])), t))
    return out


class TextGate(Monitor):
    """Must-pass-through gate for MIR: alternatives are (substring-tuple, want) tested against the
    inlined text of branch conditions; for `match` switches the text is `<scrutinee>=<Variant>` and
    want is True.  Statement points in est_pts establish too.  m: 0/1."""

    def __init__(self, fn, accept_pts, alts, reset_pts=(), est_pts=(), check_exit=False, deep=False):
        self.fn, self.accept, self.alts, self.reset = fn, set(accept_pts), alts, set(reset_pts)
        self.est, self.check_exit, self.deep = set(est_pts), check_exit, deep

    def elem(self, m, pt, e, s):
        if pt in self.accept and not m:
            return Viol("reached without the required test", pt)
        if pt in self.est:
            return 1
        if pt in self.reset:
            return 0
        return m

    def edge(self, m, bid, edge, cond, truth, s):
        if cond is None:
            return m
        if truth is not None:
            forms = cond_forms(self.fn, cond, truth, self.deep)
        elif isinstance(edge.lab, dict) and (edge.lab.get("name") or edge.lab.get("case") or edge.lab.get("default")):
            txt, t = cond_text(self.fn, cond, True, self.deep)
            forms = [("%s=%s" % (txt, edge.lab.get("name") or ("default" if edge.lab.get("default") else edge.lab.get("v"))), True)]
        else:
            return m
        t = forms[0][1]
        for needles, want in self.alts:
            if any(ft == want and all(n in ftxt for n in needles) for ftxt, ft in forms):
                if RS_COND_HITS is not None:
                    RS_COND_HITS.add((self.fn.name, bid))
                return 1
        if t and truth is not None:
            # a crate-local helper that is a plain conjunction: its conjuncts hold on the true edge
            for htxt, ht in helper_facts(self.fn, cond):
                for needles, want in self.alts:
                    if ht == want and all(n in htxt for n in needles):
                        return 1
        return m

    def exit(self, m, bid, s):
        if self.check_exit and not m:
            return Viol("function exit reached without the required statement/test")
        return None


def text_gate(ctx, rule, fn, accept_pts, preds, accept_desc="accept", est_pts=(), at_exit=False, deep=False):
    """preds: list of (label, [((needle, …), want), …])."""
    if not accept_pts and not at_exit:
        ctx.bad(rule, "%s:no-accept-point" % fn.name, "no %s point found in %s" % (accept_desc, fn.name))
        return
    for label, alts in preds:
        s = Search(fn, TextGate(fn, accept_pts, alts, est_pts=est_pts, check_exit=at_exit, deep=deep), budget=2000000)
        v = s.run(0)
        key = "%s:%s" % (fn.name.split("::")[-1], label)
        if v is None:
            ctx.ok(rule, key, "every path to %s (%d point(s)) passes `%s` (%d states)" % (accept_desc, len(accept_pts), label, s.states),
                   sample={"function": fn.name, "accept": [fn.loc(p) for p in sorted(accept_pts)][:3], "predicate": label})
        else:
            ctx.bad(rule, key, "%s: a path reaches %s at %s without `%s`" % (fn.name, accept_desc, fn.loc(v.pt) if v.pt else "exit", label),
                    {"function": fn.name, "site": fn.loc(v.pt) if v.pt else "exit", "path": s.render_path(v.path)[-10:]})


def const_ret_points(fn, value):
    """Points assigning the constant `value` (0/1) to the return place _0."""
    out = []
    for pt, e in fn.points():
        for n in own_walk(e):
            if n.get("k") == "assign" and show(n["l"]) == "_0" and strip(n["r"]).get("k") == "int" and strip(n["r"]).get("v") == value:
                out.append(pt)
    return out


class IterVet(Monitor):
    """Every iteration of a `for` loop must take one of the vetting branch outcomes before the
    loop moves on, and `accept` points (e.g. `return true`) may not be reached mid-iteration
    unvetted.  m = (in_iteration, vetted)."""

    def __init__(self, fn, vets, accept_pts=()):
        self.fn, self.vets, self.accept = fn, vets, set(accept_pts)

    def elem(self, m, pt, e, s):
        if pt in self.accept and m[0] and not m[1]:
            return Viol("reached while the current loop item has not passed any of the required tests", pt)
        if pt in self.accept and m[0]:
            return Viol("reached from inside the loop, before the remaining items were looked at", pt)
        return m

    def edge(self, m, bid, edge, cond, truth, s):
        in_it, vetted = m
        if isinstance(edge.lab, dict) and edge.lab.get("name") in ("Some", "None") and is_loop_next_switch(self.fn, bid):
            if in_it and not vetted:
                return Viol("the loop moves on although the current item passed none of the required tests", (bid, 0))
            return (edge.lab["name"] == "Some", False)
        if cond is not None and truth is not None:
            txt, t = cond_text(self.fn, cond, truth)
            for needles, want in self.vets:
                if t == want and all(n in txt for n in needles):
                    return (in_it, True)
        return m


def iter_vet(ctx, rule, key, fn, vets, accept_pts, what):
    s = Search(fn, IterVet(fn, vets, accept_pts), budget=2000000)
    v = s.run((False, False))
    if v is None:
        ctx.ok(rule, key, what + " (%d states)" % s.states, sample={"function": fn.name, "rule": what})
    else:
        ctx.bad(rule, key, "%s: %s — %s" % (fn.name, what, v.msg), {"path": s.render_path(v.path)[-8:]})


def some_ret_points(fn):
    return [pt for pt, e in fn.points() for n in own_walk(e) if n.get("k") == "assign" and show(n["l"]) == "_0" and strip(n["r"]).get("k") == "agg" and strip(n["r"]).get("variant") == "Some"]


# ------------------------------------------------------------------------------------------------
# Rust halves of C-side properties
# ------------------------------------------------------------------------------------------------
def c14_rust(ctx):
    """C14.G3: the generator's keyword identification."""
    ctx.config = "rust"
    F = ctx.extract.rsfacts("tree_sitter_generate")
    cl = [f for f in F.fn_list if f.name.startswith("build_tables::identify_keywords::{closure#") and f.name.count("{closure") == 1]
    cl.sort(key=lambda f: f.line)
    if len(cl) < 3:
        ctx.bad("G3", "identify_keywords:closures", "expected the three filter closures of identify_keywords, found %d" % len(cl))
        return
    cand, shadow, conflict = cl[0], cl[1], cl[2]
    text_gate(ctx, "G3", cand, some_ret_points(cand), [
        ("candidate keywords consist of word characters", [(("all_chars_are_alphabetical",), True)]),
        ("candidate matches a string the word token matches", [(("does_match_same_string",), True)]),
        ("candidate matches nothing the word token does not", [(("does_match_different_string",), False)]),
    ], accept_desc="accepting a keyword candidate")
    iter_vet(ctx, "G3", "identify_keywords:no-shadowing-candidate", shadow, [(("does_match_same_string",), False), (("::ne(",), False), (("!=",), False)],
             const_ret_points(shadow, 1), "a candidate is kept only if every *other* candidate fails does_match_same_string against it")
    iter_vet(ctx, "G3", "identify_keywords:no-new-conflicts", conflict,
             [(("TokenSet::contains",), True), (("all_coincident_states_have_word",), True), (("has_same_conflict_status",), True)],
             const_ret_points(conflict, 1), "a keyword is kept only if, for every non-candidate token, the word token is already coincident or has the same conflict status")
    c14_regex_threading(ctx, F)
    c14_tie_break(ctx, F)
    c14_lex_state_merge(ctx, F)
    c14_lex_minimize(ctx, F)
    c14_implicit_precedence(ctx, F)
    c14_advance_map_prefix(ctx, F)
    c14_any_separator(ctx, F)
    c14_prefer(ctx, F)
    c14_group_transitions(ctx, F)
    c14_escape_rewrite(ctx, F)
    fn = find_fn(ctx, F, "build_tables::identify_keywords", "G3")
    if fn:
        empty = [pt for pt, c, d in calls_named(fn, "TokenSet::new")]
        text_gate(ctx, "G3", fn, empty, [("no word token ⇒ no keywords", [(("is_none",), True)])], accept_desc="returning the empty keyword set")


def c14_escape_rewrite(ctx, F):
    """C14.X1: the token's regular expression reaches the regex parser unmangled.  A substring
    replacement whose needle is an escape sequence (`\\w`, `\\s`, …) cannot tell the escape `\\w` from
    the two characters `\\` `w` that end the escaped backslash of `\\\\w`; rewriting pattern text that way
    before it is parsed makes the lexer implement a different regular expression than the token's.
    Every function of the token expansion that hands text to `pattern::parse` is searched for
    `str::replace`/`replacen` calls with a constant needle that begins with a backslash."""
    fns = [f for f in F.fn_list if "expand_tokens::" in f.name and f.entry is not None and calls_named(f, "pattern::parse")]
    ctx.floor("functions handing pattern text to the regex parser", len(fns), 1)
    for fn in fns:
        short = fn.name.split("::")[-1]
        hits = []
        for pt, c, d in calls_named(fn, "str>::replace"):
            a = c.get("a") or []
            if len(a) >= 2 and strip(a[1]).get("k") == "str" and str(strip(a[1]).get("v", "")).startswith("\\"):
                hits.append((pt, strip(a[1])["v"], c))
        if not hits:
            ctx.ok("X1", "%s:pattern-text-not-rewritten" % short, "the pattern text reaches pattern::parse without an escape-unaware textual rewrite")
        for pt, needle, c in hits:
            ctx.bad("X1", "%s:escape-unaware-rewrite:%s" % (short, needle),
                    "%s rewrites the pattern text with str::replace(%r, …) before parsing it: an escaped backslash followed by `%s` (regex `\\%s`) is mangled "
                    "(line %s)" % (short, needle, needle[1:], needle, (c.get("loc") or {}).get("l")))


def c14_prefer(ctx, F):
    """C14.T1: the order of the tie-breaking criteria.  prefer_token: explicit precedence decides first,
    then the implicit (string-over-regex) precedence, then the earlier token; prefer_transition (keep
    lexing past a completed token): never for a lower precedence, at equal precedence never across a
    separator and — if separators follow — only inside the completed token itself."""
    fn = find_fn(ctx, F, "TokenConflictMap::prefer_token", "T1")
    if fn and len(fn.params) >= 3:
        l, r = fn.params[1]["name"], fn.params[2]["name"]
        rets = [(pt, strip(x["r"])) for pt, e in fn.points() for x in own_walk(e) if x.get("k") == "assign" and show(x["l"]) == "_0"]
        yes = [pt for pt, v in rets if v.get("k") == "int" and v.get("v") == 1]
        no = [pt for pt, v in rets if v.get("k") == "int" and v.get("v") == 0]
        idx = [pt for pt, v in rets if v.get("k") not in ("int",)]
        outer = ("Ord for i32>::cmp(&(%s).0, " % l, "(%s).0))" % r)
        inner = ("implicit_precedence",)
        ctx.floor("constant verdicts of prefer_token", len(yes) + len(no), 4)
        text_gate(ctx, "T1", fn, yes, [("`left wins` only on a greater explicit precedence, or an equal one and a greater implicit precedence",
                                         [(outer + ("=Greater",), True), (inner + ("=Greater",), True)])], accept_desc="preferring the left token", deep=True)
        text_gate(ctx, "T1", fn, no, [("`right wins` only on a smaller explicit precedence, or an equal one and a smaller implicit precedence",
                                        [(outer + ("=Less",), True), (inner + ("=Less",), True)])], accept_desc="preferring the right token", deep=True)
        text_gate(ctx, "T1", fn, [pt for pt in yes + no if True], [("the implicit precedence is consulted only at equal explicit precedence",
                                                                    [(outer + ("=Greater",), True), (outer + ("=Less",), True), (outer + ("=Equal",), True)])], accept_desc="deciding", deep=True)
        if idx:
            text_gate(ctx, "T1", fn, idx, [("the token index breaks ties only when both precedences are equal", [(inner + ("=Equal",), True)]),
                                           ("…explicit precedence equal", [(outer + ("=Equal",), True)])], accept_desc="falling back to the token order", deep=True)
            t = " ".join(inline_text(fn, x["r"]) for x in own_walk(dict(fn.points())[idx[0]]) if x.get("k") == "assign" and show(x["l"]) == "_0")
            if "(%s.1 < %s.1)" % (l, r) in t:
                ctx.ok("T1", "prefer_token:earlier-token-wins", "at equal precedences the earlier token (smaller index) wins")
            else:
                ctx.bad("T1", "prefer_token:earlier-token-wins", "prefer_token's last resort is no longer `left.1 < right.1` (`%s`)" % t[:80])
        else:
            ctx.bad("T1", "prefer_token:earlier-token-wins", "prefer_token no longer falls back to the token order")
    fn = find_fn(ctx, F, "TokenConflictMap::prefer_transition", "T1")
    if fn:
        rets = [(pt, strip(x["r"])) for pt, e in fn.points() for x in own_walk(e) if x.get("k") == "assign" and show(x["l"]) == "_0"]
        yes = [pt for pt, v in rets if v.get("k") == "int" and v.get("v") == 1]
        ctx.floor("`keep lexing` verdicts of prefer_transition", len(yes), 1)
        text_gate(ctx, "T1", fn, yes, [
            ("lexing continues past a completed token only at an equal or higher precedence", [((".precedence < ",), False)]),
            ("…at equal precedence not across a separator", [((".precedence == ",), False), ((".is_separator",), False)]),
            ("…and, if separators can follow, only while still inside the completed token", [((".precedence == ",), False), (("has_separator_transitions",), False), (("Iterator::any(",), True)]),
        ], accept_desc="preferring the transition")


def c14_group_transitions(ctx, F):
    """C14.N1: merging NFA transitions that overlap on some characters.  Whenever the incoming edge's
    target state joins an existing transition's state list, the merged transition takes the *higher* of
    the two precedences (and is a separator only if both were) — otherwise a longer token of equal or
    higher precedence becomes unreachable behind a lower-precedence one that was defined earlier."""
    fn = find_fn(ctx, F, "NfaCursor::group_transitions", "N1")
    if not fn:
        return
    joins = [pt for pt, c, d in calls_named(fn, "binary_search") if len(c.get("a", [])) == 2 and deep_text(fn, c["a"][1], user=False).endswith("state")]
    maxes = [pt for pt, c, d in calls_named(fn, "cmp::max") if ".precedence" in deep_text(fn, c["a"][0], user=False) + deep_text(fn, c["a"][1], user=False)]
    from C15 import self_increments
    steps = self_increments(fn)
    ctx.floor("places where the incoming state joins an existing transition", len(joins), 1)
    if not maxes:
        ctx.bad("N1", "group_transitions:merged-precedence-is-max", "group_transitions no longer computes max(existing precedence, incoming precedence) for a merged transition")
        return
    ctx.after("N1", "group_transitions:merged-precedence-is-max", fn, joins, maxes,
              "a transition that takes in the incoming state gets max(its precedence, the incoming precedence)", stop_pts=steps)
    aggs = [x for pt, e in fn.points() for x in own_walk(e) if x.get("k") == "agg" and (x.get("adt") or "").endswith("NfaTransition")]
    okp = any("cmp::max(" in deep_text(fn, f["e"], user=False) for x in aggs for f in x["fields"] if f.get("f") == "precedence")
    if okp:
        ctx.ok("N1", "group_transitions:intersection-built-with-max", "the intersection transition is constructed with precedence = max(..)")
    else:
        ctx.bad("N1", "group_transitions:intersection-built-with-max", "no NfaTransition in group_transitions is constructed with precedence = max(existing, incoming)")


def c14_lex_state_merge(ctx, F):
    """C14.G4: two parse states share one lex state (their valid-token sets are merged) only if no
    token of either set conflicts with the other set — the check is directed (token i beats token j),
    so it has to be made from both sides."""
    fn = find_fn(ctx, F, "build_lex_table::merge_token_set", "G4")
    if not fn or len(fn.params) < 2:
        return
    a, b = fn.params[0]["name"], fn.params[1]["name"]
    merges = [pt for pt, c, d in calls_named(fn, "TokenSet::insert_all")]
    ctx.floor("token-set merges in merge_token_set", len(merges), 1)
    text_gate(ctx, "G4", fn, merges, [
        ("no token only in `%s` conflicts with `%s`" % (a, b), [(("Iterator::any(", "closure{0: &*%s," % b), False)]),
        ("no token only in `%s` conflicts with `%s`" % (b, a), [(("Iterator::any(", "closure{0: &*%s," % a), False)]),
    ], accept_desc="merging the two token sets", deep=True)
    cl = [f for f in F.fn_list if f.name.startswith(fn.name + "::{closure") and calls_named(f, "check_token_conflicts")]
    if len(cl) >= 2:
        ctx.ok("G4", "merge_token_set:checks-use-check_token_conflicts", "%d directed conflict checks (check_token_conflicts)" % len(cl))
    else:
        ctx.bad("G4", "merge_token_set:checks-use-check_token_conflicts", "merge_token_set has only %d closure(s) calling check_token_conflicts; the conflict test is directed and must be made from both token sets" % len(cl))


def c14_implicit_precedence(ctx, F):
    """C14.I1: a string literal is preferred over a pattern however it is wrapped.  get_implicit_precedence looks
    through *every* metadata wrapper (token(), prec(), alias …) for the String underneath; only the immediate-token
    boost depends on the wrapper.  So the answer "no implicit precedence" is given only for a rule that is neither a
    String nor a Metadata wrapper — never on a path that just saw a wrapper."""
    fn = find_fn(ctx, F, "expand_tokens::get_implicit_precedence", "I1")
    if not fn:
        return
    rets = [(pt, x) for pt, e in fn.points() for x in own_walk(e) if x.get("k") == "assign" and show(x["l"]) == "_0"]
    plain = [pt for pt, x in rets if "2" not in deep_text(fn, x["r"], user=False).replace("boost", "") and "get_implicit_precedence(" not in deep_text(fn, x["r"], user=True)]
    strong = [pt for pt, x in rets if pt not in plain]
    if not strong or not plain:
        ctx.bad("I1", "get_implicit_precedence:two-answers", "get_implicit_precedence no longer has both answers (2 + boost for a String / boost otherwise)")
        return

    class Last(Monitor):
        def elem(self, m, pt, e, s):
            if pt in plain and m == "Metadata":
                return Viol("answers without looking inside the metadata wrapper it just found", pt)
            return m

        def edge(self, m, bid, edge, cond, truth, s):
            if cond is not None and isinstance(edge.lab, dict):
                txt, _ = cond_text(fn, cond, True, deep=True)
                if txt.startswith("discriminant(") and "RulePool::node(" in txt:
                    return edge.lab.get("name") or "other"
            return m
    sr = Search(fn, Last(), budget=200000)
    v = sr.run("start")
    if v is None:
        ctx.ok("I1", "get_implicit_precedence:looks-through-every-wrapper", "a non-String answer is only given for a rule that is not a metadata wrapper (%d states)" % sr.states)
    else:
        ctx.bad("I1", "get_implicit_precedence:looks-through-every-wrapper", "get_implicit_precedence %s (%s): a literal written token(prec(N, 'lit')) loses its preference over a pattern that matches the same text"
                % (v.msg, fn.loc(v.pt)), {"path": sr.render_path(v.path)[-5:]})


def c14_advance_map_prefix(ctx, F):
    """C14.R1: the ADVANCE_MAP of a lex state covers a *prefix* of its transitions.  The generated lexer consults the
    map before the remaining `if` tests, and the transitions are in priority order; so the count of transitions put in the
    map stops at the first transition that is not "simple" (a skipped separator, a wide range, a code point beyond 16
    bits).  Counting all simple transitions and using the count as a prefix length puts non-simple ones in the map:
    separators are then consumed into the next token and astral characters are truncated."""
    fn = find_fn(ctx, F, "Generator::add_lex_state", "R1")
    if not fn:
        return
    key = "add_lex_state:map-covers-a-prefix"
    ids = [i for i, nm in fn._names.items() if nm == "leading_simple_transition_count"] if fn.defs(0) is not None or True else []
    fn.defs(0)
    ids = [i for i, nm in fn._names.items() if nm == "leading_simple_transition_count"]
    if not ids:
        # renamed: the local that bounds the slice handed to the map loop
        ctx.bad("R1", key, "the local counting the leading simple transitions was not found in add_lex_state")
        return
    defs = [(pt, x) for pt, e in fn.points() for x in own_walk(e) if x.get("k") == "assign" and strip(x["l"]).get("k") == "ref" and strip(x["l"]).get("id") in ids]
    texts = [deep_text(fn, x["r"], user=False) for pt, x in defs]
    adaptor = [t for t in texts if "count(" in t or "Iterator::count" in t]
    if adaptor:
        whole = " ".join(adaptor) + " " + " ".join((c.get("targs") or "") + (c.get("fn") or "") for pt, c in fn.calls())
        if "TakeWhile" in whole or "take_while" in whole:
            ctx.ok("R1", key, "the count is that of a take_while(..) prefix")
        else:
            ctx.bad("R1", key, "add_lex_state counts the simple transitions with `%s` (no take_while): the count covers transitions behind the first non-simple one but is used as a prefix length, "
                    "so separators and astral characters end up in the ADVANCE_MAP" % adaptor[0][:70])
        return
    incs = [pt for (pt, x), t in zip(defs, texts) if "+ 1" in t or "+ 1)" in t]
    if not incs:
        ctx.bad("R1", key, "no increment of the simple-transition count found in add_lex_state")
        return

    class Prefix(Monitor):
        def elem(self, m, pt, e, s):
            if pt in incs and m:
                return Viol("counts a simple transition after a non-simple one was seen", pt)
            return m

        def edge(self, m, bid, edge, cond, truth, s):
            if cond is not None and truth is not None:
                txt, t = cond_text(fn, cond, truth)
                if ("in_main_token" in txt or "Iterator::all(" in txt) and not t:
                    return True
            return m
    # only the counting loop: start at the loop that contains the increments and stop where the count is first used
    sr = Search(fn, Prefix(), budget=3000000)
    v = sr.run(False)
    if v is None:
        ctx.ok("R1", key, "after the first transition that is not simple no further transition is counted (%d states)" % sr.states)
    else:
        ctx.bad("R1", key, "add_lex_state %s (%s)" % (v.msg, fn.loc(v.pt)), {"path": sr.render_path(v.path)[-6:]})


def c14_any_separator(ctx, F):
    """C14.S3: "this lex state is reached over a separator" is a fact about the raw NFA transitions.  Grouping merges
    transitions on the same characters and calls the merged one a separator only if *every* contributor is one, so a
    flag read off the grouped transitions is false whenever each extras character is also consumed by some token body —
    and prefer_transition then stops ending a token at the extras: the next token swallows them."""
    fn = find_fn(ctx, F, "NfaCursor::transitions_and_any_sep", "S3")
    if not fn:
        return
    key = "transitions_and_any_sep:flag-from-raw-transitions"
    calls = [c.get("fn") or "" for pt, c in fn.calls()]
    rets = [deep_text(fn, x["r"], user=True) for pt, e in fn.points() for x in own_walk(e) if x.get("k") == "assign" and show(x["l"]) == "_0"]
    flag = ""
    for t in rets:
        if "1: " in t:
            flag = t.split("1: ", 1)[1]
    cl = [f for f in F.fn_list if f.name.startswith(fn.name + "::{closure")]
    # every store the closure makes through the captured flag ORs a raw transition's separator bit into it
    stores_, ors = 0, 0
    for f in cl:
        for pt, e in f.points():
            for x in own_walk(e):
                if x.get("k") == "assign" and strip(x["l"]).get("k") == "un" and strip(x["l"]).get("op") == "*" and "bool" in str(strip(strip(x["l"])["e"]).get("t", "")):
                    stores_ += 1
                    r = strip(cond_def(f, x["r"]))
                    if r.get("k") == "bin" and r.get("op") == "|" and any(strip(cond_def(f, o)).get("k") == "un" and strip(cond_def(f, o)).get("op") == "*" for o in (r["l"], r["r"])):
                        ors += 1
    cl_sets = stores_ >= 1 and ors == stores_
    from_grouped = ("group_transitions" in flag) or ("::transitions(" in flag) or ("is_separator" in flag and "raw_transitions" not in flag)
    uses_raw = any("raw_transitions" in c for c in calls)
    captures = any("closure{0: &any_sep" in t or "closure{0: &" in t for t in rets)
    if uses_raw and captures and not from_grouped and not cl_sets:
        ctx.bad("S3", "transitions_and_any_sep:flag-is-a-disjunction", "the closure over raw_transitions() no longer ORs each transition's separator bit into the flag (%d store(s), %d of them `flag |= is_sep`): "
                "the flag must be true as soon as *any* raw transition is a separator" % (stores_, ors))
    elif uses_raw and captures and not from_grouped:
        ctx.ok("S3", "transitions_and_any_sep:flag-is-a-disjunction", "the closure's only store to the captured flag is `flag |= is_sep`")
    if uses_raw and captures and not from_grouped:
        ctx.ok("S3", key, "the flag is accumulated by the closure that walks raw_transitions() (it is handed the flag by reference)")
    else:
        ctx.bad("S3", key, "transitions_and_any_sep computes its separator flag from `%s` — the grouped transitions — instead of accumulating it over raw_transitions(): a lex state whose extras characters "
                "are all also token characters no longer prefers the token that just ended, and the following token swallows the extras" % (flag[:80] or "?"))


def c14_lex_minimize(ctx, F):
    """C14.G5: two lex states are merged only if nothing the generated lexer does in them differs.  The initial
    partition (the signature built in minimize_lex_table) and the refinement test (lex_states_differ) together must
    look at every field of a lex state: accept action, presence of an EOF action, and per transition the character
    set, whether the character is consumed as part of the token or skipped (`in_main_token`), and the target state."""
    sig = find_fn(ctx, F, "build_lex_table::minimize_lex_table", "G5")
    dif = find_fn(ctx, F, "build_lex_table::lex_states_differ", "G5")
    if not sig or not dif:
        return
    fields = {}
    for rec in ("tables::LexState", "tables::AdvanceAction"):
        fs = adt_fields(F, rec)
        if not fs:
            ctx.bad("G5", "minimize_lex_table:fields:" + rec, "struct %s not found" % rec)
            return
        fields[rec] = fs

    def reads(fn):
        out = set()
        for g in [fn] + [f for f in F.fn_list if f.name.startswith(fn.name + "::{closure")]:
            for pt, e in g.points():
                for n in walk(e):
                    if n.get("k") == "mem" and n.get("rec") in fields:
                        out.add((n["rec"], n["f"]))
        return out
    # the signature is built before the refinement loop: only reads on the way to the first split_state_id_groups call count
    split = [pt for pt, c, d in calls_named(sig, "split_state_id_groups")]
    pre = set()
    if split:
        from flow import reachable_blocks
        before = {b for b in sig.blocks if split[0][0] in reachable_blocks(sig, b)}
        for pt, e in sig.points():
            if pt[0] in before:
                for n in walk(e):
                    if n.get("k") == "mem" and n.get("rec") in fields:
                        pre.add((n["rec"], n["f"]))
    for g in [f for f in F.fn_list if f.name.startswith(sig.name + "::{closure")]:
        for pt, e in g.points():
            for n in walk(e):
                if n.get("k") == "mem" and n.get("rec") in fields:
                    pre.add((n["rec"], n["f"]))
    seen = pre | reads(dif)
    ctx.analysed["lex_state_fields_compared_before_merging"] = sorted("%s.%s" % x for x in seen)
    tabled = {}
    for rec, fs in fields.items():
        for f in fs:
            key = "minimize_lex_table:compares:%s.%s" % (rec.split("::")[-1], f)
            if (rec, f) in seen:
                ctx.ok("G5", key, "%s.%s takes part in the signature or the refinement test" % (rec, f))
            else:
                ctx.bad("G5", key, "lex states are merged without comparing %s.%s: a state that skips a character and one that consumes it (or states with different accept/EOF behaviour) "
                        "become one state, and the lexer restarts or truncates tokens" % (rec.split("::")[-1], f))
    ctx.floor("fields of LexState/AdvanceAction", sum(len(v) for v in fields.values()), 5)


def adt_fields(F, name):
    for a in F.j.get("adts", []):
        if a.get("name") == name and a.get("variants"):
            return [f["name"] for f in a["variants"][0].get("fields", [])]
    return None


def c14_regex_threading(ctx, F):
    """C14.S2: sequential composition in the regex → NFA expansion threads the continuation: once a
    piece was emitted (its expansion returned true), the next piece emitted on that path must
    continue into the state just created (`last_state_id()`), not into the caller's continuation."""
    fn = find_fn(ctx, F, "NfaBuilder::expand_regex", "S2")
    if fn:
        _c14_thread(ctx, F, fn, "expand_regex", True)
    fn = find_fn(ctx, F, "NfaBuilder::expand_count", "S2")
    if fn:
        _c14_thread(ctx, F, fn, "expand_count", False)


def _c14_thread(ctx, F, fn, label, arms):
    from taint import Taint
    EMIT = ("expand_zero_or_one", "expand_one_or_more", "expand_zero_or_more", "expand_count", "NfaBuilder::expand_regex")

    def is_emit(n):
        return n.get("k") == "call" and any((n.get("fn") or "").endswith(x) for x in EMIT)
    T = Taint(F, [fn], lambda n, f: is_emit(n)).run()
    ns_ids = set(fn.ids_named("next_state_id"))
    if not ns_ids:
        ctx.bad("S2", label + ":anchor", "parameter next_state_id not found")
        return
    emits = []
    for pt, e in fn.points():
        for n in own_walk(e):
            if is_emit(n):
                emits.append((pt, n))

    def is_last(e):
        e = strip(e)
        while e.get("k") == "ref" and str(e.get("name", "")).startswith("_") and fn.single_def(e["id"]) is not None:
            e = strip(fn.single_def(e["id"]))
        return e.get("k") == "call" and (e.get("fn") or "").endswith("last_state_id")

    class Thread(Monitor):
        """state = (emitted since the continuation was last re-threaded, emitted at all on this path)"""

        def elem(self, st, pt, e, s):
            m, ever = st
            for n in own_walk(e):
                if n.get("k") == "assign" and strip(n["l"]).get("k") == "ref" and strip(n["l"])["id"] in ns_ids:
                    if is_last(n["r"]) and not ever:
                        return Viol("the continuation is replaced by last_state_id() although no piece has been emitted on this path — the next piece then continues into whatever "
                                    "state was created last (a sibling alternative's entry)", pt)
                    m = False
            for p2, n in emits:
                if p2 == pt:
                    arg = strip(n["a"][-1])
                    if is_last(arg) and not ever:
                        return Viol("a piece is expanded into last_state_id() although no piece has been emitted on this path", pt)
                    while arg.get("k") == "ref" and str(arg.get("name", "")).startswith("_") and fn.single_def(arg["id"]) is not None:
                        arg = strip(fn.single_def(arg["id"]))
                    if m and arg.get("k") == "ref" and arg.get("id") in ns_ids:
                        return Viol("a second piece is expanded with the caller's continuation although the previous piece was emitted", pt)
            return (m, ever)

        def edge(self, st, bid, edge, cond, truth, s):
            if cond is not None and truth is not None and T.expr_tainted(cond, fn):
                return (bool(truth), st[1] or bool(truth))
            return st
    # sequencing arms only: in the Alternation arm all alternatives deliberately share the continuation
    if arms:
        starts = [e.to for b in fn.blocks.values() for e in b.succs if isinstance(e.lab, dict) and e.lab.get("name") in ("Repetition", "Concat")]
        ctx.floor("sequencing arms (Repetition, Concat) of expand_regex", len(starts), 2)
    else:
        starts = [min(fn.blocks)]
    v, s = None, None
    for st in starts:
        s = Search(fn, Thread(), budget=3000000)
        v = s.run((False, False), start_block=st)
        if v is not None:
            break
    ctx.floor("piece expansions in " + label, len(emits), 8 if arms else 1)
    if v is None:
        ctx.ok("S2", label + ":continuation-threaded", "whenever a piece was emitted, the next piece on that path continues into last_state_id() (%d expansion sites, %d states)" % (len(emits), s.states),
               sample={"function": fn.name, "sites": len(emits)})
    else:
        ctx.bad("S2", label + ":continuation-not-threaded", label + ": at %s %s (sequential pieces of a regex are no longer chained correctly, e.g. `x{n,}` or `(a|b{0,2})c`)" % (fn.loc(v.pt), v.msg),
                {"site": fn.loc(v.pt), "path": s.render_path(v.path)[-6:]})


def c14_tie_break(ctx, F):
    """C14.S1: the two places that decide which of several completed tokens wins use one function."""
    ps = find_fn(ctx, F, "LexTableBuilder::populate_state", "S1")
    if ps:
        if calls_named(ps, "TokenConflictMap", "prefer_token"):
            ctx.ok("S1", "populate_state:uses-prefer_token", "the lex table builder chooses a state's accepted token with TokenConflictMap::prefer_token, as the conflict analysis does")
        else:
            ctx.bad("S1", "populate_state:uses-prefer_token", "LexTableBuilder::populate_state no longer chooses the accepted token with TokenConflictMap::prefer_token: the generated lexer and the conflict "
                    "analysis (token_conflicts.rs) can now disagree on which token wins a tie")
    n = 0
    for fn in F.fn_list:
        if "token_conflicts" in fn.name and calls_named(fn, "prefer_token"):
            n += 1
    if n:
        ctx.ok("S1", "token_conflicts:uses-prefer_token", "%d function(s) of the conflict analysis decide with prefer_token" % n)
    else:
        ctx.bad("S1", "token_conflicts:uses-prefer_token", "the conflict analysis no longer uses prefer_token")


def c01_rust(ctx):
    """C01.G4: tokens that overlap another valid token are marked non-reusable."""
    ctx.config = "rust"
    F = ctx.extract.rsfacts("tree_sitter_generate")
    fn = find_fn(ctx, F, "build_tables::mark_fragile_tokens", "G4")
    if fn:
        sets = calls_named(fn, "set_reusable")
        if len(sets) == 1 and strip(sets[0][1]["a"][1]).get("v") == 0:
            ctx.ok("G4", "mark_fragile_tokens:clears-reusable", "set_reusable(false) at %s" % fn.loc(sets[0][0]))
        else:
            ctx.bad("G4", "mark_fragile_tokens:clears-reusable", "expected exactly one set_reusable(false) call in mark_fragile_tokens")
        sp = [pt for pt, c, d in sets]

        class Overlap(Monitor):
            def elem(self, m, pt, e, s):
                if pt in sp:
                    return False
                return m

            def edge(self, m, bid, edge, cond, truth, s):
                if m and isinstance(edge.lab, dict) and edge.lab.get("name") in ("Some", "None") and is_loop_next_switch(fn, bid):
                    return Viol("an overlapping token pair was found but the entry was not marked non-reusable", (bid, 0))
                if cond is not None and truth is not None:
                    txt, t = cond_text(fn, cond, truth)
                    if "does_overlap" in txt and t:
                        return True
                return m

            def exit(self, m, bid, s):
                return Viol("returns with an overlap found but not recorded") if m else None
        s = Search(fn, Overlap(), budget=2000000)
        v = s.run(False)
        if v is None:
            ctx.ok("G4", "mark_fragile_tokens:overlap-implies-not-reusable", "whenever does_overlap(i, token) holds for a valid terminal of the state, set_reusable(false) runs before the loop moves on (%d states)" % s.states)
        else:
            ctx.bad("G4", "mark_fragile_tokens:overlap-implies-not-reusable", "mark_fragile_tokens: %s" % v.msg, {"path": s.render_path(v.path)[-8:]})
        push = [pt for pt, c, d in calls_named(fn, "Vec", "::push")]
        text_gate(ctx, "G4", fn, push, [("every terminal lookahead of the state is a candidate", [(("is_terminal",), True)])], accept_desc="recording a valid terminal")
        ov = calls_named(fn, "does_overlap")
        if ov:
            ctx.ok("G4", "mark_fragile_tokens:uses-conflict-map", "overlap is decided by TokenConflictMap::does_overlap")
    bt = find_fn(ctx, F, "build_tables::build_tables", "G4")
    if bt:
        mark = [pt for pt, c, d in calls_named(bt, "mark_fragile_tokens")]
        mini = [pt for pt, c, d in calls_named(bt, "minimize_parse_table")]
        ctx.before("G4", "build_tables:mark-after-final-table", bt, mark, mini, "tokens are marked on the final (minimised) parse table")
        ctx.on_all_paths("G4", "build_tables:marks-fragile-tokens", bt, mark, "build_tables marks fragile tokens") if False else None
        if mark:
            ctx.ok("G4", "build_tables:calls-mark_fragile_tokens", "build_tables calls mark_fragile_tokens")
        else:
            ctx.bad("G4", "build_tables:calls-mark_fragile_tokens", "build_tables no longer calls mark_fragile_tokens: every token would stay reusable")

    # the direction of the overlap test: "does another valid token take text away from the entry's token?"
    if fn:
        holder = [fn] + [f for f in F.fn_list if f.name.startswith(fn.name + "::{closure")]
        ov = [(g, pt, c) for g in holder for pt, c, d in calls_named(g, "does_overlap")]
        key = "mark_fragile_tokens:overlap-direction"
        if len(ov) != 1:
            ctx.bad("G4", key, "expected one does_overlap call in mark_fragile_tokens (found %d)" % len(ov))
        else:
            g, pt, c = ov[0]
            a1, a2 = deep_text(g, c["a"][1], user=True), deep_text(g, c["a"][2], user=True)
            entry = lambda t: ".index" in t
            if not entry(a1) and entry(a2):
                ctx.ok("G4", key, "does_overlap(<other valid token>, <this entry's token>.index): the entry is marked when another token valid in the state can take its text")
            else:
                ctx.bad("G4", key, "mark_fragile_tokens asks does_overlap(%s, %s): the directional test is made the wrong way round, so the token that *loses* text to a longer one (`>` against `>>`) "
                        "stays reusable and an old `>` is carried into a state where a fresh lex yields `>>`" % (a1[-40:], a2[-40:]), {"site": g.loc(pt)})

def c13_rust(ctx):
    ctx.config = "rust"
    F = ctx.extract.rsfacts("tree_sitter")
    fn = find_fn(ctx, F, "Parser::set_included_ranges", "G1")
    if not fn:
        return
    oks = [pt for pt, e in fn.points() for n in own_walk(e) if n.get("k") == "assign" and show(n["l"]) == "_0" and strip(n["r"]).get("k") == "agg" and strip(n["r"]).get("variant") == "Ok"]
    ffi = calls_named(fn, "ts_parser_set_included_ranges")
    if len(ffi) != 1:
        ctx.bad("G1", "Parser::set_included_ranges:ffi", "expected one call of ffi::ts_parser_set_included_ranges")
        return
    text_gate(ctx, "G1", fn, oks, [("Ok only when the C setter accepted the list", [(("result",), True), (("ts_parser_set_included_ranges",), True)])], accept_desc="returning Ok(())")
    # each comparison in either operand order, normalised to `x < y`
    texts = []
    for bb in fn.blocks:
        if fn.cond(bb) is None:
            continue
        for t, _ in cond_forms(fn, fn.cond(bb), True):
            if " < " in t:
                texts.append(t)
    a = any(re.search(r"start_byte\)? < \(?\*?\w*prev\w*", t) or re.search(r"start_byte < \w+", t) and "end_byte" not in t.split(" < ")[0] and ".start_byte" not in t.split(" < ")[1] for t in texts)
    b = any(re.search(r"end_byte < [^<]*start_byte", t) for t in texts)
    if a and b:
        ctx.ok("G1", "Parser::set_included_ranges:same-tests", "the error index is found with the same two inequalities the C validator uses")
    else:
        ctx.bad("G1", "Parser::set_included_ranges:same-tests", "the Rust error-index loop no longer tests `start_byte < prev_end_byte` and `end_byte < start_byte` (C and Rust would disagree on the offending index)")


def c10_rust(ctx):
    ctx.config = "rust"
    F = ctx.extract.rsfacts("tree_sitter")
    table = [("Tree::edit", "ts_tree_edit"), ("Node::edit", "ts_node_edit"), ("InputEdit::edit_point", "ts_point_edit"), ("InputEdit::edit_range", "ts_range_edit")]
    for rs, c in table:
        fn = find_fn(ctx, F, rs, "W1")
        if not fn:
            continue
        cs = calls_named(fn, "ffi::" + c)
        others = [x for pt, x, d in calls_named(fn, "ffi::ts_") if c not in (x.get("fn") or "")]
        if len(cs) == 1 and not others:
            ctx.ok("W1", "%s→%s" % (rs, c), "%s calls exactly the C entry point %s" % (rs, c), sample={"rust": rs, "c": c})
        else:
            ctx.bad("W1", "%s→%s" % (rs, c), "%s must call ffi::%s exactly once and no other C entry point (found %d, others %d)" % (rs, c, len(cs), len(others)))
    fn = find_fn(ctx, F, "Tree::edit", "W1")
    if fn:
        sig = [s for s in F.j.get("fns_sig", []) if s["name"].endswith("Tree::edit")]
        if sig and sig[0].get("self") == "&mut self":
            ctx.ok("W1", "Tree::edit:&mut", "Tree::edit requires exclusive access")
        else:
            ctx.bad("W1", "Tree::edit:&mut", "Tree::edit no longer takes &mut self")


DROPS = {"Parser": "ts_parser_delete", "Tree": "ts_tree_delete", "Query": "ts_query_delete", "QueryCursor": "ts_query_cursor_delete",
         "TreeCursor<'_>": "ts_tree_cursor_delete", "LookaheadIterator": "ts_lookahead_iterator_delete", "Language": "ts_language_delete"}
CLONES = {"Tree": "ts_tree_copy", "TreeCursor<'_>": "ts_tree_cursor_copy", "Language": "ts_language_copy"}
SEND_SYNC = {"Language", "Node<'_>", "LookaheadIterator", "LookaheadNamesIterator<'_>", "Parser", "Query", "QueryCursor", "Tree", "TreeCursor<'_>"}


def c07_rust(ctx):
    ctx.config = "rust"
    F = ctx.extract.rsfacts("tree_sitter")
    impls = F.j.get("impls", [])
    for ty, delete in DROPS.items():
        im = [i for i in impls if (i.get("trait") or "").endswith("ops::Drop") and i.get("self") == ty]
        fn = F.fn("<%s as std::ops::Drop>::drop" % ty)
        if im and fn and calls_named(fn, "ffi::" + delete):
            ctx.ok("R1", "Drop:%s" % ty, "impl Drop for %s calls %s" % (ty, delete), sample={"type": ty, "delete": delete})
        else:
            ctx.bad("R1", "Drop:%s" % ty, "impl Drop for %s no longer calls ffi::%s (the C object leaks)" % (ty, delete))
    for ty, copy in CLONES.items():
        fn = F.fn("<%s as std::clone::Clone>::clone" % ty)
        if fn and calls_named(fn, "ffi::" + copy):
            ctx.ok("R1", "Clone:%s" % ty, "impl Clone for %s calls %s" % (ty, copy))
        else:
            ctx.bad("R1", "Clone:%s" % ty, "impl Clone for %s no longer calls ffi::%s (two owners of one C object → double free)" % (ty, copy))
    # no wrapper with a Drop may derive Clone/Copy
    for i in impls:
        if (i.get("trait") or "").endswith("clone::Clone") and i.get("derived") and i.get("self") in DROPS:
            ctx.bad("R1", "derived-Clone:%s" % i["self"], "%s derives Clone although it owns a C object" % i["self"])
    have = {}
    for i in impls:
        t = i.get("trait") or ""
        if i.get("unsafe") and (t.endswith("marker::Send") or t.endswith("marker::Sync")):
            have.setdefault(i["self"], set()).add(t.split("::")[-1])
    for ty in sorted(set(have) | SEND_SYNC):
        if ty in SEND_SYNC and have.get(ty) == {"Send", "Sync"}:
            ctx.ok("R1", "SendSync:%s" % ty, "tabled `unsafe impl Send + Sync`", nontrivial=False)
        elif ty not in SEND_SYNC:
            ctx.bad("R1", "SendSync:%s:untabled" % ty, "new `unsafe impl %s for %s` that the table does not list" % ("/".join(sorted(have[ty])), ty))
        else:
            ctx.bad("R1", "SendSync:%s:changed" % ty, "the Send/Sync impls of %s changed (now %s)" % (ty, sorted(have.get(ty, []))))
    # C-owned buffers are released
    for rs, ffi, how in (("Node::to_sexp", "ts_node_string", "ts_free"), ("Tree::included_ranges", "ts_tree_included_ranges", "ts_free"),
                         ("Tree::changed_ranges", "ts_tree_get_changed_ranges", "CBufferIter")):
        fn = find_fn(ctx, F, rs, "R1")
        if not fn:
            continue
        src = [pt for pt, c, d in calls_named(fn, "ffi::" + ffi)]
        rel = [pt for pt, c, d in calls_named(fn, how)]
        if src and rel:
            ctx.after("R1", "%s:buffer-released" % rs, fn, src, rel, "the buffer returned by %s is handed to %s on every path" % (ffi, how))
        else:
            ctx.bad("R1", "%s:buffer-released" % rs, "%s: the C buffer from %s is not released through %s" % (rs, ffi, how))
    fn = F.fn("<util::CBufferIter<T> as std::ops::Drop>::drop")
    if fn and calls_named(fn, "ts_free"):
        ctx.ok("R1", "CBufferIter:drop-frees", "CBufferIter frees its buffer on drop")
    else:
        ctx.bad("R1", "CBufferIter:drop-frees", "CBufferIter no longer frees the C buffer on drop")


# ---------------------------------------------------------------------------------------------
# Character-class analysis: forward dataflow over a classifier closure's MIR with the domain
# P(ASCII) — which 7-bit inputs reach each block and for which of them each bool local is true.
# Exact for loop-free predicates built from std classifiers, comparisons with constants and
# boolean structure; anything else makes the result None (undecided).

_A = frozenset(range(128))
_ALPHA = frozenset(list(range(65, 91)) + list(range(97, 123)))
_DIGIT = frozenset(range(48, 58))
STD_CLASSES = {
    "is_ascii_alphanumeric": _ALPHA | _DIGIT, "is_alphanumeric": _ALPHA | _DIGIT,
    "is_ascii_alphabetic": _ALPHA, "is_alphabetic": _ALPHA,
    "is_ascii_digit": _DIGIT, "is_numeric": _DIGIT,
    "is_ascii_lowercase": frozenset(range(97, 123)), "is_lowercase": frozenset(range(97, 123)),
    "is_ascii_uppercase": frozenset(range(65, 91)), "is_uppercase": frozenset(range(65, 91)),
    "is_ascii_whitespace": frozenset([9, 10, 12, 13, 32]), "is_whitespace": frozenset([9, 10, 11, 12, 13, 32]),
    "is_ascii_punctuation": frozenset(c for c in range(33, 127) if not chr(c).isalnum()),
    "is_ascii_hexdigit": _DIGIT | frozenset(range(65, 71)) | frozenset(range(97, 103)),
    "is_ascii": _A, "is_ascii_graphic": frozenset(range(33, 127)), "is_ascii_control": frozenset(list(range(32)) + [127]),
}
_CMP = {"==": lambda a, b: a == b, "!=": lambda a, b: a != b, "<": lambda a, b: a < b, "<=": lambda a, b: a <= b, ">": lambda a, b: a > b, ">=": lambda a, b: a >= b}


def ascii_class(fn, param_index=1):
    """Set of ASCII code points the one-argument predicate `fn` accepts, or None if undecided."""
    if len(fn.params) <= param_index:
        return None
    pid = fn.params[param_index]["id"]
    order, seen = [], set()

    def topo(b):
        if b in seen:
            return
        seen.add(b)
        for e in fn.blocks[b].succs:
            topo(e.to)
        order.append(b)
    entry = min(fn.blocks)
    topo(entry)
    order.reverse()
    pos = {b: i for i, b in enumerate(order)}
    if any(pos[e.to] <= pos[b] for b in order for e in fn.blocks[b].succs):
        return None                                   # a loop: not a plain predicate
    IN = {entry: (_A, {pid: "P"})}
    result = [None]

    def val(env, R, e):
        e = strip(e)
        k = e.get("k")
        if k == "ref":
            return env.get(e["id"])
        if k == "un" and e["op"] in ("&", "*"):
            return val(env, R, e["e"])
        if k == "un" and e["op"] == "!":
            v = val(env, R, e["e"])
            return (R - v) if isinstance(v, frozenset) else None
        if k == "cast":
            return val(env, R, e["e"])
        if k in ("int", "const"):
            if e.get("t") == "bool":
                return R if e.get("v") else frozenset()
            return ("K", e.get("v")) if isinstance(e.get("v"), int) else None
        if k == "call":
            nm = (e.get("fn") or "").split("::")[-1]
            a = [val(env, R, x) for x in e.get("a", [])]
            if nm in STD_CLASSES and a and a[0] == "P":
                return R & STD_CLASSES[nm]
            return None
        if k == "bin":
            l, r = val(env, R, e["l"]), val(env, R, e["r"])
            op = e["op"]
            if op in _CMP:
                if l == "P" and isinstance(r, tuple):
                    return frozenset(v for v in R if _CMP[op](v, r[1]))
                if r == "P" and isinstance(l, tuple):
                    return frozenset(v for v in R if _CMP[op](l[1], v))
                if isinstance(l, frozenset) and isinstance(r, frozenset) and op in ("==", "!="):
                    same = (l & r) | (R - l - r)
                    return same if op == "==" else R - same
            if op in ("|", "&", "^") and isinstance(l, frozenset) and isinstance(r, frozenset):
                return {"|": l | r, "&": l & r, "^": l ^ r}[op]
        return None

    acc = frozenset()
    for b in order:
        if b not in IN:
            continue
        R, env = IN[b]
        env = dict(env)
        blk = fn.blocks[b]
        last = None
        for el in blk.elems:
            e = el.get("e", el) if isinstance(el, dict) and "e" in el and "k" not in el else el
            e = strip(e)
            if e.get("k") == "assign" and strip(e["l"]).get("k") == "ref":
                env[strip(e["l"])["id"]] = val(env, R, e["r"])
            elif e.get("k") == "ret":
                v = val(env, R, e["e"])
                if not isinstance(v, frozenset):
                    return None
                acc |= v & R
            last = e
        outs = []
        succs = blk.succs
        if len(succs) > 1:
            c = val(env, R, last) if last is not None else None
            labs = [s.lab for s in succs]
            if all(isinstance(x, str) for x in labs) and set(labs) == {"T", "F"} and isinstance(c, frozenset):
                outs = [(s.to, R & c if s.lab == "T" else R - c) for s in succs]
            elif c == "P":
                cases = set()
                for s in succs:
                    if isinstance(s.lab, dict) and s.lab.get("case"):
                        cases.add(s.lab.get("v"))
                for s in succs:
                    if isinstance(s.lab, dict) and s.lab.get("case"):
                        outs.append((s.to, R & frozenset([s.lab.get("v")])))
                    else:
                        outs.append((s.to, R - frozenset(cases)))
            else:
                return None
        else:
            outs = [(s.to, R) for s in succs]
        for to, r2 in outs:
            if to in IN:
                r0, e0 = IN[to]
                merged = {}
                for kx in set(e0) | set(env):
                    a, bb = e0.get(kx), env.get(kx)
                    if isinstance(a, frozenset) and isinstance(bb, frozenset):
                        merged[kx] = (a & r0) | (bb & r2)
                    elif a == bb:
                        merged[kx] = a
                    elif kx not in e0 and isinstance(bb, frozenset):
                        merged[kx] = bb & r2
                    elif kx not in env and isinstance(a, frozenset):
                        merged[kx] = a & r0
                    else:
                        merged[kx] = None
                IN[to] = (r0 | r2, merged)
            else:
                IN[to] = (r2, {kx: (v & r2 if isinstance(v, frozenset) else v) for kx, v in env.items()})
    return acc


def deep_text(fn, e, depth=0, user=True, _seen=None):
    """Like inline_text but (a) renders aggregates with their fields, (b) also expands user-named
    locals that have exactly one definition (plain `let` bindings) and (c) goes deeper."""
    e = strip(e)
    if e is None:
        return "?"
    _seen = _seen or ()
    k = e.get("k")
    if k == "ref" and depth < 24 and e.get("dk") != "param":
        nm = str(e.get("name", ""))
        if (nm.startswith("_") or user) and e.get("id") not in _seen:
            d = fn.single_def(e["id"])
            if d is not None and isinstance(d, dict) and d.get("k") not in ("uninit", "param"):
                return deep_text(fn, d, depth + 1, user, _seen + (e["id"],))
        return nm
    if k == "call":
        return "%s(%s)" % ((e.get("fn") or "?").split("::<")[0] if False else (e.get("fn") or "?"), ", ".join(deep_text(fn, a, depth + 1, user, _seen) for a in e.get("a", [])))
    if k == "agg":
        nm = (e.get("adt") or "agg").split("::")[-1]
        if e.get("variant"):
            nm += "::" + str(e["variant"])
        return "%s{%s}" % (nm, ", ".join("%s: %s" % (f.get("f"), deep_text(fn, f["e"], depth + 1, user, _seen)) for f in e.get("fields", [])))
    if k == "un":
        return "%s%s" % (e["op"], deep_text(fn, e["e"], depth + 1, user, _seen))
    if k == "bin":
        return "(%s %s %s)" % (deep_text(fn, e["l"], depth + 1, user, _seen), e["op"], deep_text(fn, e["r"], depth + 1, user, _seen))
    if k == "mem":
        b = deep_text(fn, e["b"], depth + 1, user, _seen)
        return "(%s).%s" % (b, e["f"])
    if k == "idx":
        return "%s[%s]" % (deep_text(fn, e["b"], depth + 1, user, _seen), deep_text(fn, e.get("i") or {}, depth + 1, user, _seen))
    if k == "cast":
        return deep_text(fn, e["e"], depth + 1, user, _seen)
    return show(e)
