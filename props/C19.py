"""C19 — grammar loading under concurrency and crashes: the protocol's shape (DESIGN.md §4 C19).

Decides on rustc MIR of tree-sitter-loader: compilation happens only while the lock file is held
and never after waiting; the lock is dropped on every path out of the compile arm; only the tabled
callers compile; compilers write to temp_path(output) and the rename into place is dominated by the
success of every tool run, with the temp file removed on failure; the lock file is created with
create_new and removed on drop; waiting is bounded.  Also reports the two protocol gaps (findings):
a waiter loads without re-checking freshness, and a lock that outlives its owner is never reclaimed.
Does not decide interleavings or crash points themselves.
"""
from common import *  # noqa: F401,F403
import rsrules
from rsrules import calls_named, trace_root, adt
from taint import root_var

FN = "Loader::load_language_at_path_with_name"


def cond_def(fn, cond, depth=0):
    """The defining expression of a MIR branch operand (through single-definition temporaries)."""
    e = strip(cond)
    while depth < 8 and e.get("k") == "ref":
        d = fn.single_def(e["id"])
        if d is None:
            break
        e = strip(d)
        depth += 1
        while e.get("k") == "un" and e["op"] in ("!",):
            break
    return e


def callee_text(c):
    return ((c.get("fn") or "") + " " + (c.get("tfn") or "")) if isinstance(c, dict) and c.get("k") == "call" else ""


class LockMonitor(Monitor):
    """m = (held, waited): `held` after the `Some` arm of the LockFile::create result until a
    LockFile drop; `waited` once wait_for_removal was called."""

    def __init__(self, fn, compile_pts, drop_pts, wait_pts, load_pts):
        self.fn, self.comp, self.drop, self.wait, self.load = fn, set(compile_pts), set(drop_pts), set(wait_pts), set(load_pts)

    def elem(self, m, pt, e, s):
        held, waited, compiled = m
        if pt in self.comp:
            if not held:
                return Viol("a compile call is reached without holding the lock (not in the `Some` arm of LockFile::create)", pt)
            compiled = True
        if pt in self.drop:
            held = False
        if pt in self.wait:
            waited = True
        if pt in self.load and held:
            return Viol("the library is loaded while the lock is still held", pt)
        return (held, waited, compiled)

    def edge(self, m, bid, edge, cond, truth, s):
        held, waited, compiled = m
        if isinstance(edge.lab, dict) and edge.lab.get("name") == "Some" and cond is not None:
            d = cond_def(self.fn, cond)
            if d.get("k") == "call" and d.get("fn") == "discriminant":
                t = (strip(d["a"][0]).get("t") or "")
                if "LockFile" in t:
                    held = True
        return (held, waited, compiled)

    def exit(self, m, bid, s):
        if m[0]:
            return Viol("the function returns with the lock file still held (no drop of the LockFile on this path)")
        return None


def rule_p1(ctx, F):
    fn = ctx.need_fn(F, FN, "P1")
    if not fn:
        return
    comp = [pt for pt, c, d in calls_named(fn, "Loader::compile_parser_to_")]
    create = [pt for pt, c, d in calls_named(fn, "LockFile::create")]
    drops = [pt for pt, c, d in calls_named(fn, "drop", "LockFile")]
    wait = [pt for pt, c, d in calls_named(fn, "LockFile::wait_for_removal")]
    load = [pt for pt, c, d in calls_named(fn, "Loader::load_language")] + [pt for pt, c, d in calls_named(fn, "fs::read")]
    ctx.floor("compile calls in the loader entry point", len(comp), 1)
    ctx.floor("LockFile drops in the loader entry point", len(drops), 1)
    ctx.floor("library load calls in the loader entry point", len(load), 1)
    if not (create and wait):
        ctx.bad("P1", "load:anchors", "LockFile::create (%d) / wait_for_removal (%d) not found in %s" % (len(create), len(wait), FN))
        return
    ctx.before("P1", "load:create-before-compile", fn, comp, create, "LockFile::create precedes every compile call")
    s = Search(fn, LockMonitor(fn, comp, drops, wait, load), budget=3000000)
    v = s.run((False, False, False))
    if v is None:
        ctx.ok("P1", "load:compile-only-under-lock", "compile calls lie in the `Some` arm of LockFile::create, the lock is dropped on every path out (normal and error) and before the library is loaded (%d states)" % s.states,
               sample={"function": fn.name, "compile": [fn.loc(p) for p in comp], "drops": [fn.loc(p) for p in drops], "wait": [fn.loc(p) for p in wait]})
    else:
        ctx.bad("P1", "load:compile-only-under-lock", "%s: %s (%s)" % (FN, v.msg, fn.loc(v.pt) if v.pt else "exit"), {"path": s.render_path(v.path)[-10:]})
    # the compile arm is entered only when a recompile is needed
    ctx.gate("P1", fn, create, [("the lock is taken only when a recompile is needed", "@deref(recompile)", True)], accept_desc="LockFile::create")
    nr = [pt for pt, c, d in calls_named(fn, "needs_recompile")]
    if nr:
        ctx.ok("P1", "load:staleness-check-exists", "needs_recompile(output_path, sources) is consulted (%s)" % fn.loc(nr[0]))
    else:
        ctx.bad("P1", "load:staleness-check-exists", "the loader no longer calls needs_recompile")


def rule_w1(ctx, facts_by_crate):
    allowed = {("tree_sitter_loader", FN): "the locked compile arm",
               ("tree_sitter_cli", "wasm::compile_language_to_wasm"): "CLI `build --wasm`: writes a user-named output file, not the shared cache",
               ("tree_sitter.bin", "wasm::compile_language_to_wasm"): "same function compiled into the binary target"}
    n = 0
    for crate, F in facts_by_crate.items():
        for fn in F.fn_list:
            for pt, c, d in calls_named(fn, "compile_parser_to_"):
                n += 1
                if (crate, fn.name) in allowed:
                    ctx.ok("W1", "%s:%s" % (crate, fn.name), "tabled caller: " + allowed[(crate, fn.name)], sample={"crate": crate, "function": fn.name, "site": fn.loc(pt)})
                else:
                    ctx.bad("W1", "%s:%s:untabled-compile-call" % (crate, fn.name), "%s (%s) calls %s outside the locked compile arm" % (fn.name, crate, c.get("fn")), {"site": fn.loc(pt)})
    ctx.floor("calls of the compile functions across the workspace", n, 2)


class PublishMonitor(Monitor):
    """Every tool run's failure path removes the temp file; the rename happens only after every
    tool run succeeded.  m = (n_success_established, pending_failure)."""

    def __init__(self, fn, rename_pts, remove_pts, n_tools):
        self.fn, self.rename, self.remove, self.n = fn, set(rename_pts), set(remove_pts), n_tools

    def elem(self, m, pt, e, s):
        ok, pending = m
        if pt in self.remove:
            pending = False
        if pt in self.rename and ok < self.n:
            return Viol("rename into place reached after only %d of %d successful tool runs" % (ok, self.n), pt)
        return (ok, pending)

    def edge(self, m, bid, edge, cond, truth, s):
        ok, pending = m
        if cond is not None and truth is not None:
            d = cond_def(self.fn, cond)
            neg = False
            while d.get("k") == "un" and d["op"] == "!":
                neg = not neg
                d = cond_def(self.fn, d["e"])
            if "ExitStatus::success" in callee_text(d):
                t = truth != neg
                if t:
                    ok = min(ok + 1, self.n)
                else:
                    pending = True
        return (ok, pending)

    def exit(self, m, bid, s):
        if m[1]:
            return Viol("a failed tool run returns without removing the temp file")
        return None


def rule_p2(ctx, F):
    for name, n_tools in (("Loader::compile_parser_to_dylib", 1), ("Loader::compile_parser_to_wasm", 2)):
        fn = ctx.need_fn(F, name, "P2")
        if not fn:
            continue
        ren = calls_named(fn, "fs::rename")
        tp = calls_named(fn, "temp_path")
        rem = [pt for pt, c, d in calls_named(fn, "fs::remove_file")]
        if len(ren) != 1 or len(tp) != 1:
            ctx.bad("P2", "%s:anchors" % name, "expected one fs::rename and one temp_path call (found %d, %d)" % (len(ren), len(tp)))
            continue
        pt, c, d = ren[0]
        src, dst = trace_root(fn, c["a"][0]), trace_root(fn, c["a"][1])
        tvar = trace_root(fn, tp[0][2]) if tp[0][2] is not None else None
        targ = trace_root(fn, tp[0][1]["a"][0])
        if src is not None and src == tvar and dst == targ and dst is not None:
            ctx.ok("P2", "%s:rename-temp-into-place" % name, "fs::rename(temp_path(%s) → %s)" % (targ, dst), sample={"function": name, "site": fn.loc(pt), "from": src, "to": dst})
        else:
            ctx.bad("P2", "%s:rename-temp-into-place" % name, "%s: the rename is not `temp_path(output) → output` (from %s, to %s, temp_path(%s) bound to %s)" % (name, src, dst, targ, tvar))
        # …and that local is nothing but the temp path: every definition of it is the temp_path call (a second definition,
        # e.g. the final path itself when no library exists yet, makes the compiler write the published file in place)
        if tvar:
            other = []
            for i in fn.ids_named(tvar):
                for d in fn.defs(i):
                    x = strip(d) if isinstance(d, dict) else None
                    hops = 0
                    while x is not None and x.get("k") == "ref" and str(x.get("name", "")).startswith("_") and hops < 6:
                        x = fn.single_def(x["id"])
                        x = strip(x) if isinstance(x, dict) else None
                        hops += 1
                    if isinstance(d, dict) and d.get("k") in ("uninit",):
                        continue
                    if not (x is not None and x.get("k") == "call" and "temp_path" in (x.get("fn") or "")):
                        other.append(show(d)[:80] if isinstance(d, dict) else "an opaque modification")
            if other:
                ctx.bad("P2", "%s:temp-local-is-only-the-temp-path" % name, "%s: `%s` (what the compiler writes and the rename publishes) is also defined as %s — the tool can write the final path in place, "
                        "so a concurrent loader or a crash sees a half-written library" % (name, tvar, "; ".join(other[:3])))
            else:
                ctx.ok("P2", "%s:temp-local-is-only-the-temp-path" % name, "`%s` has no definition other than temp_path(%s)" % (tvar, targ))
        # the published library is replaced by the rename alone: nothing removes it first (between the unlink and the rename
        # a concurrent loader finds no library — or, with nothing left to load, recompiles under a lock it does not hold)
        wrong = []
        for pt2, c2, d2 in calls_named(fn, "fs::remove_file") + calls_named(fn, "fs::remove_dir_all") + calls_named(fn, "fs::remove_dir"):
            r = trace_root(fn, c2["a"][0]) if c2.get("a") else None
            if r is not None and r == dst:
                wrong.append("%s(%s)" % (c2.get("fn"), r))
        if wrong:
            ctx.bad("P2", "%s:only-the-temp-file-is-removed" % name, "%s removes the final output path itself (%s): the installed library must be replaced atomically by the rename, never unlinked first"
                    % (name, "; ".join(wrong[:3])))
        else:
            ctx.ok("P2", "%s:only-the-temp-file-is-removed" % name, "no fs::remove_* in %s is given the final path `%s` (%d removal(s) of `%s`)" % (name, dst, len(rem), tvar))
        s = Search(fn, PublishMonitor(fn, [pt], rem, n_tools), budget=3000000)
        v = s.run((0, False))
        if v is None:
            ctx.ok("P2", "%s:publish-only-after-success" % name, "the rename is dominated by the success of all %d tool run(s) and every failure path removes the temp file (%d states)" % (n_tools, s.states))
        else:
            ctx.bad("P2", "%s:publish-only-after-success" % name, "%s: %s" % (name, v.msg), {"path": s.render_path(v.path)[-8:]})
        # nothing writes the final path directly
        direct = []
        for pt2, e in fn.points():
            for n in own_walk(e):
                if n.get("k") == "call" and any(x in (n.get("fn") or "") for x in ("File::create", "fs::write", "fs::copy", "OpenOptions")):
                    direct.append((fn.loc(pt2), n.get("fn")))
        if direct:
            ctx.bad("P2", "%s:no-direct-write" % name, "%s writes files directly (%s); the library must only appear through the rename" % (name, direct[:2]))
        else:
            ctx.ok("P2", "%s:no-direct-write" % name, "no File::create / fs::write / fs::copy in the compile function")
        # the compiler is told to write the temp path: some Command::arg/args argument is data-dependent on temp_output
        from taint import Taint
        tids = set(fn.ids_named(tvar or "temp_output"))
        T = Taint(F, [fn], lambda n, f: n.get("k") == "ref" and n.get("id") in tids).run()
        uses = 0
        for pt2, e in fn.points():
            for n in own_walk(e):
                if n.get("k") == "call" and "Command" in (n.get("fn") or "") and "::arg" in n["fn"]:
                    if any(T.expr_tainted(a, fn) for a in n.get("a", [])[1:]):
                        uses += 1
        if uses:
            ctx.ok("P2", "%s:compiler-writes-temp" % name, "the tool's output argument is data-dependent on temp_path(output) (%d Command argument(s))" % uses)
        else:
            ctx.bad("P2", "%s:compiler-writes-temp" % name, "%s: no Command argument derives from temp_path(output): the compiler may write the final path directly" % name)
        # …and none is given the final path
        direct_args = 0
        for pt2, e in fn.points():
            for n in own_walk(e):
                if n.get("k") == "call" and "Command" in (n.get("fn") or "") and "::arg" in n["fn"]:
                    for a in n.get("a", [])[1:]:
                        r = trace_root(fn, a)
                        if r is not None and r == dst:
                            direct_args += 1
        if direct_args:
            ctx.bad("P2", "%s:compiler-not-given-final-path" % name, "%s passes the final output path itself to the compiler (%d argument(s)): readers could observe a partially written library" % (name, direct_args))
        else:
            ctx.ok("P2", "%s:compiler-not-given-final-path" % name, "no Command argument is the final output path")


def rule_p2b(ctx, F):
    """The temp file is private to the compiling process/thread: temp_path's result depends on the
    process id and the thread id (two compilers under different lock paths must not share it)."""
    from taint import Taint
    fn = ctx.need_fn(F, "temp_path", "P2")
    if not fn:
        return
    for label, needle in (("process id", "std::process::id"), ("thread id", "std::thread::current")):
        T = Taint(F, [fn], lambda n, f, nd=needle: n.get("k") == "call" and nd in ((n.get("fn") or "") + (n.get("tfn") or ""))).run()
        rets = [e for pt, e in fn.points() for n in own_walk(e) if n.get("k") == "ret"]
        ret_tainted = any(T.expr_tainted(n["e"], fn) for pt, e in fn.points() for n in own_walk(e) if n.get("k") == "ret" and n.get("e") is not None)
        if ret_tainted:
            ctx.ok("P2", "temp_path:unique-per-%s" % label.split()[0], "the temp file name depends on the %s" % label)
        else:
            ctx.bad("P2", "temp_path:unique-per-%s" % label.split()[0], "temp_path's result no longer depends on the %s: two compilers that do not share a lock path (different cache dirs, or one library spelled two ways) "
                    "write the same temp file and one renames the other's half-written output into place" % label, {"function": "temp_path"})


def rule_w2(ctx, F):
    fn = ctx.need_fn(F, "LockFile::create", "W2")
    if fn:
        cn = [c for pt, c, d in calls_named(fn, "OpenOptions::create_new")]
        if cn and strip(cn[0]["a"][1]).get("v") == 1:
            ctx.ok("W2", "LockFile::create:create_new", "the lock file is created with create_new(true) (atomic exclusive create)")
        else:
            ctx.bad("W2", "LockFile::create:create_new", "LockFile::create no longer opens the lock with create_new(true): two callers can both win")
        tr = [c for pt, c, d in calls_named(fn, "OpenOptions::truncate")] + [c for pt, c, d in calls_named(fn, "OpenOptions::create(")]
    fn = F.fn("<LockFile as std::ops::Drop>::drop")
    if fn and calls_named(fn, "fs::remove_file"):
        c = calls_named(fn, "fs::remove_file")[0][1]
        ctx.ok("W2", "LockFile::drop:removes-file", "dropping the lock removes the lock file")
    else:
        ctx.bad("W2", "LockFile::drop:removes-file", "impl Drop for LockFile no longer removes the lock file")
    fn = ctx.need_fn(F, "LockFile::wait_for_removal", "W2")
    if fn:
        sleeps = [pt for pt, c, d in calls_named(fn, "thread::sleep")]
        now = [pt for pt, c, d in calls_named(fn, "Instant::now")]

        class Bounded(Monitor):
            def elem(self, m, pt, e, s):
                if pt in sleeps:
                    if not m:
                        return Viol("the wait loop sleeps again without having compared the clock with the deadline", pt)
                    return False
                return m

            def edge(self, m, bid, edge, cond, truth, s):
                if cond is not None and truth is not None:
                    d = cond_def(fn, cond)
                    if "PartialOrd" in callee_text(d) and "::gt" in callee_text(d) and truth is False:
                        return True
                return m
        s = Search(fn, Bounded())
        v = s.run(False)
        if v is None and sleeps and len(now) >= 2:
            ctx.ok("W2", "wait_for_removal:bounded", "every iteration compares Instant::now() with the deadline before sleeping; past the deadline it returns an error")
        else:
            ctx.bad("W2", "wait_for_removal:bounded", "LockFile::wait_for_removal can wait without checking its deadline (%s)" % (v.msg if v else "anchors missing"))


class FreshMonitor(Monitor):
    """After wait_for_removal returned, the library must not be loaded before a freshness check
    (needs_recompile) or a compile by this caller."""

    def __init__(self, wait, fresh, load):
        self.wait, self.fresh, self.load = set(wait), set(fresh), set(load)

    def elem(self, m, pt, e, s):
        if pt in self.wait:
            return True
        if pt in self.fresh:
            return False
        if pt in self.load and m:
            return Viol("loads the library right after waiting, without re-checking that it is newer than the sources", pt)
        return m


def rule_p3(ctx, F):
    fn = ctx.need_fn(F, FN, "P3")
    if not fn:
        return
    wait = [pt for pt, c, d in calls_named(fn, "LockFile::wait_for_removal")]
    fresh = [pt for pt, c, d in calls_named(fn, "needs_recompile")] + [pt for pt, c, d in calls_named(fn, "Loader::compile_parser_to_")]
    load = [pt for pt, c, d in calls_named(fn, "Loader::load_language")] + [pt for pt, c, d in calls_named(fn, "fs::read")]
    s = Search(fn, FreshMonitor(wait, fresh, load), budget=3000000)
    v = s.run(False)
    if v is None:
        ctx.ok("P3", "load:waiter-rechecks-freshness", "a caller that waited re-checks freshness (or compiles) before loading")
    else:
        ctx.bad("P3", "load:waiter-loads-without-freshness-check", "%s: a caller that lost the race %s: if the winner's compile failed, an old library at the output path is returned as success" % (FN, v.msg),
                {"site": fn.loc(v.pt), "path": s.render_path(v.path)[-6:]})
    # a lock that outlives its owner must be reclaimable
    w = ctx.need_fn(F, "LockFile::wait_for_removal", "P3")
    if w:
        reclaim = calls_named(w, "fs::remove_file") + calls_named(w, "LockFile::create") + calls_named(fn, "LockFile::steal")
        retry = len(calls_named(fn, "LockFile::create")) > 1
        if reclaim or retry:
            ctx.ok("P3", "load:stale-lock-reclaimed", "a lock that outlives its owner is removed or retried after the timeout")
        else:
            ctx.bad("P3", "load:stale-lock-never-reclaimed", "after the timeout neither %s nor wait_for_removal removes, steals or retries the lock: a lock file left by a killed process makes every later load that needs a recompile fail with LockFileTimeout" % FN,
                    {"function": FN})


class DecisionMonitor(Monitor):
    """The recompile decision is a freshness decision.  Once a branch was taken on something derived
    from the lock file (its path, LockFile::create, exists()), the `recompile` flag may only receive
    the result of needs_recompile or `false`: a leftover lock must never, by itself, send a caller
    with an up-to-date library into the wait loop."""

    def __init__(self, fn, rec_ids):
        self.fn, self.rec = fn, rec_ids

    def elem(self, m, pt, e, s):
        fn = self.fn
        for n in own_walk(e):
            if n.get("k") == "assign" and strip(n["l"]).get("k") == "ref" and strip(n["l"])["id"] in self.rec:
                r = strip(n["r"])
                if r.get("k") == "ref" and r.get("id") in self.rec:
                    continue                                  # a copy between carriers of the flag
                txt = rsrules.inline_text(fn, r)
                if "needs_recompile" in txt:
                    continue
                if r.get("k") == "int" and not r.get("v"):
                    continue
                if "lock_path" in txt or "LockFile" in txt:
                    return Viol("`recompile` is computed from the lock file (`%s`)" % txt[:80], pt)
                if m:
                    return Viol("`recompile` is set to `%s` on a path that branched on the lock file (%s)" % (txt[:40], m), pt)
        return m

    def edge(self, m, bid, edge, cond, truth, s):
        if cond is not None and not m:
            txt = rsrules.inline_text(self.fn, cond)
            # the protocol's own outcomes (won / lost the race, finished waiting) are not "consulting the lock"
            if ("lock_path" in txt or "LockFile" in txt) and "LockFile::create(" not in txt and "wait_for_removal(" not in txt:
                return txt[:80]
        return m


def rule_p4(ctx, F):
    fn = ctx.need_fn(F, FN, "P4")
    if not fn:
        return
    rec = set(fn.ids_named("recompile"))
    if not rec:
        rec = set(i for i in rsrules.locals_of_type(fn, "bool") if any("needs_recompile" in rsrules.inline_text(fn, d) for d in fn.defs(i) if isinstance(d, dict))) if hasattr(rsrules, "locals_of_type") else set()
    if not rec:
        ctx.bad("P4", "load:recompile-flag", "the recompile flag (a bool receiving needs_recompile's result) was not found in %s" % FN)
        return
    # carriers: the flag and every local whose value is copied into it (`?` bindings, `||` temporaries)
    grew = True
    while grew:
        grew = False
        for pt, e in fn.points():
            for n in own_walk(e):
                if n.get("k") == "assign" and strip(n["l"]).get("k") == "ref" and strip(n["l"])["id"] in rec:
                    r = strip(n["r"])
                    if r.get("k") == "ref" and r.get("dk") != "param" and r["id"] not in rec:
                        rec.add(r["id"])
                        grew = True
    defs = [pt for pt, e in fn.points() for n in own_walk(e) if n.get("k") == "assign" and strip(n["l"]).get("k") == "ref" and strip(n["l"])["id"] in rec]
    ctx.floor("definitions of the recompile flag and its carriers", len(defs), 5)
    s = Search(fn, DecisionMonitor(fn, rec), budget=3000000)
    v = s.run(None)
    if v is None:
        ctx.ok("P4", "load:recompile-is-a-freshness-decision", "the recompile flag only ever receives force/needs_recompile results; nothing derived from the lock file decides it (%d definitions, %d states)" % (len(defs), s.states),
               sample={"function": fn.name, "definitions": [fn.loc(p) for p in defs]})
    else:
        ctx.bad("P4", "load:recompile-decided-by-lock-file", "%s: %s at %s — a lock file left by a killed process then makes loads of an up-to-date library wait and fail" % (FN, v.msg, fn.loc(v.pt)),
                {"site": fn.loc(v.pt), "path": s.render_path(v.path)[-6:]})


def rule_p5(ctx, F):
    """The freshness test covers what gets compiled: the list handed to needs_recompile is fed from
    the parser source, the scanner path and the external files, and the scanner path it takes is the
    *resolved* one — no store to config.scanner_path happens after the value was read for the list."""
    from rsrules import deep_text
    fn = ctx.need_fn(F, FN, "P5")
    if not fn:
        return
    nr = calls_named(fn, "needs_recompile")
    if not nr:
        ctx.bad("P5", "load:freshness-list", "needs_recompile is no longer called in %s" % FN)
        return
    lst = rsrules.trace_root(fn, nr[0][1]["a"][1])
    feeds = []
    for pt, e in fn.points():
        for n in own_walk(e):
            if n.get("k") == "call" and len(n.get("a", [])) >= 2 and rsrules.trace_root(fn, n["a"][0]) == lst and \
                    any(x in ((n.get("fn") or "") + (n.get("tfn") or "")) for x in ("::push", "::extend", "::insert")):
                feeds.append((pt, n, deep_text(fn, n["a"][1], user=True)))
    init = " ".join(deep_text(fn, d, user=True) for i in fn.ids_named(lst) for d in fn.defs(i) if isinstance(d, dict)) if lst else ""
    alltxt = init + " " + " ".join(t for _, _, t in feeds)
    # the vec![..] initialiser is built through a boxed array: its operands are the non-expansion moves on the
    # line of the list's definition
    def_lines = set()
    for pt, e in fn.points():
        for n in own_walk(e):
            if n.get("k") == "assign" and strip(n["l"]).get("k") == "ref" and strip(n["l"]).get("name") == lst and (n.get("loc") or {}).get("l"):
                def_lines.add(n["loc"]["l"])
    for pt, e in fn.points():
        for n in own_walk(e):
            lc = n.get("loc") or {}
            if n.get("k") == "assign" and lc.get("l") in def_lines and not lc.get("exp") and strip(n["l"]).get("k") == "ref" and "PathBuf" in (strip(n["l"]).get("t") or ""):
                alltxt += " " + deep_text(fn, n["r"], user=True)
    for what, needle in (("the parser source", "parser.c"), ("the scanner source", "scanner_path"), ("the external files", "external_files")):
        if needle in alltxt or (needle == "parser.c" and "parser_path" in alltxt):
            ctx.ok("P5", "load:freshness-covers-" + needle, "the list given to needs_recompile is fed from %s" % what)
        else:
            ctx.bad("P5", "load:freshness-covers-" + needle, "%s: the list given to needs_recompile is no longer fed from %s: editing it leaves a stale library in use" % (FN, what))
    # stale read of the scanner path
    slice_ids = set()
    work = [n["a"][1] for _, n, t in feeds if "scanner_path" in t]
    while work:
        x = work.pop()
        for y in walk(x):
            if y.get("k") == "ref" and y.get("dk") == "local" and y["id"] not in slice_ids:
                slice_ids.add(y["id"])
                work.extend(d for d in fn.defs(y["id"]) if isinstance(d, dict))
    is_sp = lambda y: y.get("k") == "mem" and y.get("f") == "scanner_path"
    reads = [pt for pt, e in fn.points() for n in own_walk(e) if n.get("k") == "assign" and strip(n["l"]).get("k") == "ref" and strip(n["l"])["id"] in slice_ids and any(is_sp(y) for y in walk(n["r"]))]
    stores = [pt for pt, e in fn.points() for n in own_walk(e) if n.get("k") == "assign" and is_sp(strip(n["l"]))]
    ctx.floor("reads of config.scanner_path feeding the freshness list", len(reads), 1)
    if reads:
        class Stale(Monitor):
            def elem(self, m, pt, e, s):
                if pt in reads:
                    return True
                if pt in stores and m:
                    return Viol("config.scanner_path is (re)assigned after its value was taken for the freshness list", pt)
                return m
        srch = Search(fn, Stale(), budget=3000000)
        v = srch.run(False)
        if v is None:
            ctx.ok("P5", "load:freshness-takes-resolved-scanner-path", "the scanner path enters the freshness list only after its last assignment (%d read(s), %d store(s))" % (len(reads), len(stores)))
        else:
            ctx.bad("P5", "load:freshness-takes-resolved-scanner-path", "%s: %s (%s): an auto-detected scanner.c is compiled but never compared with the library's age" % (FN, v.msg, fn.loc(v.pt)),
                    {"site": fn.loc(v.pt), "path": srch.render_path(v.path)[-5:]})


def rule_p6(ctx, F):
    """P6: needs_recompile answers "no" only after comparing *every* listed source with the library:
    a missing library or any source newer than it means "yes"."""
    from rsrules import iter_vet, text_gate
    fn = ctx.need_fn(F, "needs_recompile", "P6")
    if not fn:
        return
    def ok_points(val):
        out = []
        for pt, e in fn.points():
            for x in own_walk(e):
                if x.get("k") == "assign" and show(x["l"]) == "_0" and strip(x["r"]).get("k") == "agg" and strip(x["r"]).get("variant") == "Ok":
                    f = strip(x["r"]).get("fields") or []
                    if f and strip(f[0]["e"]).get("k") == "int" and bool(strip(f[0]["e"]).get("v")) == val:
                        out.append(pt)
        return out
    no, yes = ok_points(False), ok_points(True)
    ctx.floor("`up to date` returns of needs_recompile", len(no), 1)
    ctx.floor("`stale` returns of needs_recompile", len(yes), 2)
    iter_vet(ctx, "P6", "needs_recompile:every-source-compared", fn, [((" > ", "lib_mtime"), False), (("::gt(",), False), ((" > ",), False)], no,
             "`up to date` is returned only after every listed source was found not newer than the library")
    text_gate(ctx, "P6", fn, no, [("…and only if the library exists", [(("Path::exists(",), True)]),
                                  ("…once the list of sources is exhausted", [(("Iterator>::next(", "=None"), True)])], accept_desc="answering `up to date`")
    mt = calls_named(fn, "mtime")
    if len(mt) >= 2:
        ctx.ok("P6", "needs_recompile:compares-modification-times", "library and source modification times are both read (%d calls)" % len(mt))
    else:
        ctx.bad("P6", "needs_recompile:compares-modification-times", "needs_recompile no longer reads the modification times of both the library and the sources")


LOSSY_TIME = ("::as_secs", "::as_millis", "::as_micros", "::subsec", "::duration_since", "::elapsed", "as_secs_f")


def rule_p7(ctx, F):
    """P7: the freshness comparison is made on the timestamps as the file system reports them.  `needs_recompile` says
    "stale" only if a source is strictly newer than the library, so any rounding of the two times (to whole seconds,
    say) makes a source that was regenerated within the same unit look not newer, and every loader keeps a stale library."""
    fn = ctx.need_fn(F, "mtime", "P7")
    if not fn:
        return
    chain = [fn] + [f for f in F.fn_list if f.name.startswith(fn.name + "::{closure")]
    g = F.fns.get("needs_recompile") or next((f for f in F.fn_list if f.name.endswith("needs_recompile")), None)
    if g is not None:
        chain.append(g)
    lossy = [(f.name, c.get("fn")) for f in chain for pt, c in f.calls() if any(x in (c.get("fn") or "") for x in LOSSY_TIME)]
    ret = str(fn.ret or "")
    if lossy or "SystemTime" not in ret:
        ctx.bad("P7", "mtime:full-precision", "the modification times compared by needs_recompile are %s: a source rewritten within the same unit of time as the library is taken "
                "for not newer and the stale library is loaded" % ("converted by %s in %s" % (lossy[0][1], lossy[0][0]) if lossy else "returned as `%s` instead of SystemTime" % ret[:60]))
    else:
        ctx.ok("P7", "mtime:full-precision", "mtime returns the file system's SystemTime unchanged (no conversion to seconds etc. in mtime / needs_recompile)")
    # …and they are the times of the files' *contents*: the metadata is read through symbolic links (a source that is a
    # link to a shared scanner is as stale as its target; the link's own time never changes when the target is edited)
    meta = [(f.name, c.get("fn") or "") for f in chain for pt, c in f.calls() if "metadata" in (c.get("fn") or "") and "fs::" in (c.get("fn") or "")]
    nofollow = [m for m in meta if "symlink_metadata" in m[1]] + [(f.name, c.get("fn")) for f in chain for pt, c in f.calls() if "read_link" in (c.get("fn") or "")]
    if not meta:
        ctx.bad("P7", "mtime:of-the-contents", "mtime / needs_recompile no longer read the files' metadata through std::fs::metadata")
    elif nofollow:
        ctx.bad("P7", "mtime:of-the-contents", "the modification time compared by needs_recompile is read with %s in %s, i.e. without following symbolic links: editing the target of a linked source "
                "never makes the library look stale, and every loader reports success with the old library" % (nofollow[0][1], nofollow[0][0]))
    else:
        ctx.ok("P7", "mtime:of-the-contents", "the metadata is read with std::fs::metadata, which follows symbolic links (%d call(s))" % len(meta))


def run(ctx):
    ctx.config = "rust"
    F = ctx.extract.rsfacts("tree_sitter_loader")
    ctx.analysed["rust_functions_loader"] = len(F.fn_list)
    rule_p1(ctx, F)
    rule_w1(ctx, {"tree_sitter_loader": F, "tree_sitter_cli": ctx.extract.rsfacts("tree_sitter_cli"), "tree_sitter.bin": ctx.extract.rsfacts("tree_sitter.bin")})
    rule_p2(ctx, F)
    rule_p2b(ctx, F)
    rule_w2(ctx, F)
    rule_p3(ctx, F)
    rule_p4(ctx, F)
    rule_p5(ctx, F)
    rule_p6(ctx, F)
    rule_p7(ctx, F)
    return ctx.finish(
        "Protocol-shape rules over rustc MIR of tree-sitter-loader (non-unwind edges): compile only in the Some arm of LockFile::create and never after waiting; the lock is dropped on "
        "every path out and before loading; compilers write temp_path(output) and rename only after every tool run succeeded, removing the temp file on failure; create_new / remove-on-drop / "
        "bounded wait. Decides the protocol's shape, not the interleavings or crash points.")
