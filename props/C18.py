"""C18 — tags describe the source consistently: the structural part (added after the design; see
DESIGN.md §10.7).

Decides on rustc MIR of tree-sitter-tags, by value-flow over `TagsIter::next` and `line_range`
(every expression is rendered with its single-definition locals expanded, so the rules are about
*which node and which positions a field is computed from*, not about spelling):

  T1  Tag.range is the hull of the tag node's and the name node's byte ranges (min of the starts,
      max of the ends) — the name range is inside the tag range by construction;
  T2  Tag.span is the name node's start..end position and Tag.name_range its byte range;
  T3  the line is computed for the name's start byte *and* the name's start point (same node);
  T4  UTF-16 columns: start = carried column + utf16_len(source[carried byte .. name start]),
      end = start + utf16_len(source[name range]); the carried pair is either (0, line start)
      or the pair cached for an earlier tag on the same row at a column not after this one;
  T5  the cache stores the *end* of the name three times over (point, byte, UTF-16 column) together
      with the line range it was computed with;
  T6  line_range(): the slice is bounded by the text, cut at the newline or at the last valid
      UTF-8 boundary, and trimmed with one whitespace class on both sides;
  T7  a tag is dropped as "local" only under name_must_be_non_local and only for a definition found
      in a scope that contains the name on both sides; names with errors are dropped;
  T8  one tag per name node: the queue is searched and kept sorted by one key.

Does not decide the numeric relations themselves (that utf16_len is the UTF-16 length, that rows and
columns reported by the runtime are right) nor the doc-string text.
"""
import re
from common import *  # noqa: F401,F403
import rsrules
from rsrules import calls_named, find_fn, deep_text, inline_text, text_gate

CRATE = "tree_sitter_tags"


def aggs_of(fn, adt_name):
    out = []
    for pt, e in fn.points():
        for n in own_walk(e):
            if n.get("k") == "agg" and (n.get("adt") or "").split("::")[-1] == adt_name:
                out.append((pt, n))
    return out


def fields(fn, agg):
    return {f.get("f"): f["e"] for f in agg.get("fields", [])}


def resolve(fn, e, stop_named=False):
    """Follow plain copies (`_5 = move x`) to the defining expression; with stop_named, stop at the
    first user-named local that has several definitions."""
    e = strip(e)
    for _ in range(12):
        if e.get("k") != "ref" or e.get("dk") == "param":
            break
        d = fn.single_def(e["id"])
        if d is None or not isinstance(d, dict) or d.get("k") in ("uninit", "param"):
            break
        e = strip(d)
    return e


def balanced_args(text, head):
    """Arguments (balanced parentheses) of every occurrence of `head(` in text."""
    out, i = [], 0
    while True:
        j = text.find(head + "(", i)
        if j < 0:
            return out
        k, depth = j + len(head) + 1, 1
        while k < len(text) and depth:
            depth += {"(": 1, ")": -1}.get(text[k], 0)
            k += 1
        out.append(text[j + len(head) + 1:k - 1])
        i = k


def defs_text(fn, name):
    out = []
    for i in fn.ids_named(name):
        for d in fn.defs(i):
            if isinstance(d, dict) and d.get("k") not in ("uninit", "param"):
                out.append(deep_text(fn, d))
    return out


def rule_next(ctx, F):
    nxt = [f for f in F.fn_list if f.name.startswith("<TagsIter") and f.name.endswith("::next")]
    if not nxt:
        ctx.bad("T1", "anchor:TagsIter::next", "TagsIter::next not found in the MIR facts of tree-sitter-tags")
        return
    fn = nxt[0]
    tags = [(pt, a) for pt, a in aggs_of(fn, "Tag") if len(a.get("fields", [])) >= 8]
    infos = aggs_of(fn, "LineInfo")
    ctx.floor("Tag constructions in TagsIter::next", len(tags), 1)
    ctx.floor("LineInfo constructions in TagsIter::next", len(infos), 1)
    if not tags or not infos:
        return
    pt, tag = tags[0]
    tf = fields(fn, tag)
    T = lambda e: deep_text(fn, e)
    name_range = T(tf["name_range"])
    m = re.match(r"^tree_sitter::Node::<'tree>::byte_range\((.*)\)$", name_range)
    if not m:
        ctx.bad("T2", "next:name_range-is-name-node-range", "Tag.name_range is no longer the byte range of a node (`%s`)" % name_range[:120])
        return
    NAME = m.group(1)
    ctx.ok("T2", "next:name_range-is-name-node-range", "Tag.name_range = byte_range(%s)" % NAME)
    BR = "tree_sitter::Node::<'tree>::byte_range(%s)" % NAME
    SP = "tree_sitter::Node::<'tree>::start_position(%s)" % NAME
    EP = "tree_sitter::Node::<'tree>::end_position(%s)" % NAME

    def verdict(rule, key, ok, good, bad, **sample):
        if ok:
            ctx.ok(rule, key, good, sample=sample or None)
        else:
            ctx.bad(rule, key, bad, sample)

    # T1 hull
    rng = T(tf["range"])
    m = re.match(r"^Range::Range\{start: std::cmp::Ord::min\((.*)\), end: std::cmp::Ord::max\((.*)\)\}$", rng)
    ok = False
    if m:
        s_, e_ = m.group(1), m.group(2)
        others = set(balanced_args(s_, "byte_range")) - {NAME}
        ok = ("(%s).start" % BR) in s_ and ("(%s).end" % BR) in e_ and len(others) == 1 and \
            all(("byte_range(%s)).start" % o) in s_ and ("byte_range(%s)).end" % o) in e_ for o in others)
    verdict("T1", "next:range-is-hull-of-tag-and-name", ok, "Tag.range = min(tag.start, name.start) .. max(tag.end, name.end)",
            "Tag.range is no longer the hull of the tag node's range and the name's range (`%s`): a name captured outside the tag node falls outside the tag's range" % rng[:200], text=rng[:300])
    # T2 span
    span = T(tf["span"])
    verdict("T2", "next:span-is-name-position", span == "Range::Range{start: %s, end: %s}" % (SP, EP), "Tag.span = name.start_position() .. name.end_position()",
            "Tag.span is no longer the name node's start..end position (`%s`)" % span[:200])
    # T3 line: every definition of the line_range local
    lr_e = resolve(fn, tf["line_range"])
    lr_name = lr_e.get("name") if lr_e.get("k") == "ref" else None
    lds = defs_text(fn, lr_name) if lr_name else [T(tf["line_range"])]
    fresh = [d for d in lds if d.startswith("line_range(")]
    cached = [d for d in lds if ".line_range)" in d and "prev_line_info" in d]
    want = "line_range(&*(*self).source, (%s).start, (Range::Range{start: %s, end: %s}).start, MAX_LINE_LEN)" % (BR, SP, EP)
    verdict("T3", "next:line-computed-for-the-name", bool(fresh) and all(d == want for d in fresh) and len(fresh) + len(cached) == len(lds),
            "the line is computed from the name's start byte and the name's start point, or taken from the same-row cache",
            "the tag's line is no longer computed from the name node's own start byte and start point (definitions: %s)" % [d[:160] for d in lds], definitions=[d[:200] for d in lds])
    # T4 utf16 columns
    u = T(tf["utf16_column_range"])
    idx = r"&\*&\*core::slice::index::<impl std::ops::Index<I> for \[T\]>::index\(&\*\(\*self\)\.source, "
    m = re.match(r"^Range::Range\{start: \(\((\w+) \+ utf16_len\(" + idx + r"Range::Range\{start: (\w+), end: \((.*?)\)\.start\}\)\)\)\)\.0, end: (.*)\}$", u)
    ok = False
    P16 = P8 = None
    if m:
        P16, P8, endbr, end_ = m.groups()
        ok = "byte_range(" in endbr and "+ utf16_len(" in end_ and "::clone(&tree_sitter::Node::<'tree>::byte_range(" in end_
    # the un-expanded form is easier to pin exactly: use the named locals
    us = defs_text(fn, "utf16_start_column") or []
    ue = defs_text(fn, "utf16_end_column") or []
    verdict("T4", "next:utf16-start-is-carried-plus-prefix", ok, "utf16 start = carried column + utf16_len(source[carried byte .. name.start]); end = start + utf16_len(source[name range])",
            "Tag.utf16_column_range no longer has the shape carried + utf16_len(source[carried_byte..name.start]) .. + utf16_len(source[name_range]) (`%s`)" % u[:260], text=u[:400])
    if ok:
        p8 = defs_text(fn, P8)
        p16 = defs_text(fn, P16)
        line_start = "(((%s).start - ((Range::Range{start: %s, end: %s}).start).column)).0" % (BR, SP, EP)
        ok8 = len(p8) == 2 and line_start in p8 and any(d.endswith(".utf8_byte") and "prev_line_info" in d for d in p8)
        ok16 = len(p16) == 2 and "0" in p16 and any(d.endswith(".utf16_column") and "prev_line_info" in d for d in p16)
        verdict("T4", "next:carried-byte-is-line-start-or-cache", ok8, "the carried byte is the line start (name.start - name column) or the cached byte",
                "the byte the UTF-16 prefix is measured from is no longer {name.start - name.column, cached utf8_byte} (definitions: %s)" % [d[:120] for d in p8])
        verdict("T4", "next:carried-column-is-zero-or-cache", ok16, "the carried UTF-16 column is 0 or the cached column",
                "the carried UTF-16 column is no longer {0, cached utf16_column} (definitions: %s)" % [d[:120] for d in p16])
        # the cache is used only for the same row and a column not after this name
        use = []
        for i in fn.ids_named(P8) + fn.ids_named(P16):
            for pt2, e2 in fn.points():
                for n in own_walk(e2):
                    if n.get("k") == "assign" and strip(n["l"]).get("k") == "ref" and strip(n["l"])["id"] == i and ("utf8_byte" in inline_text(fn, n["r"]) or "utf16_column" in inline_text(fn, n["r"])):
                        use.append(pt2)
        ctx.floor("uses of the cached line position", len(use), 2)
        text_gate(ctx, "T4", fn, use, [("the cached position is used only if it is not after this name on the line", [((".utf8_position.column <= ", ".start.column)"), True)])], accept_desc="taking the cached byte/column")
        flt = [f for f in F.fn_list if f.name.startswith(fn.name + "::{closure") and any("utf8_position" in inline_text(f, e) for _, e in f.points())]
        okf = False
        for f in flt:
            for _, e in f.points():
                for n in own_walk(e):
                    if n.get("k") == "bin" and n.get("op") == "==" and "utf8_position.row" in inline_text(f, n["l"]) + inline_text(f, n["r"]) and "_1.0" in inline_text(f, n["l"]) + inline_text(f, n["r"]):
                        okf = True
        # …and what the closure captured is this name's start row
        cap = " ".join(d for nm in set(fn._names.values()) for d in defs_text(fn, nm) if "prev_line_info" in d and "closure{" in d)
        okf = okf and ("closure{0: &((Range::Range{start: %s, end: %s}).start).row}" % (SP, EP)) in cap
        verdict("T4", "next:cache-only-for-same-row", okf, "the cached line info is considered only when its row equals this name's row",
                "the filter on prev_line_info no longer compares rows for equality: a cache entry of another line would be used")
    # T5 cache write
    ipt, info = infos[0]
    inf = fields(fn, info)
    end16 = None
    m2 = re.match(r"^Range::Range\{start: .*, end: (\(\(\(\(.*)\}$", u)
    ok5 = T(inf.get("utf8_position")) == "(Range::Range{start: %s, end: %s}).end" % (SP, EP) and T(inf.get("utf8_byte")) == "(%s).end" % BR
    i16 = resolve(fn, inf.get("utf16_column"))
    rng_def = resolve(fn, tf["utf16_column_range"])
    end_e = None
    if rng_def.get("k") == "agg":
        end_e = {f.get("f"): f["e"] for f in rng_def["fields"]}.get("end")
    # the cached column is the very value that ends the tag's utf16 range
    same16 = end_e is not None and deep_text(fn, resolve(fn, end_e)) == deep_text(fn, i16)
    lr_i = T(inf.get("line_range"))
    verdict("T5", "next:cache-stores-end-of-name", ok5 and same16 and lr_i.endswith("::clone(&%s)" % (lr_name or "?")),
            "the cache entry is (name end point, name end byte, the tag's UTF-16 end column, the tag's line range)",
            "the LineInfo stored for the next tag on the line no longer describes the end of this name consistently (position `%s`, byte `%s`, column same as tag end: %s)" % (
                T(inf.get("utf8_position"))[:80], T(inf.get("utf8_byte"))[:80], same16))
    # T7 omission rules
    conts = [p for p, c, d in calls_named(fn, "Node", "has_error")]
    verdict("T7", "next:names-with-errors-dropped", bool(conts), "a name node containing an error yields no tag", "TagsIter::next no longer tests name_node.has_error()")
    # the "is local" flag: a bool set to true only after a look-up in some scope's local_defs
    loc = []
    for pt2, e2 in fn.points():
        for n in own_walk(e2):
            if n.get("k") == "assign" and strip(n["l"]).get("k") == "ref" and strip(n["l"]).get("t") == "bool" and strip(n["r"]).get("k") == "int" and strip(n["r"]).get("v") == 1 \
                    and not str(strip(n["l"]).get("name", "")).startswith("_"):
                srch = Search(fn, rsrules.TextGate(fn, [pt2], [(("Iterator>::any(",), True)]), budget=2000000)
                if srch.run(0) is None:
                    loc.append(pt2)
    ctx.floor("`is_local = true` sites", len(loc), 1)
    if loc:
        text_gate(ctx, "T7", fn, loc, [
            ("a name is local only if the query asks for non-local names", [(("name_must_be_non_local",), True)]),
            ("…the scope starts at or before the name", [((".range.start <= ", ".start)"), True)]),
            ("…and ends at or after it", [((".range.end >= ", ".end)"), True)]),
        ], accept_desc="declaring the name local")
    # T8 dedup key
    bs = calls_named(fn, "binary_search_by_key")
    okk = False
    for p, c, d in bs:
        key = deep_text(fn, c["a"][1])
        okk = bool(re.search(r"0: \(.*name_range\)\.end, 1: \(.*name_range\)\.start", key)) or (".end" in key and ".start" in key and "name_range" in key)
    kc = [f for f in F.fn_list if f.name.startswith(fn.name + "::{closure") and any("name_range" in inline_text(f, e) for _, e in f.points())]
    okc = any(".end" in " ".join(inline_text(f, e) for _, e in f.points()) and ".start" in " ".join(inline_text(f, e) for _, e in f.points()) for f in kc)
    verdict("T8", "next:queue-searched-by-name-range", bool(bs) and okk and okc, "the tag queue is searched by (name_range.end, name_range.start) on both sides",
            "the tag queue is no longer searched with the key (name_range.end, name_range.start) on both the probe and the stored tags")
    # an existing tag for the same name node is replaced only by a match of an earlier pattern
    repl = [pt2 for pt2, e2 in fn.points() for n in own_walk(e2) if n.get("k") == "assign" and strip(n["l"]).get("k") == "un" and "Tag" in (strip(n["r"]).get("t") or "") + rsrules.inline_text(fn, n["r"])
            and strip(n["r"]).get("k") == "ref"]
    repl = [p for p in repl if any(".pattern_index" in rsrules.cond_text(fn, fn.cond(b.id), True)[0] and " > " in rsrules.cond_text(fn, fn.cond(b.id), True)[0] for b in fn.blocks.values() if fn.cond(b.id) is not None)]
    if repl:
        text_gate(ctx, "T8", fn, repl[:1] if False else repl, [("an existing tag is replaced only by a match of an earlier pattern", [((" > (*", ").pattern_index)"), True)])], accept_desc="replacing a queued tag")


def rule_docs(ctx, F):
    """D1 (select-adjacent docs): walking upwards from the adjacent node, a doc node joins the chain iff its
    *end* row + 1 reaches the *start* row of the node below it; the docs are the chain from that index on."""
    nxt = [f for f in F.fn_list if f.name.startswith("<TagsIter") and f.name.endswith("::next")]
    if not nxt:
        return
    fn = nxt[0]
    # the comparison `end_row + 1 >= start_row`
    cmp_blk = None
    for b in fn.blocks.values():
        c = fn.cond(b.id)
        if c is None:
            continue
        d = rsrules.cond_def(fn, c)
        if d.get("k") == "bin" and d.get("op") in (">=", "<=", "<", ">"):
            lt, rt = deep_text(fn, d["l"], user=True), deep_text(fn, d["r"], user=True)
            if "end_position(" in lt + rt and "doc_nodes" in lt + rt:
                cmp_blk = (b.id, d, lt, rt)
    if not cmp_blk:
        ctx.bad("D1", "next:adjacency-test", "the select-adjacent test (a doc node's end row against the row below) was not found in TagsIter::next")
        return
    bid, d, lt, rt = cmp_blk
    end_side, other = (d["l"], d["r"]) if "end_position(" in lt else (d["r"], d["l"])
    et = deep_text(fn, end_side, user=True)
    ok_end = "end_position(" in et and ").row + 1)" in et and "start_position(" not in et
    o = resolve(fn, other)
    row_ids = [o["id"]] if o.get("k") == "ref" else []
    defs = [deep_text(fn, x, user=True) for i in row_ids for x in fn.defs(i) if isinstance(x, dict) and x.get("k") not in ("uninit", "param")]
    ok_rows = bool(defs) and all("start_position(" in t and t.endswith(".row") and "end_position(" not in t for t in defs)
    if ok_end and ok_rows and len(defs) >= 2:
        ctx.ok("D1", "next:adjacency-measures-end-against-start", "a doc node is adjacent iff its end row + 1 reaches the start row of the node below (%d definitions of that row, all start rows)" % len(defs))
    else:
        ctx.bad("D1", "next:adjacency-measures-end-against-start", "the select-adjacent chain no longer compares `end row + 1` of a doc node with the *start* row of the node below it (row definitions: %s): "
                "docs above a multi-line doc node are dropped or wrongly kept" % [t[-60:] for t in defs], {"rows": [t[:160] for t in defs]})
    dec = [pt for pt, e in fn.points() for x in own_walk(e) if x.get("k") == "assign" and strip(x["l"]).get("k") == "ref" and not str(strip(x["l"]).get("name", "_")).startswith("_")
           and "usize" in (strip(x["l"]).get("t") or "") and re.search(r"\(%s - 1\)" % re.escape(strip(x["l"]).get("name", "?")), inline_text(fn, x["r"]))]
    if dec:
        text_gate(ctx, "D1", fn, dec, [("a doc node is taken into the chain only when it is adjacent", [((" + 1).0 >= ",), True), ((" < ", "+ 1"), False)])], accept_desc="extending the doc chain")
    else:
        ctx.bad("D1", "next:chain-extension", "the doc chain is no longer extended by decrementing the start index")
    sl = [x for pt, e in fn.points() for x in own_walk(e) if x.get("k") == "call" and "Index" in (x.get("fn") or "") and len(x.get("a", [])) == 2 and "doc_nodes" in deep_text(fn, x["a"][0], user=False)
          and deep_text(fn, x["a"][1], user=False).startswith("RangeFrom")]
    if sl:
        ctx.ok("D1", "next:docs-are-the-chain", "the doc string is built from doc_nodes[start_index..]")
    else:
        ctx.bad("D1", "next:docs-are-the-chain", "the doc string is no longer built from doc_nodes[start_index..]")


def rule_line_range(ctx, F):
    fn = find_fn(ctx, F, "line_range", "T6")
    if not fn:
        return
    # slice bound
    mins = [(pt, c) for pt, c, d in calls_named(fn, "Ord::min")]
    okb = False
    for pt, c in mins:
        a = [inline_text(fn, x) for x in c["a"]]
        if any("len(" in x and "-" in x for x in a) and any("max_line_len" in x for x in a):
            okb = True
    idx = [(pt, c) for pt, c, d in calls_named(fn, "Index", "index")]
    oki = False
    for pt, c in idx:
        t = deep_text(fn, c["a"][1], user=False)
        if "Range{" in t and "max_line_len" in t:
            oki = True
    if okb and oki:
        ctx.ok("T6", "line_range:slice-bounded-by-text", "the line window is source[line_start .. line_start + min(max_line_len, text.len() - line_start)]")
    else:
        ctx.bad("T6", "line_range:slice-bounded-by-text", "line_range no longer clamps the window to the text (`min(max_line_len, text.len() - line_start)`): a name near the end of the file slices past the text")
    # line length: newline, else valid prefix, else whole window
    ld = []
    for lc in fn.j.get("locals", []) or []:
        ds = [deep_text(fn, d) for d in fn.defs(lc["id"]) if isinstance(d, dict) and d.get("k") != "uninit"]
        if not str(lc.get("name", "_")).startswith("_") and any("valid_up_to" in d for d in ds):
            ld = ds
    nl = [c for pt, c, d in calls_named(fn, "memchr") if strip(c["a"][0]).get("v") == 10]
    vu = calls_named(fn, "Utf8Error", "valid_up_to")
    if nl and vu and any("valid_up_to" in d for d in ld) and len(ld) == 3 and sum(1 for d in ld if "memchr" in d) == 1 and sum(1 for d in ld if "valid_up_to" in d) == 1 and sum(1 for d in ld if "memchr" not in d and "valid_up_to" not in d and "Ord::min" in d) == 1:
        ctx.ok("T6", "line_range:cut-at-newline-or-valid-prefix", "line length = position of '\\n', else the valid UTF-8 prefix of the window, else the window")
    else:
        ctx.bad("T6", "line_range:cut-at-newline-or-valid-prefix", "line_range's length is no longer {memchr('\\n'), Utf8Error::valid_up_to, max_line_len} (definitions: %s): the line can end inside a character or run past the newline" % ld)
    # trimming: one class on both sides, loops bounded
    ws = [(pt, c) for pt, c, d in calls_named(fn, "is_ascii_whitespace")]
    others = [(pt, c) for pt, c, d in calls_named(fn, "is_") if "is_ascii_whitespace" not in (c.get("fn") or "") and "whitespace" in (c.get("fn") or "")]
    if len(ws) >= 2 and not others:
        ctx.ok("T6", "line_range:one-whitespace-class", "leading and trailing trimming use the same class (u8::is_ascii_whitespace)")
    else:
        ctx.bad("T6", "line_range:one-whitespace-class", "line_range trims its two ends with different whitespace tests (%d × is_ascii_whitespace, %d other)" % (len(ws), len(others)))
    if len(ws) >= 2:
        pts = sorted(pt for pt, c in ws)
        text_gate(ctx, "T6", fn, pts[:1], [("leading trim stays inside the text", [(("line_start_byte", "<", "len("), True)])], accept_desc="reading a byte while trimming the start")
        text_gate(ctx, "T6", fn, pts[1:2], [("trailing trim stops at the line start", [(("line_end_byte", ">", "line_start_byte"), True)])], accept_desc="reading a byte while trimming the end")
    u = find_fn(ctx, F, "utf16_len", "T6")
    if u:
        cl = [f for f in F.fn_list if f.name.startswith("utf16_len::{closure")]
        body = " ".join(inline_text(f, e) for f in cl for _, e in f.points())
        if calls_named(u, "LossyUtf8") and "len_utf16" in body:
            ctx.ok("T6", "utf16_len:sums-len_utf16-over-lossy-chars", "utf16_len sums char::len_utf16 over the lossily decoded text")
        else:
            ctx.bad("T6", "utf16_len:sums-len_utf16-over-lossy-chars", "utf16_len no longer sums char::len_utf16 over LossyUtf8 chunks")


def rule_ignored(ctx, F):
    """I1: a placeholder never leaves the iterator.  A match with an @ignore capture is queued as Tag::ignored (range
    usize::MAX..usize::MAX, empty line range) so that it can cancel a real tag for the same name; every exit that hands out
    a tag taken from the queue must have tested is_ignored() on it — also the final drain when the matches are exhausted."""
    from rsrules import calls_named, text_gate, deep_text, some_ret_points
    fn = next_fn(F)
    if fn is None:
        return
    outs = []
    for pt in some_ret_points(fn):
        a = [x for x in own_walk(fn.blocks[pt[0]].elems[pt[1]]["e"]) if x.get("k") == "assign"][0]
        t = deep_text(fn, a["r"], user=True)
        if "Result::Ok" in t and "tag_queue" in t:
            outs.append(pt)
    ctx.floor("exits of TagsIter::next that return a queued tag", len(outs), 2)
    text_gate(ctx, "I1", fn, outs, [("a queued tag is returned only after is_ignored() said no", [(("is_ignored(",), False)])], accept_desc="returning a tag taken from the queue")


def rule_cache_one_line(ctx, F):
    """I2: the per-line cache describes one line.  It is keyed by the row of the name's *end* position but its line range
    and UTF-16 column were computed for the line on which the name *starts*; the two agree only for a name that does not
    span lines.  So a LineInfo built from span.end may be stored only when start and end row were found equal (or the
    cache is left empty otherwise)."""
    from rsrules import text_gate, deep_text
    fn = next_fn(F)
    if fn is None:
        return
    aggs = [(pt, x) for pt, e in fn.points() for x in own_walk(e) if x.get("k") == "agg" and "LineInfo" in str(x.get("adt"))]
    if not aggs:
        ctx.bad("I2", "next:line-cache-one-line", "TagsIter::next no longer builds a LineInfo for its per-line cache")
        return
    need = []
    for pt, x in aggs:
        flds = {f["f"]: deep_text(fn, f["e"], user=False) for f in x.get("fields", [])}
        if ".end" in flds.get("utf8_position", "") :
            need.append(pt)
    if not need:
        ctx.ok("I2", "next:line-cache-one-line", "the cache is keyed by the same position its line range was computed for")
        return
    text_gate(ctx, "I2", fn, need, [("a cache entry keyed by the name's end is stored only for a name that starts and ends on the same row", [((".row", " == ", ".row"), True), ((".row", " != ", ".row"), False)])],
              accept_desc="building the cache entry from the name's end position")


def next_fn(F):
    c = [f for f in F.fn_list if f.name.startswith("<TagsIter") and f.name.endswith("::next")]
    return c[0] if c else None


def rule_scope_walk(ctx, F):
    """L2: whether a name is local is decided by the scopes that *contain* it.  The scope list is never popped, so the
    walk from the innermost scope outwards meets scopes that are already closed; only a scope whose range contains the
    name may end the walk (by holding the definition, or by not inheriting from its parent).  So the `inherits` flag of
    a scope is consulted only after both containment tests on that scope succeeded."""
    from rsrules import text_gate
    fn = next_fn(F)
    if fn is None:
        return
    reads = sorted({pt for pt, e in fn.points() for x in walk(e) if x.get("k") == "mem" and x.get("f") == "inherits" and "LocalScope" in str(x.get("rec") or "LocalScope")
                    and not any(y.get("k") == "agg" for y in walk(e))})
    if not reads:
        ctx.bad("L2", "next:scope-walk", "TagsIter::next no longer consults a scope's `inherits` flag when resolving local names")
        return
    text_gate(ctx, "L2", fn, reads, [
        ("the scope starts at or before the name", [((".range.start <= ",), True), ((".range).start <= ",), True)]),
        ("…and ends at or after it", [((".range.end >= ",), True), ((".range).end >= ",), True)]),
    ], accept_desc="letting a scope's `inherits` flag end the search")


def rule_fresh_parse(ctx, F):
    """R1: every document is tagged from its own parse.  A TagsContext keeps one Parser; a run that was cancelled while
    parsing leaves an outstanding parse in it, and the next parse call would *resume* it against the new text.  So on
    every path to the parse call in generate_tags the parser was reset — by Parser::reset or by Parser::set_language
    (which resets) — in this call."""
    from rsrules import calls_named, find_fn
    fn = find_fn(ctx, F, "TagsContext::generate_tags", "R1")
    if not fn:
        return
    use = [pt for pt, c, d in calls_named(fn, "Parser", "::parse")]
    rst = [pt for pt, c, d in calls_named(fn, "Parser", "::reset")] + [pt for pt, c, d in calls_named(fn, "Parser", "::set_language")]
    ctx.floor("parse calls in generate_tags", len(use), 1)
    if not rst:
        ctx.bad("R1", "generate_tags:parser-reset-before-parse", "generate_tags neither resets its parser nor assigns the language before parsing: after a run that was cancelled while parsing, "
                "the next document is parsed as the continuation of the previous one and its tags carry the previous document's positions")
        return
    ctx.before("R1", "generate_tags:parser-reset-before-parse", fn, use, rst, "the parser is reset (Parser::reset or Parser::set_language) on every path before the document is parsed")


def run(ctx):
    ctx.config = "rust"
    F = ctx.extract.rsfacts(CRATE)
    ctx.analysed["rust_functions"] = len(F.fn_list)
    rule_next(ctx, F)
    rule_line_range(ctx, F)
    rule_docs(ctx, F)
    rule_fresh_parse(ctx, F)
    rule_ignored(ctx, F)
    rule_cache_one_line(ctx, F)
    rule_scope_walk(ctx, F)
    return ctx.finish(
        "Value-flow rules over rustc MIR of tree-sitter-tags (TagsIter::next, line_range, utf16_len): which node and which positions each field of a Tag and of the "
        "per-line cache is computed from, the gates on using the cache and on dropping a tag, and the bounds of the line window. "
        "Does not decide the numeric relations (UTF-16 lengths, rows/columns) or doc-string text.")
