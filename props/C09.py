"""C09 — the tree is a pure function of language, text and included ranges: reset / resume state
discipline (DESIGN.md §4 C09).

Decides: every field of TSParser is classified and the RESET ones are re-initialised on every path
of ts_parser_reset; a completed or failed parse and a language change go through ts_parser_reset;
before the parse loop, a resumed parse (outstanding parse) stores to no parser state except the
per-call counters; a new input clears the cached chunk.  Does not decide tree equality across
chunkings/encodings.
"""
from common import *  # noqa: F401,F403
from cstores import stores, writes_record, lvalue_chain

# field -> (class, statement patterns that re-initialise it in ts_parser_reset, branch outcomes that show it is already clear)
PARSER_FIELDS = {
    "lexer": ("RESET", ["ts_lexer_reset(&self->lexer, length_zero())"], []),
    "stack": ("RESET", ["ts_stack_clear(self->stack)"], []),
    "finished_tree": ("RESET", ["self->finished_tree = _"], [("self->finished_tree.ptr", False)]),
    "token_cache": ("RESET", ["ts_parser__set_cached_token(self, 0, _, _)"], []),
    "reusable_node": ("RESET", ["reusable_node_clear(&self->reusable_node)"], []),
    "external_scanner_payload": ("RESET", ["ts_parser__external_scanner_destroy(self)"], []),
    "old_tree": ("RESET", ["self->old_tree = _"], [("self->old_tree.ptr", False)]),
    "accept_count": ("RESET", ["self->accept_count = 0"], []),
    "has_scanner_error": ("RESET", ["self->has_scanner_error = 0"], []),
    "has_error": ("RESET", ["self->has_error = 0"], []),
    "canceled_balancing": ("RESET", ["self->canceled_balancing = 0"], []),
    "parse_options": ("RESET", ["self->parse_options = _"], []),
    "parse_state": ("RESET", ["self->parse_state = _"], []),
    "canceled_parsing": ("RESET", ["self->canceled_parsing = 0"], []),
    "resume_position": ("RESET", ["self->resume_position = 0"], []),
    "resume_last_position": ("RESET", ["self->resume_last_position = 0"], []),
    "resume_version": ("RESET", ["self->resume_version = 0"], []),
    "operation_count": ("PARSE-START", "set to 0 by ts_parser_parse before the loop on every call"),
    "included_range_differences": ("FRESH-START", "cleared and recomputed when a new parse starts (not on resume)"),
    "included_range_difference_index": ("FRESH-START", "reset when a new parse starts (not on resume)"),
    "language": ("CONFIG", "set by ts_parser_set_language"),
    "wasm_store": ("CONFIG", "set by ts_parser_set_wasm_store"),
    "dot_graph_file": ("CONFIG", "debug output only"),
    "tree_pool": ("INFRA", "allocation cache; contents never observable"),
    "reduce_actions": ("SCRATCH", "cleared by ts_parser__do_all_potential_reductions before each use"),
    "trailing_extras": ("SCRATCH", "cleared by ts_subtree_array_remove_trailing_extras before each use"),
    "trailing_extras2": ("SCRATCH", "cleared by ts_subtree_array_remove_trailing_extras before each use"),
    "scratch_trees": ("SCRATCH", "overwritten by array_assign before each use"),
}

LEXER_FIELDS = {
    "data": "function table fixed at init; lookahead/result_symbol re-set by ts_lexer_goto / ts_lexer_start",
    "current_position": "RESET by ts_lexer_goto",
    "token_start_position": "TOKEN-LOCAL: ts_lexer_start",
    "token_end_position": "TOKEN-LOCAL: ts_lexer_start",
    "included_ranges": "CONFIG: ts_lexer_set_included_ranges",
    "included_range_count": "CONFIG: ts_lexer_set_included_ranges",
    "chunk": "PARSE-START: cleared by ts_lexer_set_input",
    "chunk_start": "PARSE-START: cleared by ts_lexer_set_input",
    "chunk_size": "PARSE-START: cleared by ts_lexer_set_input",
    "input": "PARSE-START: ts_lexer_set_input",
    "logger": "CONFIG",
    "current_included_range_index": "RESET by ts_lexer_goto",
    "lookahead_size": "RESET by ts_lexer_goto",
    "did_get_column": "TOKEN-LOCAL: ts_lexer_start",
    "column_data": "invalidated by ts_lexer_goto when the position changes",
    "debug_buffer": "SCRATCH",
}

# what a resumed parse may touch before the loop
RESUME_ALLOWED_FIELDS = {"operation_count"}
RESUME_ALLOWED_CALLS = {"ts_lexer_set_input", "ts_language_is_wasm", "ts_wasm_store_start", "ts_parser_has_outstanding_parse", "ts_parser__log"}


def rule_f1(ctx, F):
    fields = F.record_fields("TSParser")
    fn = ctx.need_fn(F, "ts_parser_reset", "F1")
    if not fields or not fn:
        ctx.bad("F1", "missing-record:TSParser", "record TSParser / ts_parser_reset not found")
        return
    for f in fields:
        if f not in PARSER_FIELDS:
            ctx.bad("F1", "UNCLASSIFIED-FIELD:TSParser.%s" % f, "TSParser has a field `%s` that the rule table does not classify (must it be reset between parses?)" % f)
            continue
        spec = PARSER_FIELDS[f]
        if spec[0] != "RESET":
            ctx.ok("F1", "TSParser.%s" % f, "%s: %s" % (spec[0], spec[1]), nontrivial=False)
            continue
        pts = []
        for p in spec[1]:
            pts += [pt for pt, n in find(fn, p)]
        ctx.established_at_exit("F1", "TSParser.%s" % f, fn, pts, spec[2], "ts_parser_reset re-initialises %s" % f)
    for f in PARSER_FIELDS:
        if f not in fields:
            ctx.bad("F1", "STALE-FIELD:TSParser.%s" % f, "rule table names a field `%s` that TSParser no longer has" % f)
    lf = F.record_fields("Lexer") or []
    for f in lf:
        if f not in LEXER_FIELDS:
            ctx.bad("F1", "UNCLASSIFIED-FIELD:Lexer.%s" % f, "Lexer has a field `%s` that the rule table does not classify" % f)
    ctx.floor("Lexer fields", len(lf), 16)
    # callee side of three RESET entries
    g = ctx.need_fn(F, "ts_parser__external_scanner_destroy", "F1")
    if g:
        ctx.on_all_paths("F1", "external_scanner_destroy:clears-payload", g, [pt for pt, n in find(g, "self->external_scanner_payload = NULL")],
                         "ts_parser__external_scanner_destroy clears external_scanner_payload")
    g = ctx.need_fn(F, "ts_lexer_goto", "F1")
    if g:
        ctx.on_all_paths("F1", "ts_lexer_goto:lookahead-invalidated", g, [pt for pt, n in find(g, "self->lookahead_size = _")], "ts_lexer_goto resets lookahead_size")
        ctx.on_all_paths("F1", "ts_lexer_goto:position-set", g, [pt for pt, n in find(g, "self->current_position = position")], "ts_lexer_goto sets current_position")
        ctx.established_at_exit("F1", "ts_lexer_goto:column-invalidated", g, [pt for pt, n in find(g, "ts_lexer__invalidate_column_data(self)")],
                                [("position.bytes != self->current_position.bytes", False)], "ts_lexer_goto invalidates cached column data when the position changes")
    g = ctx.need_fn(F, "ts_lexer_start", "F1")
    if g:
        for f, p in (("token_start_position", "self->token_start_position = self->current_position"), ("token_end_position", "self->token_end_position = _"),
                     ("result_symbol", "self->data.result_symbol = 0"), ("did_get_column", "self->did_get_column = 0")):
            ctx.on_all_paths("F1", "ts_lexer_start:" + f, g, [pt for pt, n in find(g, p)], "ts_lexer_start re-initialises " + f)
    # SCRATCH: cleared before use
    g = ctx.need_fn(F, "ts_subtree_array_remove_trailing_extras", "F1")
    if g:
        clr = [pt for pt, n in find(g, "destination->size = 0")]
        pushes = [pt for pt, c in g.calls() if c.get("fn") == "_array__grow"]
        ctx.before("F1", "trailing_extras:cleared-before-use", g, pushes, clr, "the scratch destination array is cleared before anything is pushed")
    g = ctx.need_fn(F, "ts_parser__do_all_potential_reductions", "F1")
    if g:
        clr = [pt for pt, n in find(g, "(&self->reduce_actions)->size = 0")]
        uses = [pt for pt, n in find(g, "ts_parser__process_candidate_recovery_actions(self, ...)")]
        ctx.before("F1", "reduce_actions:cleared-before-use", g, uses, clr, "reduce_actions is cleared before candidate actions are collected into it")


class ResumeMonitor(Monitor):
    """Until the fresh-start branch is entered or the parse loop begins, ts_parser_parse may not
    modify parser state other than the per-call fields."""

    def __init__(self, fn, loop_pts):
        self.fn = fn
        self.loop = set(loop_pts)

    def elem(self, m, pt, e, s):
        if m == "done":
            return PRUNE
        if pt in self.loop:
            return PRUNE
        for n in own_walk(e):
            if n.get("k") in ("assign",) or (n.get("k") == "un" and n["op"] in ("post++", "post--", "pre++", "pre--")):
                l = n["l"] if n.get("k") == "assign" else n["e"]
                f = writes_record(l, "TSParser")
                if f and f not in RESUME_ALLOWED_FIELDS:
                    return Viol("parser field `%s` is stored to before it is known whether a parse is being resumed (`%s`)" % (f, show(n)[:80]), pt)
            if n.get("k") == "call":
                name = callee_name(n)
                takes_self = any(strip(a).get("k") == "ref" and strip(a).get("name") == "self" for a in n.get("a", []))
                if takes_self and name not in RESUME_ALLOWED_CALLS:
                    return Viol("`%s(self, …)` runs before it is known whether a parse is being resumed" % name, pt)
                # a helper handed the address of a parser field may modify it (reusable_node_clear(&self->reusable_node), array_clear(&self->x) …)
                if name not in RESUME_ALLOWED_CALLS:
                    for a in n.get("a", []):
                        a = strip(a)
                        if a.get("k") == "un" and a.get("op") == "&" and a.get("mut", True):
                            f = writes_record(a["e"], "TSParser")
                            if f and f not in RESUME_ALLOWED_FIELDS:
                                return Viol("`%s(&self->%s, …)` may modify parser field `%s` before it is known whether a parse is being resumed" % (name, f, f), pt)
        return m

    def edge(self, m, bid, edge, cond, truth, s):
        if cond is not None and truth is not None and s.m.cond_matches("ts_parser_has_outstanding_parse(self)", False, cond, truth):
            return PRUNE   # fresh start: anything goes
        return m


def rule_p1(ctx, F):
    fn = ctx.need_fn(F, "ts_parser_parse", "P1")
    if not fn:
        return
    test = find(fn, "ts_parser_has_outstanding_parse(self)")
    loop = [pt for pt, n in find(fn, "ts_parser__advance(...)")] + [pt for pt, n in find(fn, "ts_parser__balance_subtree(self)")] + \
        [pt for pt, n in find(fn, "ts_stack_version_count(self->stack)")]
    if len(test) != 1 or len(loop) < 2:
        ctx.bad("P1", "ts_parser_parse:anchors", "outstanding-parse test (%d) or parse loop (%d) not found" % (len(test), len(loop)))
        return
    s = Search(fn, ResumeMonitor(fn, loop))
    v = s.run("pre")
    key = "ts_parser_parse:included_range_differences-cleared-on-resume"
    if v is None:
        ctx.ok("P1", "ts_parser_parse:resume-touches-no-parser-state", "on every path from entry through the resume branch to the parse loop only %s are stored and only %s are called with the parser (%d states)" % (
            sorted(RESUME_ALLOWED_FIELDS), sorted(RESUME_ALLOWED_CALLS), s.states), sample={"function": fn.name, "test": fn.loc(test[0][0]), "loop": [fn.loc(p) for p in loop][:3]})
    else:
        k2 = key if "included_range_difference" in v.msg else "ts_parser_parse:resume-touches-no-parser-state"
        ctx.bad("P1", k2, "ts_parser_parse: %s at %s — a cancelled parse that is resumed loses that state" % (v.msg, fn.loc(v.pt)), {"site": fn.loc(v.pt), "path": s.render_path(v.path)})
    # fresh start recomputes what it cleared
    clr = [pt for pt, n in find(fn, "(&self->included_range_differences)->size = 0")]
    ctx.gate("P1", fn, clr, [("included-range differences are only cleared when a new parse starts", "ts_parser_has_outstanding_parse(self)", False)], accept_desc="clearing included_range_differences")


def rule_p2(ctx, F):
    fn = ctx.need_fn(F, "ts_parser_parse", "P2")
    if fn:
        rets = [pt for pt, e in fn.points() if e.get("k") == "ret" and strip(e["e"]).get("k") == "ref" and strip(e["e"])["name"] == bind(fn, "result", "ts_tree_new(...)")]
        rst = [pt for pt, n in find(fn, "ts_parser_reset(self)")]
        ctx.before("P2", "ts_parser_parse:completion-resets", fn, rets, rst, "every completed or failed parse (`return result`) passes ts_parser_reset(self)")
        new_tree = [pt for pt, n in find(fn, "ts_tree_new(...)")]
        bal = [pt for pt, n in find(fn, "ts_parser__balance_subtree(self)")]
        ctx.before("P2", "ts_parser_parse:balanced-before-returned", fn, new_tree, bal, "the tree handed out was balanced first")
    fn = ctx.need_fn(F, "ts_parser_set_language", "P2")
    if fn:
        stores_lang = [pt for pt, n, l, op in stores(fn) if writes_record(l, "TSParser") == "language"]
        rst = [pt for pt, n in find(fn, "ts_parser_reset(self)")]
        ctx.before("P2", "ts_parser_set_language:reset-first", fn, stores_lang, rst, "changing the language resets the parser first")
        # callers (the highlighter, the tags generator) use set_language as "start over": also re-assigning the same language resets
        ctx.on_all_paths("P2", "ts_parser_set_language:always-resets", fn, rst, "every call of ts_parser_set_language resets the parser (a cancelled parse is discarded, whatever language is assigned)")
    fn = ctx.need_fn(F, "ts_lexer_set_input", "P3")
    if fn:
        ctx.on_all_paths("P3", "ts_lexer_set_input:clears-chunk", fn, [pt for pt, n in find(fn, "ts_lexer__clear_chunk(self)")], "a new input discards the cached chunk")
        ctx.on_all_paths("P3", "ts_lexer_set_input:stores-input", fn, [pt for pt, n in find(fn, "self->input = input")], "the new input callback is installed")
        ctx.on_all_paths("P3", "ts_lexer_set_input:re-seeks", fn, [pt for pt, n in find(fn, "ts_lexer_goto(self, self->current_position)")],
                         "a new input re-seeks the lexer (ts_lexer_goto recomputes the included-range index, which doubles as the EOF flag, and the look-ahead)")
    fn = ctx.need_fn(F, "ts_lexer__clear_chunk", "P3")
    if fn:
        for f in ("chunk", "chunk_size", "chunk_start"):
            ctx.on_all_paths("P3", "ts_lexer__clear_chunk:" + f, fn, [pt for pt, n in find(fn, "self->%s = _" % f)], "clearing the chunk resets %s" % f)
    fn = ctx.need_fn(F, "ts_lexer__get_lookahead", "P3")
    if fn:
        retry = [pt for pt, n in find(fn, "ts_lexer__get_chunk(self)")]
        ctx.gate("P3", fn, retry, [("re-fetch only for a character that may continue beyond the chunk", [("self->data.lookahead == -1", True), ("ts_lexer__lookahead_is_truncated(self, size)", True)]),
                                   ("…with fewer than 4 bytes left in the chunk", [("_ < 4", True), ("ts_lexer__lookahead_is_truncated(self, size)", True)])], accept_desc="the chunk re-fetch")
        # …and the converse: whenever the truncation test says yes, the re-fetch happens (no second opinion that knows only one encoding)
        class Retried(Monitor):
            def elem(self, m, pt, e, s):
                if pt in retry:
                    return 2
                return m

            def edge(self, m, bid, edge, cond, truth, s):
                if m == 0 and cond is not None and truth is not None:
                    if s.m.cond_matches("ts_lexer__lookahead_is_truncated(self, size)", True, cond, truth):
                        return 1
                return m

            def exit(self, m, bid, s):
                if m == 1:
                    return Viol("the truncation test said the character may continue, but the function returns without having fetched a fresh chunk")
                return None
        sr = Search(fn, Retried())
        v = sr.run(0)
        if v is None:
            ctx.ok("P3", "ts_lexer__get_lookahead:truncated-always-retried", "every path on which the truncation test answers yes reaches the chunk re-fetch (%d states)" % sr.states)
        else:
            ctx.bad("P3", "ts_lexer__get_lookahead:truncated-always-retried", "ts_lexer__get_lookahead: %s — a further condition on the retry (e.g. one derived from the UTF-8 lead byte) leaves characters of other encodings "
                    "that are cut off by a chunk end undecoded" % v.msg, {"path": sr.render_path(v.path)[-6:] if v.path else []})
    h = F.fns.get("ts_lexer__lookahead_is_truncated")
    if h is not None:
        yes = [pt for pt, e in h.points() if e.get("k") == "ret" and not (strip(e["e"]).get("k") == "int" and not strip(e["e"]).get("v"))]
        ctx.gate("P3", h, yes, [("a character counts as cut off only with fewer than 4 bytes left", [("size >= 4", False), ("size < 4", True)])], accept_desc="answering `may continue`")


class BufferMonitor(Monitor):
    """lexer.debug_buffer doubles as the external scanner's serialization buffer.  m: 0 = free,
    1 = holds a serialized state still to be consumed, 2 = that state was overwritten."""

    def __init__(self, ser, consume, writes):
        self.ser, self.consume, self.writes = set(ser), set(consume), set(writes)

    def elem(self, m, pt, e, s):
        if pt in self.consume:
            if m == 2:
                return Viol("the serialized scanner state is copied out of debug_buffer after something else (a LOG line) wrote into the buffer", pt)
            return m
        if pt in self.writes and m == 1:
            return 2
        if pt in self.ser:
            return 1
        return m


def rule_p4(ctx, F):
    """Logging neutrality: log formatting shares lexer.debug_buffer with the scanner state."""
    fn = ctx.need_fn(F, "ts_parser__lex", "P4")
    if not fn:
        return
    ser = [pt for pt, n in find(fn, "ts_parser__external_scanner_serialize(self)")]
    consume = [pt for pt, n in find(fn, "ts_external_scanner_state_init(_, self->lexer.debug_buffer, _)")]
    writes = [pt for pt, c in fn.calls() if c.get("fn") in ("snprintf", "vsnprintf", "memcpy", "ts_lexer__log") and "debug_buffer" in show(c["a"][0])] + \
             [pt for pt, c in fn.calls() if c.get("fn") in ("ts_parser__log",)]
    ctx.floor("log writes into debug_buffer in ts_parser__lex", len(writes), 4)
    if not ser or not consume:
        ctx.bad("P4", "ts_parser__lex:buffer-anchors", "serialize (%d) / state_init from debug_buffer (%d) not found" % (len(ser), len(consume)))
        return
    s = Search(fn, BufferMonitor(ser, consume, writes))
    v = s.run(0)
    if v is None:
        ctx.ok("P4", "ts_parser__lex:log-does-not-clobber-scanner-state", "on no feasible path does a log line write into debug_buffer between serializing the scanner state and copying it into the token (%d states)" % s.states,
               sample={"function": fn.name, "serialize": [fn.loc(p) for p in ser], "consume": [fn.loc(p) for p in consume], "log_writes": len(writes)})
    else:
        ctx.bad("P4", "ts_parser__lex:log-clobbers-scanner-state", "ts_parser__lex: %s (%s) — with a logger installed the token carries log text as its scanner state and later scanning diverges" % (v.msg, fn.loc(v.pt)),
                {"path": s.render_path(v.path)[-8:]})
    # the comparison that decides `state_changed` also reads the buffer: it must directly follow the serialize
    cmp_ = [pt for pt, n in find(fn, "ts_external_scanner_state_eq(_, self->lexer.debug_buffer, _)")]
    if cmp_:
        s2 = Search(fn, BufferMonitor(ser, cmp_, writes))
        v2 = s2.run(0)
        if v2 is None:
            ctx.ok("P4", "ts_parser__lex:state-compare-reads-fresh-buffer", "the scanner-state comparison reads the buffer before any log line can overwrite it")
        else:
            ctx.bad("P4", "ts_parser__lex:state-compare-reads-clobbered-buffer", "ts_parser__lex: %s" % v2.msg)


def elem_effects(e):
    """(uses, defs) of locals by one CFG element, in that order: ids read, then (id, rhs-or-None) written."""
    uses, defs, lhs = [], [], set()
    for n in own_walk(e):
        k = n.get("k")
        if k == "assign" and strip(n["l"]).get("k") == "ref" and strip(n["l"]).get("dk", "local") in ("local", "param"):
            if n["op"] == "=":
                lhs.add(id(strip(n["l"])))
            defs.append((strip(n["l"])["id"], n["r"] if n["op"] == "=" else None))
        elif k == "un" and n["op"] in ("post++", "post--", "pre++", "pre--") and strip(n["e"]).get("k") == "ref":
            defs.append((strip(n["e"])["id"], None))
        elif k == "decl" and n.get("init") is not None:
            defs.append((n["id"], n["init"]))
        elif k == "decls":
            for d in n["ds"]:
                if d.get("init") is not None:
                    defs.append((d["id"], d["init"]))
    for n in own_walk(e):
        if n.get("k") == "ref" and id(n) not in lhs and "id" in n:
            uses.append(n["id"])
    return uses, defs


def live_before(fn, pt):
    """Locals live just before point `pt` (backward may-liveness, element granularity inside pt's block)."""
    eff = {b.id: [elem_effects(el["e"]) if el.get("e") is not None else ([], []) for el in b.elems] for b in fn.blocks.values()}

    def through(bid, live, start=0):
        live = set(live)
        for uses, defs in reversed(eff[bid][start:]):
            for i, rhs in defs:
                if rhs is not None:
                    live.discard(i)
            live |= set(uses)
        return live
    live_in = {b: set() for b in fn.blocks}
    changed = True
    while changed:
        changed = False
        for b in fn.blocks.values():
            out = set()
            for ed in b.succs:
                if ed.to in live_in:
                    out |= live_in[ed.to]
            new = through(b.id, out)
            if new != live_in[b.id]:
                live_in[b.id], changed = new, True
    out = set()
    for ed in fn.blocks[pt[0]].succs:
        if ed.to in live_in:
            out |= live_in[ed.to]
    return through(pt[0], out, pt[1])


def reaching_before(fn, pt, cut=False):
    """Definitions of locals that may reach point `pt`: {local id: set of definition points}.  With `cut`, only along
    paths that arrive at pt for the first time (the block holding pt has its outgoing edges removed)."""
    eff = {b.id: [elem_effects(el["e"]) if el.get("e") is not None else ([], []) for el in b.elems] for b in fn.blocks.values()}

    def through(bid, rd, stop=None):
        rd = {k: set(v) for k, v in rd.items()}
        for i, (uses, defs) in enumerate(eff[bid]):
            if stop is not None and i >= stop:
                break
            for vid, rhs in defs:
                rd[vid] = {(bid, i)}
        return rd
    reach, todo = {fn.entry}, [fn.entry]
    while todo:
        x = todo.pop()
        if cut and x == pt[0]:
            continue
        for ed in fn.blocks[x].succs:
            if ed.to in fn.blocks and ed.to not in reach:
                reach.add(ed.to)
                todo.append(ed.to)
    rd_in = {b: {} for b in fn.blocks}
    changed = True
    while changed:
        changed = False
        for b in fn.blocks.values():
            acc = {}
            for ed in b.preds:
                if ed.src not in reach or (cut and ed.src == pt[0]):
                    continue
                for k, v in through(ed.src, rd_in[ed.src]).items():
                    acc.setdefault(k, set()).update(v)
            if acc != rd_in[b.id]:
                rd_in[b.id], changed = acc, True
    return through(pt[0], rd_in[pt[0]], pt[1])


def rule_p6(ctx, F):
    """P6: a cancelled parse loses no scheduling state.  ts_parser_parse is left by `return NULL` when
    ts_parser__advance reports cancellation, and the resuming call runs the function again from the top until it
    arrives at that call.  A local that is live at the call and whose value there can come from a definition that is
    only reachable after an earlier advance (it differs between 'all paths' and 'first arrival') carries state across
    the cancellation: the resuming call must restore it from the parser object, which must have been saved before the return."""
    fn = ctx.need_fn(F, "ts_parser_parse", "P6")
    if not fn:
        return
    adv = [pt for pt, c in fn.calls() if callee_name(c) == "ts_parser__advance"]
    if len(adv) != 1:
        ctx.bad("P6", "ts_parser_parse:advance-call", "ts_parser_parse is expected to call ts_parser__advance at exactly one site (found %d)" % len(adv))
        return
    C = adv[0]
    fn.defs(0)
    live = live_before(fn, C)
    from flow import dominators, reachable_blocks
    dom = dominators(fn)
    scc = {b for b in reachable_blocks(fn, C[0]) if C[0] in reachable_blocks(fn, b)}      # the loops around the call

    def carried_at(i, pt, depth=0):
        """Can the value of local i at pt differ between an uninterrupted run and a run that re-entered the function?"""
        ds = reaching_before(fn, pt).get(i, set())
        if not any(d[0] in scc for d in ds):
            return False                        # only definitions from before the loops: re-executed identically
        if len(ds) > 1 or depth > 4:
            return True                         # which definition applies depends on the iterations already made
        (d,) = ds
        if not (d[0] in dom.get(pt[0], ()) ):
            return True
        uses = [u for u in elem_effects(fn.blocks[d[0]].elems[d[1]]["e"])[0] if u != i]
        return any(carried_at(u, d, depth + 1) for u in uses)
    rd_all = reaching_before(fn, C)
    carried = sorted(i for i in live if fn._names.get(i) != "self" and carried_at(i, C))
    ctx.analysed["ts_parser_parse_locals_live_at_advance"] = sorted(fn._names.get(i, "?") for i in live)
    ctx.analysed["ts_parser_parse_locals_carried_across_advance"] = sorted(fn._names.get(i, "?") for i in carried)
    rets = [pt for pt, e in fn.points() if e.get("k") == "ret" and e.get("e") is not None and strip(e["e"]).get("k") in ("null", "int") and not strip(e["e"]).get("v")]
    cancel = [pt for pt in rets if C[0] in dom.get(pt[0], ()) and pt[0] != C[0]]
    ctx.floor("`return NULL` after a cancelled ts_parser__advance", len(cancel), 1)
    for i in carried:
        nm = fn._names.get(i, "?")
        key = "ts_parser_parse:%s-survives-cancellation" % nm
        restore = []
        for (b, k) in sorted(rd_all.get(i, ())):
            for vid, rhs in elem_effects(fn.blocks[b].elems[k]["e"])[1]:
                r = strip(rhs) if rhs is not None else None
                if vid == i and r is not None and r.get("k") == "mem" and show(r).startswith("self->"):
                    restore.append(((b, k), r))
        if not restore:
            ctx.bad("P6", key, "`%s` is live when ts_parser_parse calls ts_parser__advance and its value there depends on earlier iterations (%s), but a resuming call re-enters the loop with the "
                    "initialiser: a parse cancelled by the progress callback and resumed schedules its stack versions differently from an uninterrupted one and can recover from errors differently"
                    % (nm, ", ".join(sorted(fn.loc(d) for d in rd_all[i] if d[0] in scc))), {"local": nm})
            continue
        fld = restore[0][1]["f"]
        save = [pt for pt, n in find(fn, "self->%s = %s" % (fld, nm))]
        ctx.gate("P6", fn, [pt for pt, r in restore], [("`%s` is restored only when an interrupted parse is resumed" % nm, [("ts_parser_has_outstanding_parse(self)", True), ("is_resuming", True)])],
                 accept_desc="restoring `%s` from self->%s" % (nm, fld))
        if save and cancel:
            ctx.before("P6", key, fn, cancel, save, "`%s` is saved to self->%s before the cancelled call returns" % (nm, fld))
        else:
            ctx.bad("P6", key, "`%s` is restored from self->%s on resume but not saved before the cancelling `return NULL`" % (nm, fld))
    ctx.floor("locals live at the ts_parser__advance call", len(live), 3)


def rule_p7(ctx, F):
    """P7: the column a scanner is told does not depend on where a parse was suspended.  The running column counter and
    the from-the-line-start recomputation disagree in places (a range that starts mid-line), so which one answers
    get_column() must not change because ts_parser_parse was re-entered: ts_lexer_set_input re-seeks to the *current*
    position on every call, and that seek must leave the counter alone — it is dropped only when the position moves."""
    fn = ctx.need_fn(F, "ts_lexer_goto", "P7")
    if not fn:
        return
    inv = [pt for pt, c in fn.calls() if callee_name(c) == "ts_lexer__invalidate_column_data"] + [pt for pt, n in find(fn, "self->column_data.valid = 0")]
    if not inv:
        ctx.bad("P7", "ts_lexer_goto:column-cache", "ts_lexer_goto no longer invalidates the column counter when it moves the lexer")
        return
    ctx.gate("P7", fn, inv, [("the column counter is dropped only when the position really changes (a resumed parse re-seeks to where it is)",
                             [("position.bytes != self->current_position.bytes", True), ("position.bytes == self->current_position.bytes", False)])], accept_desc="invalidating the column counter")
    mv = [pt for pt, n in find(fn, "self->current_position = position")]
    ctx.before("P7", "ts_lexer_goto:compare-before-move", fn, mv, inv + [pt for pt, n in find(fn, "position.bytes != self->current_position.bytes")] + [pt for pt, n in find(fn, "position.bytes == self->current_position.bytes")],
               "the comparison with the old position happens before the position is overwritten")


def rule_p8(ctx, F):
    """P8: every UTF-16 code unit read from the input passes through the byte-order conversion of its decoder.  A
    surrogate pair is two units; if only the lead unit is converted (le16toh / be16toh) the trail unit is tested in the
    wrong byte order, the pair is not combined, and the same characters delivered as UTF-16BE parse differently."""
    for name in ("ts_decode_utf16_le", "ts_decode_utf16_be"):
        fn = ctx.need_fn(F, name, "P8")
        if not fn:
            continue
        buf = fn.params[0]["id"] if fn.params else None
        reads = []      # (pt, wrapped-by callee or None)
        for pt, e in fn.points():
            wrapped = set()
            for n in own_walk(e):
                if n.get("k") == "call":
                    for a in n.get("a", []):
                        for x in walk(a):
                            if x.get("k") == "idx" and any(y.get("k") == "ref" and y.get("id") == buf for y in walk(x["b"])):
                                wrapped.add(id(x))
                                reads.append((pt, callee_name(n) or "?"))
            for n in own_walk(e):
                if n.get("k") == "idx" and id(n) not in wrapped and any(y.get("k") == "ref" and y.get("id") == buf for y in walk(n["b"])):
                    reads.append((pt, None))
        reads = sorted(set(reads), key=lambda r: (r[0], str(r[1])))
        conv = {c for _, c in reads if c}
        raw = [pt for pt, c in reads if c is None]
        key = "%s:every-code-unit-converted" % name
        if len(reads) < 2:
            ctx.bad("P8", key, "%s: expected at least two reads of code units (lead and trail), found %d" % (name, len(reads)))
        elif raw or len(conv) != 1:
            ctx.bad("P8", key, "%s reads a code unit at %s without the byte-order conversion the other read(s) go through (%s): a trail surrogate is tested in the wrong byte order, "
                    "so characters outside the BMP are not decoded and the UTF-16 tree differs from the UTF-8 tree" % (name, ", ".join(fn.loc(p) for p in raw) or "?", ", ".join(sorted(conv)) or "none"),
                    {"site": fn.loc(raw[0]) if raw else None})
        else:
            ctx.ok("P8", key, "all %d code-unit reads go through %s" % (len(reads), next(iter(conv))), sample={"function": name})


def rule_p9(ctx, F):
    """P9: a character that straddles the end of a chunk is completed from the chunks that follow.  The read callback
    is a function of the offset it is asked for: asking again at the *same* offset (the first retry) returns the same
    piece when the input's pieces have fixed boundaries.  So ts_lexer__get_lookahead must, under its truncation test,
    read at an offset beyond the current position, decode what it gathered, and afterwards re-establish the chunk for the
    current position (a callback may reuse its buffer, so the earlier chunk pointer is stale after another read)."""
    fn = ctx.need_fn(F, "ts_lexer__get_lookahead", "P9")
    if not fn:
        return
    key = "ts_lexer__get_lookahead:split-character-assembled"
    reads = []
    for pt, c in fn.calls():
        fe = strip(c.get("fe") or {})
        while isinstance(fe, dict) and fe.get("k") in ("un", "cast"):
            fe = strip(fe.get("e"))
        if isinstance(fe, dict) and fe.get("k") == "mem" and fe.get("f") == "read" and len(c.get("a", [])) >= 2:
            off = strip(c["a"][1])
            beyond = off.get("k") == "bin" and off.get("op") == "+" and "current_position.bytes" in show(off)
            reads.append((pt, beyond))
    ahead = [pt for pt, b in reads if b]
    if not ahead:
        ctx.bad("P9", key, "ts_lexer__get_lookahead retries a character cut off by the end of a chunk only by asking for the same offset again; with an input whose pieces have fixed "
                "boundaries the same short piece comes back and the character is lexed as invalid — the tree depends on the chunking (`ab 😀 cd` read in pieces of 1..6 bytes gives "
                "(ERROR (UNEXPECTED INVALID)) where the whole text gives (smile))")
        return
    ctx.gate("P9", fn, ahead, [("bytes beyond the chunk are requested only for a character that may continue there",
                               [("ts_lexer__lookahead_is_truncated(self, size)", True), ("self->data.lookahead == TS_DECODE_ERROR", True), ("self->data.lookahead == -1", True)])],
             accept_desc="reading ahead of the current position")
    dec = [pt for pt, c in fn.calls() if callee_name(c) == "decode" or "decode" in show(c.get("fe") or {})]
    rest = [pt for pt, c in fn.calls() if callee_name(c) == "ts_lexer__get_chunk"]
    from flow import reachable_blocks
    later = reachable_blocks(fn, ahead[0][0])
    if any(pt[0] in later and pt != ahead[0] for pt in dec):
        ctx.ok("P9", key + ":decoded", "a decode call follows the read-ahead (what was gathered is decoded)")
    else:
        ctx.bad("P9", key + ":decoded", "nothing is decoded after ts_lexer__get_lookahead read ahead of the current position")
    ctx.after("P9", key + ":chunk-restored", fn, ahead, rest, "the chunk for the current position is re-established after reading elsewhere")


def rule_p10(ctx, F):
    """P10: a cancelled parse is recognised as outstanding whatever state it stopped in.  ts_parser_parse decides between
    "resume" and "new parse" with ts_parser_has_outstanding_parse; the heuristics in it (stack state, node count, scanner
    object) say nothing when the parse was cancelled before the first visible node was pushed.  So every cancelling
    `return NULL` is preceded by setting a flag that is itself a disjunct of that test (and that ts_parser_reset clears —
    C09.F1).  Otherwise the next call starts a "new" parse on the leftover stack and retains the old tree a second time."""
    h = ctx.need_fn(F, "ts_parser_has_outstanding_parse", "P10")
    fn = ctx.need_fn(F, "ts_parser_parse", "P10")
    if not h or not fn:
        return
    flags = set()
    for pt, e in h.points():
        if e.get("k") == "ret" and e.get("e") is not None:
            def ops(x):
                x = strip(x)
                if x.get("k") == "bin" and x.get("op") == "||":
                    return ops(x["l"]) + ops(x["r"])
                return [x]
            for o in ops(e["e"]):
                if o.get("k") == "mem" and (o.get("rec") or "") == "TSParser":
                    flags.add(o["f"])
    ctx.analysed["outstanding_parse_flags"] = sorted(flags)
    test = [pt for pt, c in fn.calls() if callee_name(c) == "ts_parser_has_outstanding_parse"]
    if not test or not flags:
        ctx.bad("P10", "ts_parser_parse:cancel-sets-a-flag", "ts_parser_has_outstanding_parse has no flag disjunct (found %s) or is not consulted by ts_parser_parse" % sorted(flags))
        return
    from flow import reachable_blocks
    after = reachable_blocks(fn, test[0][0])
    rets = [pt for pt, e in fn.points() if e.get("k") == "ret" and e.get("e") is not None and strip(e["e"]).get("k") in ("null", "int") and not strip(e["e"]).get("v") and pt[0] in after and pt[0] != test[0][0]]
    sets = [pt for pt, n, l, op in stores(fn) if writes_record(l, "TSParser") in flags and strip(n.get("r") or {}).get("k") == "int" and strip(n["r"]).get("v")]
    ctx.floor("cancelling returns of ts_parser_parse", len(rets), 2)
    ctx.before("P10", "ts_parser_parse:cancel-sets-a-flag", fn, rets, sets, "every cancelling `return NULL` is preceded by setting one of the flags ts_parser_has_outstanding_parse tests (%s)" % ", ".join(sorted(flags)),
               reset_pts=[pt for pt, n, l, op in stores(fn) if writes_record(l, "TSParser") in flags and strip(n.get("r") or {}).get("k") == "int" and not strip(n["r"]).get("v")])


def rule_p11(ctx, F):
    """P11: the running column and the recomputed column count the same characters.  ts_lexer_start skips a leading
    byte-order mark and sets the column to 0 *after* it; a recomputation from the line start (ts_lexer__get_column with an
    invalid cache) advances through ts_lexer__do_advance from byte 0 — so do_advance does not count the BOM either.
    Otherwise get_column() differs by one on the first line depending on whether the cache was valid, i.e. on whether
    the parse was interrupted and the token re-lexed."""
    fn = ctx.need_fn(F, "ts_lexer__do_advance", "P11")
    if not fn:
        return
    inc = [pt for pt, c in fn.calls() if callee_name(c) == "ts_lexer__increment_column_data"]
    if not inc:
        ctx.bad("P11", "ts_lexer__do_advance:bom-not-counted", "ts_lexer__do_advance no longer advances the column counter")
        return
    bind(fn, "is_bom", "self->current_position.bytes == 0 && self->data.lookahead == 65279")
    ctx.gate("P11", fn, inc, [("the byte-order mark at offset 0 does not count as a column",
                              [("is_bom", False), ("self->current_position.bytes == 0 && self->data.lookahead == 65279", False), ("self->current_position.bytes == 0", False), ("self->data.lookahead == 65279", False)])],
             accept_desc="counting a character in the running column")


def rule_p5(ctx, F):
    """P5: chunking and encoding.  A chunk is always requested for the lexer's current position; the
    decoder is the one of the declared encoding; the ASCII short-cut applies to UTF-8 only; the chunk is
    dropped whenever the position leaves it."""
    fn = ctx.need_fn(F, "ts_lexer__get_chunk", "P5")
    if fn:
        rd = find(fn, "self->chunk = (*self->input.read)(self->input.payload, self->current_position.bytes, self->current_position.extent, &self->chunk_size)") or \
            find(fn, "self->chunk = self->input.read(self->input.payload, self->current_position.bytes, self->current_position.extent, &self->chunk_size)")
        st = find(fn, "self->chunk_start = self->current_position.bytes")
        if rd and st:
            ctx.ok("P5", "get_chunk:reads-at-current-position", "the read callback is asked for the current byte and point, and chunk_start records that byte")
        else:
            ctx.bad("P5", "get_chunk:reads-at-current-position", "ts_lexer__get_chunk no longer reads at (current_position.bytes, current_position.extent) and records chunk_start = current_position.bytes (%d/%d)" % (len(rd), len(st)))
    fn = ctx.need_fn(F, "ts_lexer__get_lookahead", "P5")
    if fn:
        d = [x for i in fn.ids_named("decode") for x in fn.defs(i) if x is not None and x.get("k") != "uninit"]
        pat = ("self->input.encoding == TSInputEncodingUTF8 ? ts_decode_utf8 : self->input.encoding == TSInputEncodingUTF16LE ? ts_decode_utf16_le : "
               "self->input.encoding == TSInputEncodingUTF16BE ? ts_decode_utf16_be : self->input.decode")
        if d and M(fn).match(pat, d[0]):
            ctx.ok("P5", "get_lookahead:decoder-matches-encoding", "UTF8 → ts_decode_utf8, UTF16LE → ts_decode_utf16_le, UTF16BE → ts_decode_utf16_be, otherwise the custom decoder")
        else:
            ctx.bad("P5", "get_lookahead:decoder-matches-encoding", "the decoder chosen in ts_lexer__get_lookahead no longer follows the declared encoding (`%s`)" % (show(d[0])[:160] if d else "?"))
        fast = [pt for pt, n in find(fn, "self->data.lookahead = chunk[0]")]
        ctx.gate("P5", fn, fast, [("a byte is taken as a character without decoding only in UTF-8", "self->input.encoding == TSInputEncodingUTF8", True),
                                  ("…and only if it is ASCII", "chunk[0] < 128", True)], accept_desc="taking a byte as the look-ahead character")
    for name in ("ts_lexer_goto", "ts_lexer__do_advance"):
        fn = ctx.need_fn(F, name, "P5")
        if fn:
            clr = [pt for pt, c in fn.calls() if callee_name(c) in ("ts_lexer__clear_chunk", "ts_lexer__get_chunk")]
            ctx.floor("chunk refreshes in " + name, len(clr), 1)
            eof = ("found_included_range", False) if name == "ts_lexer_goto" else ("current_range", False)
            ctx.gate("P5", fn, clr, [("the chunk is refreshed exactly when the position lies before it or at/after its end (or the input is exhausted)",
                     [("self->current_position.bytes < self->chunk_start", True), ("self->current_position.bytes >= self->chunk_start + self->chunk_size", True), eof])],
                     accept_desc="refreshing the chunk")
            if name == "ts_lexer__do_advance":
                la = [pt for pt, c in fn.calls() if callee_name(c) == "ts_lexer__get_lookahead"]
                ctx.gate("P5", fn, la, [("a character is decoded only from a chunk that starts at or before the position", [("ts_lexer__get_chunk(self)", "stmt"), ("self->current_position.bytes < self->chunk_start", False)]),
                                        ("…and extends beyond it", [("ts_lexer__get_chunk(self)", "stmt"), ("self->current_position.bytes >= self->chunk_start + self->chunk_size", False)])],
                         accept_desc="decoding the next character")


def run(ctx):
    for cfg in configs(ctx):
        ctx.config = cfg
        F = ctx.extract.cfacts(cfg)
        ctx.analysed["c_functions_" + cfg] = len(F.fn_list)
        rule_f1(ctx, F)
        rule_p1(ctx, F)
        rule_p2(ctx, F)
        rule_p4(ctx, F)
        rule_p5(ctx, F)
        rule_p6(ctx, F)
        rule_p7(ctx, F)
        rule_p8(ctx, F)
        rule_p9(ctx, F)
        rule_p10(ctx, F)
        rule_p11(ctx, F)
        # a rejected range list leaves the parser's ranges untouched (history independence; shared with C13.G1)
        import C13
        C13.rule_g1(ctx, F)
    return ctx.finish(
        "Field-coverage and ordering rules over parser.c/lexer.c: each of TSParser's fields is classified and every RESET field is re-initialised on all paths "
        "of ts_parser_reset; completion and language change pass ts_parser_reset; a resumed parse stores to no parser state before the loop; a new input discards "
        "the cached chunk. Decides state discipline, not equality of trees across chunkings, encodings or cancellation points.")
