"""C02 — termination and well-formedness: cached summaries and error accounting (DESIGN.md §4 C02).

Decides: the summary fields the node API advertises are written only by the summariser; every
rotation of child slots is followed by re-summarising the three touched nodes bottom-up; every
constructor of parent nodes summarises; a child's error cost always reaches its parent, ERROR nodes
and MISSING leaves have a non-zero cost, and has_error is `error cost > 0`.  Does not decide
termination, tiling, or row/column arithmetic.
"""
from common import *  # noqa: F401,F403
from cstores import stores, writes_record, heap_store

# summary field -> functions allowed to store it (besides whole-node initialisation in constructors)
SUMMARY_WRITERS = {
    "visible_child_count": {"ts_subtree_summarize_children"},
    "named_child_count": {"ts_subtree_summarize_children"},
    "visible_descendant_count": {"ts_subtree_summarize_children"},
    "error_cost": {"ts_subtree_summarize_children", "ts_subtree_edit"},
    "child_count": {"ts_subtree_edit"},
    "dynamic_precedence": {"ts_subtree_summarize_children", "ts_parser__reduce", "ts_subtree_new_node"},
    "repeat_depth": {"ts_subtree_summarize_children"},
    "lookahead_bytes": {"ts_subtree_summarize_children", "ts_subtree_edit"},
    "first_leaf": {"ts_subtree_summarize_children"},
}
COUNT_ACCESSORS = [
    ("ts_node_child_count", "visible_child_count"),
    ("ts_node_named_child_count", "named_child_count"),
    ("ts_subtree_visible_child_count", "visible_child_count"),
    ("ts_subtree_visible_descendant_count", "visible_descendant_count"),
]


def rule_w(ctx, F):
    seen = {}
    for fn in F.fn_list:
        for pt, n, l, op in stores(fn):
            f = writes_record(l, "SubtreeHeapData")
            if f in SUMMARY_WRITERS:
                seen.setdefault(f, set()).add(fn.name)
                if fn.name not in SUMMARY_WRITERS[f]:
                    ctx.bad("W1", "%s:writes-%s" % (fn.name, f), "%s stores the cached summary field `%s` (`%s` at %s); only %s may" % (
                        fn.name, f, show(n)[:70], fn.loc(pt), sorted(SUMMARY_WRITERS[f])), {"function": fn.name, "site": fn.loc(pt)})
            d = heap_store(l)
            if d == "childslot" and fn.name != "ts_subtree_compress":
                ctx.bad("W1", "%s:writes-child-slot" % fn.name, "%s stores into a node's child slot (`%s` at %s); only ts_subtree_compress rotates children in place" % (fn.name, show(n)[:70], fn.loc(pt)))
    for f, allowed in SUMMARY_WRITERS.items():
        if f in seen and seen[f] <= allowed:
            ctx.ok("W1", "field:%s" % f, "stored only by %s" % sorted(seen[f]), sample={"field": f, "writers": sorted(seen[f])})
        elif f not in seen:
            ctx.bad("W1", "field:%s:no-writer" % f, "no store to summary field `%s` found at all" % f)
    # the advertised counts are the cached ones
    for name, field in COUNT_ACCESSORS:
        fn = ctx.need_fn(F, name, "W2")
        if not fn:
            continue
        rets = [e for pt, e in fn.points() if e.get("k") == "ret"]
        vals = [strip(r["e"]) for r in rets]
        reads = [v for v in vals if any(x.get("k") == "mem" and x["f"] == field and x.get("rec") == "SubtreeHeapData" for x in walk(v))]
        others = [v for v in vals if v not in reads and not (v.get("k") == "int" and v.get("v") == 0)]
        if reads and not others:
            ctx.ok("W2", "%s:reads-%s" % (name, field), "%s returns the cached %s (or 0 for leaves)" % (name, field), sample={"function": name, "field": field})
        else:
            ctx.bad("W2", "%s:reads-%s" % (name, field), "%s no longer returns the cached `%s`" % (name, field))
    fn = ctx.need_fn(F, "ts_node_descendant_count", "W2")
    if fn:
        r = [e for pt, e in fn.points() if e.get("k") == "ret"]
        if len(r) == 1 and M(fn).match("ts_subtree_visible_descendant_count(_) + 1", r[0]["e"]):
            ctx.ok("W2", "ts_node_descendant_count", "descendant count is the cached visible_descendant_count + 1")
        else:
            ctx.bad("W2", "ts_node_descendant_count", "ts_node_descendant_count is no longer cached visible_descendant_count + 1")
    fn = ctx.need_fn(F, "ts_node__relevant_child_count", "W2")
    if fn:
        a = [pt for pt, e in fn.points() if e.get("k") == "ret" and M(fn).match("_.ptr->visible_child_count", e["e"])]
        b = [pt for pt, e in fn.points() if e.get("k") == "ret" and M(fn).match("_.ptr->named_child_count", e["e"])]
        ctx.gate("W2", fn, a, [("all children counted when anonymous nodes are included", "include_anonymous", True)], accept_desc="returning visible_child_count")
        ctx.gate("W2", fn, b, [("named children counted otherwise", "include_anonymous", False)], accept_desc="returning named_child_count")
    # summariser: zero first, then accumulate once per child inside the loop over child_count
    fn = ctx.need_fn(F, "ts_subtree_summarize_children", "W2")
    if fn:
        bind(fn, "child", "children[i]")
        loop_head = [pt for pt, e in fn.points() if e.get("k") == "decl" and e["name"] == fn.cur("child")]
        for f in ("visible_child_count", "named_child_count", "visible_descendant_count", "error_cost"):
            z = [pt for pt, n in find(fn, "self.ptr->%s = 0" % f)]
            ctx.before("W2", "summarize:zeroed-first:%s" % f, fn, loop_head, z, "`%s` is zeroed before the loop over the children" % f)
        ctx.gate("W2", fn, loop_head, [("loop runs over child_count", "i < self.ptr->child_count", True)], accept_desc="visiting child i")
        ids = fn.ids_named("child")
        d = fn.single_def(ids[0]) if ids else None
        if d is not None and M(fn).match("children[i]", d):
            ctx.ok("W2", "summarize:child-is-children[i]", "the loop reads children[i]")
        else:
            ctx.bad("W2", "summarize:child-is-children[i]", "the summariser's loop no longer reads children[i]")
    fn = ctx.need_fn(F, "ts_subtree_new_node", "W1")
    if fn:
        ctx.on_all_paths("W1", "ts_subtree_new_node:summarises", fn, [pt for pt, n in find(fn, "ts_subtree_summarize_children(_, language)")], "a new parent node is summarised before it is returned")


CONSTRUCTORS = ("ts_subtree_new_leaf", "ts_subtree_new_error", "ts_subtree_new_missing_leaf", "ts_subtree_new_node", "ts_subtree_new_error_node", "ts_node_new", "ts_tree_new")


def rule_ctor(ctx, F):
    """Every parameter of a node/tree constructor ends up in the object (a parameter that is no
    longer used means a header field silently takes a default)."""
    for name in CONSTRUCTORS:
        fn = ctx.need_fn(F, name, "W3")
        if not fn:
            continue
        used = set()
        for pt, e in fn.points():
            for n in walk(e):
                if n.get("k") == "ref" and n.get("dk") == "param":
                    used.add(n["name"])
        unused = [p["name"] for p in fn.params if p["name"] not in used]
        if unused:
            ctx.bad("W3", "%s:unused-parameter:%s" % (name, "+".join(unused)), "%s no longer uses its parameter(s) %s: the corresponding node/tree attribute silently takes a default" % (name, unused), {"function": name})
        else:
            ctx.ok("W3", "%s:all-parameters-used" % name, "all %d parameters flow into the constructed object" % len(fn.params), sample={"function": name, "params": [p["name"] for p in fn.params]})
    # the leaf constructor initialises every header field it has a parameter for, in both representations
    fn = F.fn("ts_subtree_new_leaf")
    if fn:
        inits = [n for pt, e in fn.points() for n in own_walk(e) if n.get("k") == "init" and n.get("t") in ("SubtreeHeapData", "SubtreeInlineData", "Subtree")]
        for rec in ("SubtreeHeapData",):
            lit = [n for n in inits if n.get("t") == rec]
            fields = F.record_fields(rec) or []
            if lit:
                explicit = {f["f"] for f in lit[0]["fields"] if not f.get("implicit")}
                must = {"ref_count", "padding", "size", "lookahead_bytes", "symbol", "parse_state", "visible", "named", "extra", "has_external_tokens", "depends_on_column", "is_missing", "is_keyword"}
                missing = sorted(must - explicit)
                if missing:
                    ctx.bad("W3", "ts_subtree_new_leaf:heap-init:%s" % "+".join(missing), "the heap leaf literal in ts_subtree_new_leaf no longer initialises %s" % missing)
                else:
                    ctx.ok("W3", "ts_subtree_new_leaf:heap-init", "the heap leaf literal sets %d header fields explicitly" % len(explicit))


INLINE_GUARDS = [   # (guard operand in ts_subtree_can_inline, inline field that stores it)
    ("padding.bytes", "padding_bytes"), ("padding.extent.row", "padding_rows"), ("padding.extent.column", "padding_columns"),
    ("size.bytes", "size_bytes"), ("lookahead_bytes", "lookahead_bytes"),
]


def rule_inline_widths(ctx, F):
    """A leaf is stored inline only if each quantity fits the bit-field that will hold it."""
    fn = ctx.need_fn(F, "ts_subtree_can_inline", "W4")
    rec = F.records.get("SubtreeInlineData")
    if not fn or not rec:
        ctx.bad("W4", "inline-widths:anchors", "ts_subtree_can_inline / SubtreeInlineData not found")
        return
    width = {f["name"]: f.get("bits") or f.get("intbits") for f in rec["fields"]}
    rets = [strip(e["e"]) for pt, e in fn.points() if e.get("k") == "ret"]
    cj = conjuncts(rets[0]) if rets else []
    for operand, field in INLINE_GUARDS:
        w = width.get(field)
        bound = None
        for c in cj:
            if c.get("k") == "bin" and c["op"] in ("<", "<=") and show(strip(c["l"])) == operand and strip(c["r"]).get("k") == "int":
                bound = strip(c["r"])["v"] + (1 if c["op"] == "<=" else 0)
        key = "can_inline:%s-fits-%s" % (operand, field)
        if w is None or bound is None:
            ctx.bad("W4", key, "no `%s < K` guard in ts_subtree_can_inline or no field `%s` in SubtreeInlineData" % (operand, field))
        elif bound <= 2 ** w:
            ctx.ok("W4", key, "`%s < %d` fits the %d-bit field %s" % (operand, bound, w, field), sample={"guard": "%s < %d" % (operand, bound), "field": field, "bits": w})
        else:
            ctx.bad("W4", key, "ts_subtree_can_inline admits %s up to %d but the inline field `%s` has only %d bits: the value is truncated (row/column or look-ahead of an inline leaf becomes wrong)" % (
                operand, bound - 1, field, w), {"field": field, "bits": w, "bound": bound})
    if any(c.get("k") == "bin" and c["op"] == "==" and show(strip(c["l"])) == "size.extent.row" and strip(c["r"]).get("v") == 0 for c in cj):
        ctx.ok("W4", "can_inline:size-single-row", "inline leaves span no line break (there is no field for size rows)")
    else:
        ctx.bad("W4", "can_inline:size-single-row", "ts_subtree_can_inline no longer requires size.extent.row == 0 although the inline form cannot store it")


def rule_p1(ctx, F):
    fn = ctx.need_fn(F, "ts_subtree_compress", "P1")
    if not fn:
        return
    # the three nodes of a rotation, by role (bottom-up order of the re-summarise calls), whatever they are called
    calls3 = sorted((pt, arg_var(n, 0)) for pt, n in find(fn, "ts_subtree_summarize_children(_, language)"))
    if len(calls3) == 3:
        fn.defs(0)
        for role, cur in zip(("grandchild", "child", "tree"), (c[1] for c in calls3)):
            if role not in fn._names.values() and cur:
                fn._renames = dict(getattr(fn, "_renames", {}), **{role: cur})
    s = {nm: [pt for pt, n in find(fn, "ts_subtree_summarize_children(%s, language)" % fn.cur(nm))] for nm in ("grandchild", "child", "tree")}
    if not all(len(v) == 1 for v in s.values()):
        ctx.bad("P1", "ts_subtree_compress:resummarise-three", "expected exactly one re-summarise call each for grandchild, child, tree; found %s" % {k: len(v) for k, v in s.items()})
        return
    ctx.before("P1", "ts_subtree_compress:order:grandchild<child", fn, s["child"], s["grandchild"], "grandchild is re-summarised before child (bottom-up)")
    ctx.before("P1", "ts_subtree_compress:order:child<tree", fn, s["tree"], s["child"], "child is re-summarised before tree (bottom-up)")
    # the unwinding loop runs until the stack is back at its initial size, and every pushed node is popped
    rets_exit = fn.exit
    ctx.established_at_exit("P1", "ts_subtree_compress:unwinds-completely", fn, [], [("stack->size > initial_stack_size", False)],
                            "the function returns only when every node pushed by the rotation loop has been popped and re-summarised")
    ids = fn.ids_named("initial_stack_size")
    d = fn.single_def(ids[0]) if ids else None
    if d is not None and M(fn).match("stack->size", d):
        ctx.ok("P1", "ts_subtree_compress:initial-size", "initial_stack_size is stack->size at entry")
    else:
        ctx.bad("P1", "ts_subtree_compress:initial-size", "initial_stack_size is no longer the stack size at entry")
    # each rotation is followed by pushing `tree`
    slot = sorted({pt for pt, n, l, op in stores(fn) if heap_store(l) == "childslot"})
    pushes = [pt for pt, n, l, op in stores(fn) if "stack" in show(l) and "contents" in show(l) and show(strip(n.get("r") or {})) == fn.cur("tree")]
    ctx.after("P1", "ts_subtree_compress:rotation-is-queued", fn, slot[:1], pushes, "every rotation queues the rotated node for re-summarising", stop_pts=[])


def rule_p2(ctx, F):
    fn = ctx.need_fn(F, "ts_subtree_summarize_children", "P2")
    if fn:
        bind(fn, "child", "children[i]")
        head = [pt for pt, e in fn.points() if e.get("k") == "decl" and e["name"] == fn.cur("child")]
        adds = [pt for pt, n in find(fn, "self.ptr->error_cost += @has(ts_subtree_error_cost(child))")]
        ctx.floor("child error cost additions", len(adds), 2)
        nxt = [pt for pt, n in find(fn, "self.ptr->dynamic_precedence += _")]
        ctx.after("P2", "summarize:child-error-cost-propagates", fn, head, adds, "every child's error cost is added into the parent", stop_pts=nxt, retrigger_is_stop=True)
        ext = [pt for pt, n in find(fn, "self.ptr->error_cost += ts_subtree__error_extent_cost(self.ptr->size)")]
        ctx.established_at_exit("P2", "summarize:error-parent-extent-cost", fn, ext, [("self.ptr->symbol == 65535", False)],
                                "an ERROR parent is charged its extent cost")
    fn = ctx.need_fn(F, "ts_subtree__error_extent_cost", "P2")
    if fn:
        r = [e for pt, e in fn.points() if e.get("k") == "ret"]
        cj = r and M(fn).match("@has(500)", r[0]["e"])
        if cj:
            ctx.ok("P2", "error_extent_cost:positive", "the extent cost includes the constant ERROR_COST_PER_RECOVERY (500), hence > 0")
        else:
            ctx.bad("P2", "error_extent_cost:positive", "ts_subtree__error_extent_cost no longer includes ERROR_COST_PER_RECOVERY")
    fn = ctx.need_fn(F, "ts_subtree_error_cost", "P2")
    if fn:
        miss = [pt for pt, e in fn.points() if e.get("k") == "ret" and strip(e["e"]).get("k") == "int"]
        val = [strip(e["e"]).get("v") for pt, e in fn.points() if e.get("k") == "ret" and strip(e["e"]).get("k") == "int"]
        if miss and all(v and v > 0 for v in val):
            ctx.gate("P2", fn, [pt for pt, e in fn.points() if e.get("k") == "ret" and strip(e["e"]).get("k") != "int"],
                     [("MISSING leaves never report the stored (zero) cost", "ts_subtree_missing(self)", False)], accept_desc="returning the stored cost")
            ctx.ok("P2", "ts_subtree_error_cost:missing-constant", "a MISSING leaf has the constant cost %s" % val)
        else:
            ctx.bad("P2", "ts_subtree_error_cost:missing-constant", "ts_subtree_error_cost no longer returns a positive constant for MISSING leaves")
    fn = ctx.need_fn(F, "ts_node_has_error", "P2")
    if fn:
        r = [e for pt, e in fn.points() if e.get("k") == "ret"]
        if len(r) == 1 and M(fn).match("ts_subtree_error_cost(ts_node__subtree(self)) > 0", r[0]["e"]):
            ctx.ok("P2", "ts_node_has_error", "has_error is `error cost > 0`")
        else:
            ctx.bad("P2", "ts_node_has_error", "ts_node_has_error is no longer `ts_subtree_error_cost(subtree) > 0`")
    # every constructor that makes an ERROR-symbol node gives it a non-zero cost
    fn = ctx.need_fn(F, "ts_subtree_new_error", "P2")
    if fn:
        st = [n for pt, n, l, op in stores(fn) if writes_record(l, "SubtreeHeapData") == "error_cost" and not (strip(n.get("r") or {}).get("v") == 0)]
        if st:
            ctx.ok("P2", "ts_subtree_new_error:error-leaf-has-cost", "the lexical-error leaf is given a non-zero error cost")
        else:
            ctx.bad("P2", "ts_subtree_new_error:error-leaf-has-zero-cost",
                    "ts_subtree_new_error builds a leaf with symbol ERROR but never gives it an error cost (ts_subtree_new_leaf initialises 0): is_error() is true while has_error() is false on that leaf",
                    {"function": fn.name, "file": fn.file})
    fn = ctx.need_fn(F, "ts_subtree_new_error_node", "P2")
    if fn:
        c = find(fn, "ts_subtree_new_node(65535, children, 0, language)")
        if c:
            ctx.ok("P2", "ts_subtree_new_error_node", "ERROR parents are built by ts_subtree_new_node and therefore summarised (extent cost)")
        else:
            ctx.bad("P2", "ts_subtree_new_error_node", "ts_subtree_new_error_node no longer builds its node through ts_subtree_new_node(ts_builtin_sym_error, …)")


def rule_tiling(ctx, F):
    """T1: a parent's extent tiles its children and its cached counts count them: the first child
    gives padding and size, every later child adds its *total* size; every iteration accounts for the
    child's size and visible descendants; a child is counted as visible/named only if it (or its alias)
    is, and a hidden child passes on its own counts."""
    fn = ctx.need_fn(F, "ts_subtree_summarize_children", "T1")
    if not fn:
        return
    from C06 import incs
    pad = [pt for pt, n in find(fn, "self.ptr->padding = ts_subtree_padding(child)")]
    first = [pt for pt, n in find(fn, "self.ptr->size = ts_subtree_size(child)")]
    rest = [pt for pt, n in find(fn, "self.ptr->size = length_add(self.ptr->size, ts_subtree_total_size(child))")]
    if not (pad and first and rest):
        ctx.bad("T1", "summarize:extent-stores", "ts_subtree_summarize_children no longer has the three extent stores (padding/size from the first child, size += total size of the others)")
        return
    ctx.gate("T1", fn, pad + first, [("padding and initial size come from the first child only", "i == 0", True)], accept_desc="taking the first child's extent")
    ctx.gate("T1", fn, rest, [("later children add their total size (padding included)", "i == 0", False)], accept_desc="adding a later child's extent")
    head = [pt for pt, e in fn.points() if e.get("k") == "decl" and e.get("name") == fn.cur("child") and (e.get("t") or "") == "Subtree"]
    if head:
        ctx.after("T1", "summarize:every-child-adds-its-extent", fn, head, first + rest, "every child contributes its extent to the parent's size", retrigger_is_stop=True)
        vd = [pt for pt, n in find(fn, "self.ptr->visible_descendant_count += ts_subtree_visible_descendant_count(child)")]
        ctx.after("T1", "summarize:every-child-adds-its-visible-descendants", fn, head, vd, "every child contributes its visible descendants", retrigger_is_stop=True)
        ec = [pt for pt, n in find(fn, "self.ptr->error_cost += _")]
        ctx.after("T1", "summarize:every-child-adds-its-error-cost", fn, head, ec, "every child contributes its error cost", retrigger_is_stop=True)
    vis = incs(fn, "self.ptr->visible_child_count")
    nam = incs(fn, "self.ptr->named_child_count")
    plain_v = [pt for pt in vis if not any(pt == p for p, n in find(fn, "self.ptr->visible_child_count += child.ptr->visible_child_count"))]
    plain_n = [pt for pt in nam if not any(pt == p for p, n in find(fn, "self.ptr->named_child_count += child.ptr->named_child_count"))]
    inh = [p for p, n in find(fn, "self.ptr->visible_child_count += child.ptr->visible_child_count")] + [p for p, n in find(fn, "self.ptr->named_child_count += child.ptr->named_child_count")]
    ctx.floor("visible/named child count increments", len(plain_v) + len(plain_n), 4)
    ctx.gate("T1", fn, plain_v, [("a child counts as visible only if its alias or it itself is", [("alias_sequence[structural_index] != 0", True), ("ts_subtree_visible(child)", True)])], accept_desc="counting a visible child")
    ctx.gate("T1", fn, plain_n, [("a child counts as named only if its alias or it itself is named", [("ts_language_symbol_metadata(language, alias_sequence[structural_index]).named", True), ("ts_subtree_named(child)", True)])],
             accept_desc="counting a named child")
    if len(inh) == 2:
        ctx.gate("T1", fn, inh, [("a hidden child passes on its own counts", "ts_subtree_visible(child)", False), ("…only if it has children", "grandchild_count > 0", True)], accept_desc="inheriting a hidden child's counts")
    else:
        ctx.bad("T1", "summarize:hidden-child-counts", "ts_subtree_summarize_children no longer inherits both counts of a hidden child (found %d stores)" % len(inh))
    la = [pt for pt, n in find(fn, "self.ptr->lookahead_bytes = lookahead_end_byte - self.ptr->size.bytes - self.ptr->padding.bytes")]
    if la:
        ctx.ok("T1", "summarize:lookahead-relative-to-own-end", "lookahead_bytes is measured from the node's own end")
    else:
        ctx.bad("T1", "summarize:lookahead-relative-to-own-end", "lookahead_bytes is no longer lookahead_end_byte - size - padding")


MERGE_KEYS = ["state", "position.bytes", "error_cost"]


def rule_merge(ctx, F):
    """M1: two stack nodes are merged only if they agree on parse state, byte position and error
    cost — at the version level (ts_stack_can_merge) and when links are merged recursively
    (stack_node_add_link).  Merging nodes at different positions makes a later pop collect children
    whose sizes do not add up: the tree no longer tiles the text."""
    fn = ctx.need_fn(F, "stack_node_add_link", "M1")
    if fn:
        rec = [pt for pt, c in fn.calls() if callee_name(c) == "stack_node_add_link"]
        ctx.floor("recursive link merges in stack_node_add_link", len(rec), 1)
        ctx.gate("M1", fn, rec, [("previous nodes merged only with equal %s" % k, "existing_link->node->%s == link.node->%s" % (k, k), True) for k in MERGE_KEYS],
                 accept_desc="merging the previous nodes")
    fn = ctx.need_fn(F, "ts_stack_can_merge", "M1")
    if fn:
        rets = [strip(e["e"]) for pt, e in fn.points() if e.get("k") == "ret"]
        cj = [c for r in rets for c in conjuncts(r)]
        m = M(fn)
        for k in MERGE_KEYS:
            key = "ts_stack_can_merge:compares-" + k
            if any(m.match("head1->node->%s == head2->node->%s" % (k, k), c) for c in cj):
                ctx.ok("M1", key, "versions are mergeable only with equal %s" % k)
            else:
                ctx.bad("M1", key, "ts_stack_can_merge no longer requires equal %s of the two heads" % k, {"function": fn.name})
        if any(m.match("ts_subtree_external_scanner_state_eq(head1->last_external_token, head2->last_external_token)", c) for c in cj):
            ctx.ok("M1", "ts_stack_can_merge:compares-scanner-state", "versions are mergeable only with equal external scanner state")
        else:
            ctx.bad("M1", "ts_stack_can_merge:compares-scanner-state", "ts_stack_can_merge no longer compares the external scanner states of the two heads")
    fn = ctx.need_fn(F, "ts_stack_merge", "M1")
    if fn:
        adds = [pt for pt, c in fn.calls() if callee_name(c) == "stack_node_add_link"]
        ctx.gate("M1", fn, adds, [("versions are merged only if ts_stack_can_merge allows it", "ts_stack_can_merge(self, version1, version2)", True)], accept_desc="merging two versions")


# ------------------------------------------------------------------------------------------------
# U1: the summary fields live in a union with the leaf payloads
# ------------------------------------------------------------------------------------------------
NONTERMINAL_UNION_FIELDS = {"visible_child_count", "named_child_count", "visible_descendant_count", "dynamic_precedence", "repeat_depth", "production_id", "first_leaf"}
UNION_ACCESSORS = ["ts_subtree_visible_descendant_count", "ts_subtree_visible_child_count", "ts_subtree_dynamic_precedence", "ts_subtree_production_id",
                   "ts_node_child_count", "ts_node_named_child_count", "ts_node__relevant_child_count"]
# read without a child_count test, by hand: one reason each
UNION_TABLED = {
    "ts_subtree_repeat_depth": "balancing heuristic only: ts_subtree_compress re-validates the shape (child_count >= 2, same symbol, unshared) before every rotation, so a garbage depth read from a leaf costs at most a skipped or attempted rotation",
    "ts_subtree_leaf_symbol": "tests child_count == 0 first and then returns the node's own symbol",
    "ts_subtree_leaf_parse_state": "tests child_count == 0 first and then returns the node's own state",
}


def rule_union(ctx, F):
    """U1: child/descendant counts, dynamic precedence, production id and first-leaf share a union with a leaf's
    external-scanner state and look-ahead character (subtree.h).  An accessor may read a non-terminal member only after
    it established that the node has children; on a leaf the same bytes are scanner state copied in after construction."""
    n = 0
    for name in UNION_ACCESSORS + sorted(UNION_TABLED):
        fn = F.fns.get(name)
        if fn is None:
            if name in UNION_ACCESSORS:
                ctx.bad("U1", "%s:missing" % name, "accessor %s not found" % name)
            continue
        reads = sorted({pt for pt, e in fn.points() for x in own_walk(e) if x.get("k") == "mem" and x.get("f") in NONTERMINAL_UNION_FIELDS and (x.get("rec") or "") == "SubtreeHeapData"})
        if not reads:
            continue
        n += len(reads)
        if name in UNION_TABLED and name not in ("ts_subtree_leaf_symbol", "ts_subtree_leaf_parse_state"):
            ctx.ok("U1", "%s:tabled" % name, "tabled: " + UNION_TABLED[name], nontrivial=False)
            continue
        subj = "tree" if name.startswith("ts_node") else "self"
        alts = [("%s.ptr->child_count == 0" % subj, False), ("%s.ptr->child_count > 0" % subj, True), ("%s.ptr->child_count != 0" % subj, True), ("%s.ptr->child_count" % subj, True),
                ("ts_subtree_child_count(%s) > 0" % subj, True), ("ts_subtree_child_count(%s) == 0" % subj, False), ("ts_subtree_child_count(%s)" % subj, True)]
        ctx.gate("U1", fn, reads, [("a non-terminal union member is read only from a node that has children", alts)], accept_desc="reading a non-terminal union member")
    ctx.floor("reads of non-terminal union members in the accessors", n, 8)


def rule_trailing_extras(ctx, F):
    """X1: the extras re-pushed after a reduction are those of the children that were kept.  ts_parser__reduce strips
    trailing extras of the first path into `trailing_extras` and of every alternative path into `trailing_extras2`; when
    an alternative is selected the *old* extras are released first and only then the two arrays are swapped.  Releasing
    after the swap frees the extras of the selected path: their bytes vanish from the tree and every later node is
    placed too early (the tree no longer tiles the text)."""
    fn = ctx.need_fn(F, "ts_parser__reduce", "X1")
    if not fn:
        return
    swap = [pt for pt, n in find(fn, "array_swap(&self->trailing_extras, &self->trailing_extras2)")] or \
           [pt for pt, c in fn.calls() if callee_name(c) in ("_array__swap",) and "trailing_extras" in show(c)]
    clear = [pt for pt, n in find(fn, "ts_subtree_array_clear(&self->tree_pool, &self->trailing_extras)")]
    fill = [pt for pt, n in find(fn, "ts_subtree_array_remove_trailing_extras(_, &self->trailing_extras)")]
    push = [pt for pt, c in fn.calls() if callee_name(c) == "ts_stack_push" and "trailing_extras" in show(c)]
    fill2 = [pt for pt, n in find(fn, "ts_subtree_array_remove_trailing_extras(_, &self->trailing_extras2)")]   # a further alternative: the current extras are "old" again
    if not swap or not clear or not fill or not push:
        ctx.bad("X1", "ts_parser__reduce:trailing-extras-anchors", "ts_parser__reduce no longer has the fill / clear / swap / re-push of trailing_extras (found %d/%d/%d/%d)" % (len(fill), len(clear), len(swap), len(push)))
        return
    ctx.before("X1", "ts_parser__reduce:old-extras-released-before-swap", fn, swap, clear, "the rejected path's extras are released before the arrays are swapped", reset_pts=fill + swap)

    class NoClearAfterSwap(Monitor):
        def elem(self, m, pt, e, s):
            if pt in swap:
                return 1
            if pt in clear and m == 1:
                return Viol("releases trailing_extras after the swap, i.e. the extras of the path that was just selected", pt)
            if pt in push or pt in fill or pt in fill2:
                return 0
            return m
    sr = Search(fn, NoClearAfterSwap())
    v = sr.run(0)
    if v is None:
        ctx.ok("X1", "ts_parser__reduce:selected-extras-survive", "between the swap and the re-push nothing releases trailing_extras (%d states)" % sr.states)
    else:
        ctx.bad("X1", "ts_parser__reduce:selected-extras-survive", "ts_parser__reduce %s (%s): a comment between the node's last child and the reducing token disappears from the tree and all later positions shift" % (v.msg, fn.loc(v.pt)))


def run(ctx):
    for cfg in configs(ctx):
        ctx.config = cfg
        F = ctx.extract.cfacts(cfg)
        ctx.analysed["c_functions_" + cfg] = len(F.fn_list)
        rule_w(ctx, F)
        rule_ctor(ctx, F)
        rule_inline_widths(ctx, F)
        rule_p1(ctx, F)
        rule_p2(ctx, F)
        rule_merge(ctx, F)
        rule_tiling(ctx, F)
        rule_union(ctx, F)
        rule_trailing_extras(ctx, F)
        # after an edit every byte of the new text is attributed to exactly one node: the reshaping cases of ts_subtree_edit (shared with C10.P3)
        import C10
        C10.rule_geometry(ctx, F)
        # a reused EOF leaf ends the tree: its range veto must look to the end of the file (shared with C01.P6)
        import C01
        C01.rule_saturation(ctx, F)
        import C06
        sav = C06.ALIAS_READERS
        C06.ALIAS_READERS = [a for a in sav if a[0] == "ts_subtree_summarize_children"]
        try:
            C06.rule_s3b(ctx, F)
        finally:
            C06.ALIAS_READERS = sav
    return ctx.finish(
        "Who-may-write, ordering and pairing rules over subtree.c/node.c: cached child/descendant counts are written only by the summariser and are what the node API returns; "
        "in-place rotation re-summarises bottom-up; a child's error cost always reaches its parent; ERROR/MISSING carry non-zero cost and has_error is cost > 0. "
        "Does not decide termination, tiling of the text or position arithmetic.")
