"""C04 — changed ranges cover every changed position: the *pruning licence* (DESIGN.md §4 C04).

Decides: the lock-step comparison may skip a pair of subtrees only after every listed inequality was
ruled out and no included-range difference intersects it; changed steps are recorded; ranges are
appended only by the merging helper (sorted/disjoint); both entry points feed the included-range
symmetric difference.  Does not decide coverage itself.
"""
from common import *  # noqa: F401,F403
from cstores import stores, lvalue_chain


def rule_g1(ctx, F):
    fn = ctx.need_fn(F, "iterator_compare", "G1")
    if not fn:
        return
    # the locals the tables call old_tree/new_tree/… are whatever iterator_get_visible_state fills in
    for it, names in (("old_iter", ("old_tree", "old_alias_symbol", "old_start")), ("new_iter", ("new_tree", "new_alias_symbol", "new_start"))):
        for pt, c in fn.calls():
            if c.get("fn") == "iterator_get_visible_state" and arg_var(c, 0) == it:
                bind_names(fn, {names[0]: arg_var(c, 1), names[1]: arg_var(c, 2), names[2]: arg_var(c, 3)})
    acc = [pt for pt, e in fn.points() if e.get("k") == "ret" and strip(e["e"]).get("name") == "IteratorMatches"]
    ctx.floor("`return IteratorMatches` sites", len(acc), 2)
    both_null = [("old_tree.ptr", False), ("new_tree.ptr", False)]
    preds = [
        ("same start", "old_start != new_start", False),
        ("old node is not an ERROR", "ts_subtree_symbol(old_tree) == 65535", False),
        ("same size", "ts_subtree_size(old_tree).bytes != ts_subtree_size(new_tree).bytes", False),
        ("old parse state known", "ts_subtree_parse_state(old_tree) == 65535", False),
        ("new parse state known", "ts_subtree_parse_state(new_tree) == 65535", False),
        ("same error-state status", "(ts_subtree_parse_state(old_tree) == 0) != (ts_subtree_parse_state(new_tree) == 0)", False),
        ("same error cost", "ts_subtree_error_cost(old_tree) != ts_subtree_error_cost(new_tree)", False),
        ("same has_external_tokens", "ts_subtree_has_external_tokens(old_tree) != ts_subtree_has_external_tokens(new_tree)", False),
        ("old node has no pending edit", "ts_subtree_has_changes(old_tree)", False),
        ("same alias", "old_alias_symbol != new_alias_symbol", False),
        ("same symbol", "ts_subtree_symbol(old_tree) != ts_subtree_symbol(new_tree)", False),
    ]
    specs = []
    for label, p, w in preds:
        for side, esc in (("old", both_null[0]), ("new", both_null[1])):
            specs.append(("%s (or %s tree absent)" % (label, side), [(p, w), esc]))
    specs.append(("external scanner state equal when external tokens present (or old tree absent)",
                  [("ts_subtree_has_external_tokens(old_tree)", False),
                   ("ts_subtree_external_scanner_state_eq(old_iter->prev_external_token, new_iter->prev_external_token)", True), both_null[0]]))
    specs.append(("external scanner state equal when external tokens present (or new tree absent)",
                  [("ts_subtree_has_external_tokens(old_tree)", False),
                   ("ts_subtree_external_scanner_state_eq(old_iter->prev_external_token, new_iter->prev_external_token)", True), both_null[1]]))
    ctx.gate("G1", fn, acc, specs, accept_desc="`return IteratorMatches`")
    # the visible states compared are those of the two iterators passed in
    for it, tree, alias, start in (("old_iter", "old_tree", "old_alias_symbol", "old_start"), ("new_iter", "new_tree", "new_alias_symbol", "new_start")):
        g = find(fn, "iterator_get_visible_state(%s, &%s, &%s, &%s)" % (it, tree, alias, start))
        if len(g) == 1:
            ctx.ok("G1", "iterator_compare:visible-state:" + it, "state of %s is read into %s/%s/%s" % (it, tree, alias, start))
        else:
            ctx.bad("G1", "iterator_compare:visible-state:" + it, "iterator_get_visible_state(%s, &%s, &%s, &%s) not found exactly once" % (it, tree, alias, start))


class DescendMonitor(Monitor):
    """Per loop iteration of ts_subtree_get_changed_ranges: if exactly one of the two iterators
    descended, or the comparison said Differs, the step must be recorded as a change."""

    def __init__(self, fn, start_pts, end_pts, add_pts):
        self.start, self.end, self.add = set(start_pts), set(end_pts), set(add_pts)
        self.fn = fn

    def elem(self, m, pt, e, s):
        if pt in self.start:
            return (None, None, False, False)
        if m is None:
            return m
        if pt in self.add:
            return (m[0], m[1], m[2], True)
        if pt in self.end:
            old, new, differs, added = m
            need = differs or (old is not None and new is not None and old != new)
            if need and not added:
                return Viol("iteration ends without recording a change although %s" % ("comparison was IteratorDiffers" if differs else "only one side could descend"), pt)
            return None
        return m

    def edge(self, m, bid, edge, cond, truth, s):
        if m is None:
            return m
        if cond is not None and truth is not None:
            if s.m.cond_matches("iterator_descend(&old_iter, position.bytes)", True, cond, truth):
                return (True, m[1], m[2], m[3])
            if s.m.cond_matches("iterator_descend(&old_iter, position.bytes)", False, cond, truth):
                return (False, m[1], m[2], m[3])
            if s.m.cond_matches("iterator_descend(&new_iter, position.bytes)", True, cond, truth):
                return (m[0], True, m[2], m[3])
            if s.m.cond_matches("iterator_descend(&new_iter, position.bytes)", False, cond, truth):
                return (m[0], False, m[2], m[3])
        if isinstance(edge.lab, dict) and edge.lab.get("case") and edge.lab.get("name") == "IteratorDiffers":
            return (m[0], m[1], True, m[3])
        return m


def rule_g2(ctx, F):
    fn = ctx.need_fn(F, "ts_subtree_get_changed_ranges", "G2")
    if not fn:
        return
    n_edges = sum(1 for b in fn.blocks.values() for e in b.succs if isinstance(e.lab, dict) and e.lab.get("name") == "IteratorMatches")
    if n_edges != 1:
        ctx.bad("G2", "ts_subtree_get_changed_ranges:matches-arm", "expected one `case IteratorMatches` edge, found %d" % n_edges)
        return
    ctx.gate("G2", fn, [], [
        ("no included-range difference intersects the skipped subtree",
         "ts_range_array_intersects(included_range_differences, included_range_difference_index, position.bytes, iterator_end_position(&old_iter).bytes)", False),
    ], accept_desc="the `case IteratorMatches` arm (skip both subtrees)",
        accept_edge=lambda bid, e: isinstance(e.lab, dict) and e.lab.get("name") == "IteratorMatches")
    bind(fn, "comparison", "iterator_compare(&old_iter, &new_iter)")
    ids = fn.ids_named("comparison")
    ds = [strip(d) if d else d for i in ids for d in fn.defs(i)]
    ok = len(ds) == 2 and any(d and M(fn).match("iterator_compare(&old_iter, &new_iter)", d) for d in ds) and any(d and d.get("name") == "IteratorMayDiffer" for d in ds)
    if ok:
        ctx.ok("G2", "ts_subtree_get_changed_ranges:comparison-defs", "`comparison` is iterator_compare(&old_iter, &new_iter), only ever weakened to IteratorMayDiffer")
    else:
        ctx.bad("G2", "ts_subtree_get_changed_ranges:comparison-defs", "`comparison` must be defined by iterator_compare(&old_iter, &new_iter) and otherwise only be set to IteratorMayDiffer; definitions: %s" % [show(d) if d else "?" for d in ds])
    starts = [pt for pt, e in fn.points() if e.get("k") == "decl" and e["name"] == fn.cur("comparison")]
    ends = [pt for pt, n in find(fn, "position = next_position") if fn.blocks[pt[0]].elems[pt[1]]["e"] is n]
    ends = [pt for pt in ends if pt[0] != starts[0][0]] if starts else ends
    adds = [pt for pt, n in find(fn, "ts_range_array_add(&results, position, next_position)")]
    # the pre-loop alignment also assigns position = next_position; only the in-loop one ends an iteration
    dom = dominators(fn)
    ends = [pt for pt in ends if starts and dominates_pt(fn, dom, starts[0], pt)]
    if not (starts and ends and adds):
        ctx.bad("G2", "ts_subtree_get_changed_ranges:iteration-anchors", "loop anchors not found (comparison decl %d, position update %d, add call %d)" % (len(starts), len(ends), len(adds)))
        return
    s = Search(fn, DescendMonitor(fn, starts, ends, adds))
    v = s.run(None)
    if v is None:
        ctx.ok("G2", "ts_subtree_get_changed_ranges:changed-steps-are-recorded",
               "in every iteration where the comparison is IteratorDiffers or exactly one iterator descends, ts_range_array_add(&results, position, next_position) runs before position advances (%d states)" % s.states,
               sample={"function": fn.name, "iteration_start": fn.loc(starts[0]), "iteration_end": fn.loc(ends[0]), "record": fn.loc(adds[0])})
    else:
        ctx.bad("G2", "ts_subtree_get_changed_ranges:changed-steps-are-recorded", "%s (%s)" % (v.msg, fn.loc(v.pt)), {"path": s.render_path(v.path), "function": fn.name})
    # trailing size difference
    tail = find(fn, "ts_range_array_add(&results, ts_subtree_total_size(*old_tree), ts_subtree_total_size(*new_tree))") + \
        find(fn, "ts_range_array_add(&results, ts_subtree_total_size(*new_tree), ts_subtree_total_size(*old_tree))")
    if len(tail) == 2:
        ctx.ok("G2", "ts_subtree_get_changed_ranges:tail-size-difference", "a difference in total size is reported in both directions")
    else:
        ctx.bad("G2", "ts_subtree_get_changed_ranges:tail-size-difference", "expected the two trailing ts_range_array_add calls for differing total sizes, found %d" % len(tail))


def range_array_pushes(F):
    out = []
    for fn in F.fn_list:
        for pt, n, l, op in stores(fn):
            l = strip(l)
            if l.get("k") == "idx":
                b = strip(l["b"])
                if b.get("k") == "mem" and b["f"] == "contents" and b.get("bt") == "TSRangeArray":
                    out.append((fn, pt, n))
        for pt, c in fn.calls():
            if c.get("fn") in ("_array__splice", "_array__assign", "_array__erase", "_array__swap"):
                a0 = strip(c["a"][0]) if c.get("a") else {}
                for x in walk(a0):
                    if x.get("k") == "mem" and x.get("bt") == "TSRangeArray":
                        out.append((fn, pt, c))
                        break
    return out


def rule_w1(ctx, F):
    sites = range_array_pushes(F)
    for fn, pt, n in sites:
        if fn.name != "ts_range_array_add":
            ctx.bad("W1", "%s:range-array-write" % fn.name, "a TSRangeArray is appended/modified outside ts_range_array_add: `%s` at %s" % (show(n)[:80], fn.loc(pt)),
                    {"function": fn.name, "site": fn.loc(pt)})
    inside = [(fn, pt, n) for fn, pt, n in sites if fn.name == "ts_range_array_add"]
    ctx.floor("element stores into a TSRangeArray", len(inside), 1)
    fn = ctx.need_fn(F, "ts_range_array_add", "W1")
    if fn and inside:
        ctx.gate("W1", fn, [pt for _, pt, _ in inside], [
            ("range is non-empty", "start.bytes < end.bytes", True),
            ("range does not touch the previous one (else merged)", [("self->size > 0", False), ("start.bytes <= last_range->end_byte", False), ("start.bytes < last_range->end_byte", False)]),
        ], accept_desc="the append")
        lr = fn.ids_named("last_range")
        d = fn.single_def(lr[0]) if lr else None
        if d is not None and M(fn).match("&self->contents[self->size - 1]", [x for x in walk(d) if x.get("k") == "un" and x["op"] == "&"][-1] if [x for x in walk(d) if x.get("k") == "un" and x["op"] == "&"] else {}):
            ctx.ok("W1", "ts_range_array_add:last_range-is-last-element", "the merge test compares against the last element")
        else:
            ctx.bad("W1", "ts_range_array_add:last_range-is-last-element", "`last_range` is no longer the last element of the array")
        merge = find(fn, "last_range->end_byte = end.bytes")
        if merge:
            ctx.ok("W1", "ts_range_array_add:merge-extends", "touching ranges are merged by extending the last range's end")
        else:
            ctx.bad("W1", "ts_range_array_add:merge-extends", "merge branch no longer extends last_range->end_byte to end.bytes")


def rule_p1(ctx, F):
    fn = ctx.need_fn(F, "ts_tree_get_changed_ranges", "P1")
    if fn:
        uses = [pt for pt, n in find(fn, "ts_subtree_get_changed_ranges(&old_tree->root, &new_tree->root, _, _, _, &included_range_differences, _)")]
        g = [pt for pt, n in find(fn, "ts_range_array_get_changed_ranges(old_tree->included_ranges, old_tree->included_range_count, new_tree->included_ranges, new_tree->included_range_count, &included_range_differences)")]
        ctx.before("P1", "ts_tree_get_changed_ranges:range-difference-first", fn, uses, g,
                   "the included-range symmetric difference of (old, new) is computed before the trees are compared")
    fn = ctx.need_fn(F, "ts_parser_parse", "P1")
    if fn:
        uses = [pt for pt, n in find(fn, "reusable_node_reset(&self->reusable_node, old_tree->root)")]
        g = [pt for pt, n in find(fn, "ts_range_array_get_changed_ranges(old_tree->included_ranges, old_tree->included_range_count, self->lexer.included_ranges, self->lexer.included_range_count, &self->included_range_differences)")]
        ctx.before("P1", "ts_parser_parse:range-difference-first", fn, uses, g,
                   "a parse with an old tree computes the included-range difference (old tree's ranges vs the lexer's) before any node can be reused")
    fn = ctx.need_fn(F, "ts_range_array_get_changed_ranges", "P1")
    if fn:
        adds = find(fn, "ts_range_array_add(differences, current_position, _)")
        ctx.floor("difference appends in ts_range_array_get_changed_ranges", len(adds), 3)
        ctx.gate("P1", fn, [pt for pt, n in adds], [("a span is a difference only where exactly one list covers it", "in_old_range != in_new_range", True)], accept_desc="appending a difference span")
        # …and in every step of the sweep: before the position advances or a list changes state, the span
        # just passed was tested (and appended when exactly one list covered it)
        add_pts = {pt for pt, n in adds}
        step = {pt for pt, n in find(fn, "current_position = _")} | {pt for pt, n in find(fn, "in_old_range = !in_old_range")} | {pt for pt, n in find(fn, "in_new_range = !in_new_range")}
        # loop head: the uninitialised `Length` declarations at the top of the loop body (next_old/new_position)
        head = {pt for pt, e in fn.points() if e.get("k") == "decl" and (e.get("t") or "") == "Length" and e.get("init") is None}
        bind_names(fn, ["in_old_range", "in_new_range"]) if "bind_names" in globals() and False else None

        class Sweep(Monitor):
            # 0 untested, 1 tested: nothing to add, 2 tested: add pending, 3 added
            def elem(self, m, pt, e, s):
                if pt in head:
                    return 0
                if pt in add_pts:
                    return 3
                if pt in step and m in (0, 2):
                    return Viol("the sweep advances without %s" % ("having tested whether exactly one range list covers the span just passed" if m == 0 else "appending the span it found to differ"), pt)
                return m

            def edge(self, m, bid, edge, cond, truth, s):
                if cond is not None and truth is not None and m == 0:
                    if s.m.cond_matches("in_old_range != in_new_range", True, cond, truth):
                        return 2
                    if s.m.cond_matches("in_old_range != in_new_range", False, cond, truth):
                        return 1
                return m
        ctx.floor("sweep steps in ts_range_array_get_changed_ranges", len(step), 7)
        if not head:
            ctx.bad("P1", "ts_range_array_get_changed_ranges:every-step-tests-the-span", "loop head (declaration of next_old_position) not found")
        else:
            srch = Search(fn, Sweep())
            v = srch.run(1)
            if v is None:
                ctx.ok("P1", "ts_range_array_get_changed_ranges:every-step-tests-the-span", "each step of the range sweep tests the span it leaves behind and appends it when exactly one list covered it (%d states)" % srch.states)
            else:
                ctx.bad("P1", "ts_range_array_get_changed_ranges:every-step-tests-the-span", "ts_range_array_get_changed_ranges: %s (%s) — text whose inclusion changed is then not invalidated for reuse / not reported as changed" % (v.msg, fn.loc(v.pt)),
                        {"site": fn.loc(v.pt), "path": srch.render_path(v.path)[-6:]})


def rule_g3(ctx, F):
    """The state compared by iterator_compare includes the alias of *visible* nodes too."""
    fn = ctx.need_fn(F, "iterator_get_visible_state", "G3")
    if fn:
        acc = [pt for pt, n in find(fn, "*tree = *entry.subtree")]
        ctx.floor("visible-state hand-over in iterator_get_visible_state", len(acc), 1)
        ctx.gate("G3", fn, acc, [("the parent's alias for this child is looked up for every non-root entry, visible or not",
                                  [("i > 0", False), ("*alias_symbol = ts_language_alias_at(self->language, _, entry.structural_child_index)", "stmt")])],
                 accept_desc="handing the visible subtree to the comparison")
    g = ctx.need_fn(F, "iterator_compare", "G3")
    if g:
        pass


class FoldMonitor(Monitor):
    """After a step-over trigger, the stepped-over subtree's last external token must be folded
    into prev_external_token (or shown to be absent) before the walk moves on."""

    def __init__(self, trig, stores, ends, absent_pat, exit_ok=False):
        self.trig, self.stores, self.ends, self.absent = set(trig), set(stores), set(ends), absent_pat
        self.exit_ok = exit_ok

    def elem(self, m, pt, e, s):
        if pt in self.stores:
            return None
        if m is not None and pt in self.ends and pt != m:
            return Viol("a subtree is stepped over without folding its last external token into prev_external_token", pt)
        if pt in self.trig:
            return pt
        return m

    def edge(self, m, bid, edge, cond, truth, s):
        if m is not None and cond is not None and truth is not None and s.m.cond_matches(self.absent, False, cond, truth):
            return None
        return m

    def exit(self, m, bid, s):
        if m is not None and not self.exit_ok:
            return Viol("function returns after stepping over a subtree without folding its last external token")
        return None


def rule_p2(ctx, F):
    """prev_external_token (read by iterator_compare) is maintained wherever the walk passes a subtree."""
    from cstores import writes_record
    writers = {}
    for fn in F.fn_list:
        for pt, n, l, op in stores(fn):
            if writes_record(l, "Iterator") == "prev_external_token":
                writers.setdefault(fn.name, []).append(pt)
    need = {"iterator_descend", "iterator_advance"}
    for w in sorted(need - set(writers)):
        ctx.bad("P2", "%s:tracks-external-token" % w, "%s no longer updates Iterator.prev_external_token although it moves the walk past subtrees: iterator_compare then compares stale scanner states" % w)
    fn = F.fn("iterator_descend")
    if fn and "iterator_descend" in writers:
        bind(fn, "child", "&_[i]")
        trig = [pt for pt, n in find(fn, "position = child_right")] or [pt for pt, n in find(fn, "position = length_add(length_add(position, ts_subtree_padding(*child)), ts_subtree_size(*child))")]
        ends = [pt for pt, e in fn.points() if e.get("k") == "decl" and e["name"] == fn.cur("child")]
        s = Search(fn, FoldMonitor(trig, writers["iterator_descend"], ends, "ts_subtree_last_external_token(*child).ptr"))
        v = s.run(None) if trig else Viol("step-over statement `position = child_right` not found")
        if v is None:
            ctx.ok("P2", "iterator_descend:tracks-external-token", "every child stepped over while descending folds its last external token into prev_external_token (or has none)",
                   sample={"function": fn.name, "step_over": [fn.loc(p) for p in trig], "stores": [fn.loc(p) for p in writers["iterator_descend"]]})
        else:
            ctx.bad("P2", "iterator_descend:tracks-external-token", "iterator_descend: %s" % v.msg, {"path": s.render_path(v.path)[-6:] if v.path else []})
    fn = F.fn("iterator_advance")
    if fn and "iterator_advance" in writers:
        ent = locals_of_type(fn, "TreeCursorEntry")
        bind_names(fn, {"entry": ent[0] if ent else None})
        trig = [pt for pt, e in fn.points() if e.get("k") == "decl" and e["name"] == fn.cur("entry")]
        ends = [pt for pt, c in fn.calls() if c.get("fn") == "_array__grow"] + trig
        s = Search(fn, FoldMonitor(trig, writers["iterator_advance"], ends, "ts_subtree_last_external_token(*entry.subtree).ptr", exit_ok=True))
        # (leaving through `iterator_done` right after the pop is fine: nothing is compared afterwards)
        v = s.run(None) if trig else Viol("pop of the current entry not found")
        if v is None:
            ctx.ok("P2", "iterator_advance:tracks-external-token", "the subtree left behind when advancing folds its last external token into prev_external_token (or has none)")
        else:
            ctx.bad("P2", "iterator_advance:tracks-external-token", "iterator_advance: %s" % v.msg, {"path": s.render_path(v.path)[-6:] if v.path else []})
    fn = F.fn("iterator_new")
    if fn:
        ctx.ok("P2", "iterator_new", "iterators start without a previous external token", nontrivial=False)


def rule_p3(ctx, F):
    """P3: the parts of the document the pairwise walk never visits are reported as changed: the gap
    between the two trees' start positions, and the tail by which one tree is longer than the other;
    the cursor into the included-range differences only moves past ranges that end at/before the position."""
    fn = ctx.need_fn(F, "ts_subtree_get_changed_ranges", "P3")
    if not fn:
        return
    for a, b, what in (("position", "next_position", "head (old tree starts first)"), ("next_position", "position", "head (new tree starts first)"),
                       ("old_size", "new_size", "tail (new tree longer)"), ("new_size", "old_size", "tail (old tree longer)")):
        adds = [pt for pt, n in find(fn, "ts_range_array_add(&results, %s, %s)" % (a, b))]
        key = "ts_subtree_get_changed_ranges:%s-reported" % what.split(" ")[0] + ("-" + ("old" if "old tree" in what else "new"))
        if not adds:
            ctx.bad("P3", key, "ts_subtree_get_changed_ranges no longer reports the %s as a changed range" % what)
            continue
        line = lambda p: int(fn.loc(p).rsplit(":", 1)[-1])
        first = min(adds, key=line)       # the head/tail report is the first such append in source order (the loop body has its own)
        ctx.gate("P3", fn, [first], [("the %s is reported exactly when it is non-empty" % what, "%s.bytes < %s.bytes" % (a, b), True)], accept_desc="reporting the %s" % what)

        class Must(Monitor):
            """after the True edge of `a.bytes < b.bytes` the matching add happens before the next branch on positions"""
            def __init__(self, pat, add_pts):
                self.pat, self.adds = pat, set(add_pts)

            def elem(self, m, pt, e, s):
                if m == 1 and pt in self.adds:
                    return 2
                if m == 1 and any(n.get("k") == "assign" and show(strip(n["l"])) in (a, b) for n in own_walk(e)):
                    return Viol("`%s` / `%s` is overwritten before the %s was reported" % (a, b, what), pt)
                return m

            def edge(self, m, bid, edge, cond, truth, s):
                if m == 0 and cond is not None and truth is not None and s.m.cond_matches(self.pat, True, cond, truth):
                    return 1
                return m

            def exit(self, m, bid, s):
                if m == 1:
                    return Viol("function returns without reporting the %s" % what)
                return None
        srch = Search(fn, Must("%s.bytes < %s.bytes" % (a, b), adds))
        v = srch.run(0)
        if v is None:
            ctx.ok("P3", key + ":always", "whenever %s.bytes < %s.bytes the span between them is appended to the result (%d states)" % (a, b, srch.states))
        else:
            ctx.bad("P3", key + ":always", "ts_subtree_get_changed_ranges: %s (%s)" % (v.msg, fn.loc(v.pt) if v.pt else "exit"), {"path": srch.render_path(v.path)[-5:]})
    from C06 import incs
    skip = incs(fn, "included_range_difference_index")
    ctx.floor("advances of the included-range-difference cursor", len(skip), 1)
    ctx.gate("P3", fn, skip, [("a difference range is passed only when it ends at or before the current position", "range->end_byte <= position.bytes", True)], accept_desc="moving past a difference range")


def run(ctx):
    for cfg in configs(ctx):
        ctx.config = cfg
        F = ctx.extract.cfacts(cfg)
        ctx.analysed["c_functions_" + cfg] = len(F.fn_list)
        rule_g1(ctx, F)
        rule_g2(ctx, F)
        rule_w1(ctx, F)
        rule_p1(ctx, F)
        rule_p2(ctx, F)
        rule_g3(ctx, F)
        rule_p3(ctx, F)
        # iterator_compare descends into a node built under ambiguity only because its parse state is NONE (shared with C01.P10)
        import C01
        C01.rule_fragile_state(ctx, F)
    return ctx.finish(
        "Gate rules over the Clang CFGs of get_changed_ranges.c/tree.c/parser.c: `IteratorMatches` (skip) is returned/taken only after every listed "
        "difference test failed and no included-range difference intersects; changed steps are recorded; TSRangeArray elements are appended only by the "
        "merging helper under its ordering tests. Decides the pruning licence, not that the traversal covers every position.")
