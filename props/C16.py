"""C16 — symbol/field names round-trip through their ids and the look-ahead iterator lists every
entry of a state's row: the structural part (added after the design; DESIGN.md §10.8).

Decides on Clang CFGs of lib/src/language.c / language.h:

  N1  name → id look-ups accept a table entry only on an *exact* match: the bounded comparison
      (`strncmp(.., length)`) is always paired with a test that the entry (or literal) ends at
      `length` — otherwise every prefix of an entry resolves to it;
  N2  the look-up loops run over the whole id range (symbols 0..symbol_count, fields 1..=field_count)
      and return the public id / the loop index;
  N3  id → name reads the table only inside its bounds;
  L1  the look-ahead iterator says "done" only at the end of the row (large states) or when no group
      is left (small states), and skips nothing but empty entries.

On rustc MIR of tree-sitter-generate (node_types.rs, render.rs):

  M1  claims published in node-types.json only get weaker when contributions are merged
      (`required` and-ed / cleared, `multiple` or-ed / set);
  M2  every rule contributing to a node kind is merged into the kind's fields *and* un-fielded children,
      and a field the rule lacks stops being required;
  M3  the child-quantity lattice moves in one direction per operation (union weakens, append strengthens)
      and only because of the other operand;
  M4  a token sharing a kind with a rule clears `required` everywhere;
  A1  an alias reuses an existing symbol only by that symbol's *published* name.

Does not decide that every tree conforms to node-types.json (the quantities themselves are computed
from the grammar) nor that merged states list supersets.
"""
from common import *  # noqa: F401,F403


def lit_len(e):
    e = strip(e)
    return len(e.get("v")) if e.get("k") == "str" and isinstance(e.get("v"), str) else None


def rule_names(ctx, F):
    fn = ctx.need_fn(F, "ts_language_symbol_for_name", "N1")
    if fn:
        # every return of something other than 0: must be preceded by a bounded comparison that succeeded and by an end-of-entry test
        rets = [(pt, strip(e["e"])) for pt, e in fn.points() if e.get("k") == "ret" and not (strip(e["e"]).get("k") == "int" and strip(e["e"]).get("v") == 0)]
        ctx.floor("successful returns of ts_language_symbol_for_name", len(rets), 2)
        cmps = [(pt, c) for pt, c in fn.calls() if callee_name(c) == "strncmp"]
        ctx.floor("bounded comparisons in ts_language_symbol_for_name", len(cmps), 2)
        for k, (pt, r) in enumerate(rets):
            what = show(r)[:40]
            # which comparison licenses this return?  the one whose success edge dominates it: find by gate
            ok_any = False
            for cpt, c in cmps:
                a = [strip(x) for x in c["a"]]
                other = [x for x in a[:2] if not (x.get("k") == "ref" and x.get("dk") == "param")]
                lenarg = show(a[2])
                entry = other[0] if other else a[1]
                n = lit_len(entry)
                cmp_pat = "strncmp(%s, %s, %s)" % (show(a[0]), show(a[1]), lenarg)
                s = Search(fn, GateMonitor([pt], [(cmp_pat, False)], None, ()))
                try:
                    licensed = s.run(0) is None
                except Exception:
                    licensed = False
                if not licensed:
                    continue
                ok_any = True
                if n is not None:
                    alts = [("%s == %d" % (lenarg, n), True), ("%s != %d" % (lenarg, n), False)]
                    desc = "the literal \"%s\" is matched only when the name has its length (%d)" % (entry.get("v"), n)
                else:
                    alts = [("%s[%s]" % (show(entry), lenarg), False), ("%s[%s] == 0" % (show(entry), lenarg), True)]
                    desc = "a table entry is matched only if it ends where the name ends"
                ctx.gate("N1", fn, [pt], [(desc, alts)], accept_desc="returning `%s`" % what)
            if not ok_any:
                ctx.bad("N1", "ts_language_symbol_for_name:return#%d-licensed-by-comparison" % k, "ts_language_symbol_for_name returns `%s` at %s without a successful bounded comparison on the path" % (what, fn.loc(pt)))
        # range + returned id
        lp = find(fn, "i < count")
        cd = [d for i in fn.ids_named("count") for d in fn.defs(i) if d is not None]
        if lp and cd and "ts_language_symbol_count" in show(cd[0]):
            ctx.ok("N2", "ts_language_symbol_for_name:whole-range", "the loop runs over every symbol id below ts_language_symbol_count")
        else:
            ctx.bad("N2", "ts_language_symbol_for_name:whole-range", "ts_language_symbol_for_name no longer loops `i < count` with count = ts_language_symbol_count(self)")
        if any(M(fn).match("self->public_symbol_map[i]", r) for pt, r in rets):
            ctx.ok("N2", "ts_language_symbol_for_name:returns-public-id", "a match returns the public symbol of the matching index")
        else:
            ctx.bad("N2", "ts_language_symbol_for_name:returns-public-id", "ts_language_symbol_for_name no longer returns self->public_symbol_map[i] for the matching index")
    fn = ctx.need_fn(F, "ts_language_field_id_for_name", "N1")
    if fn:
        rets = [pt for pt, e in fn.points() if e.get("k") == "ret" and strip(e["e"]).get("k") == "ref"]
        ctx.floor("successful returns of ts_language_field_id_for_name", len(rets), 1)
        ctx.gate("N1", fn, rets, [("a field name is matched only if it ends where the name ends", [("self->field_names[i][name_length] == 0", True), ("self->field_names[i][name_length]", False)])],
                 accept_desc="returning a field id")
        cmps = [pt for pt, c in fn.calls() if callee_name(c) == "strncmp"]
        ctx.before("N1", "ts_language_field_id_for_name:compared-first", fn, rets, cmps, "a field id is returned only after the bounded comparison")
        lp = find(fn, "i < count + 1")
        cd = [d for i in fn.ids_named("count") for d in fn.defs(i) if d is not None]
        iv = [d for i in fn.ids_named("i") for d in fn.defs(i) if d is not None and strip(d).get("k") == "int"]
        if lp and cd and "ts_language_field_count" in show(cd[0]) and iv and strip(iv[0]).get("v") == 1:
            ctx.ok("N2", "ts_language_field_id_for_name:whole-range", "the loop runs over field ids 1..=field_count")
        else:
            ctx.bad("N2", "ts_language_field_id_for_name:whole-range", "ts_language_field_id_for_name no longer loops over 1..=ts_language_field_count(self)")
    fn = ctx.need_fn(F, "ts_language_symbol_name", "N3")
    if fn:
        acc = [pt for pt, e in fn.points() if e.get("k") == "ret" and strip(e["e"]).get("k") == "idx"]
        ctx.gate("N3", fn, acc, [("the name table is read only below symbol_count", "symbol < ts_language_symbol_count(self)", True)], accept_desc="reading symbol_names[symbol]")
    fn = ctx.need_fn(F, "ts_language_field_name_for_id", "N3")
    if fn:
        acc = [pt for pt, e in fn.points() if e.get("k") == "ret" and strip(e["e"]).get("k") == "idx"]
        ctx.gate("N3", fn, acc, [("the field-name table is read only up to field_count", "id <= count", True), ("…and only if the language has fields", "count", True)], accept_desc="reading field_names[id]")


def rule_lookahead(ctx, F):
    fn = ctx.need_fn(F, "ts_lookahead_iterator__next", "L1")
    if not fn:
        return
    done = [pt for pt, n in find(fn, "self->phase = LookaheadDone")]
    ctx.floor("`done` transitions of the look-ahead iterator", len(done), 2)
    ctx.gate("L1", fn, done, [("the iterator is done only at the end of the row or when no group is left",
                               [("symbol >= self->language->symbol_count", True), ("self->group_count == 0", True)])], accept_desc="declaring the iteration done")
    small_done = [pt for pt in done]
    ctx.gate("L1", fn, done, [("…and, for small states, only when the current group is exhausted", [("self->data == self->group_end", True), ("self->is_small_state", False)])],
             accept_desc="declaring the iteration done")
    from C06 import incs
    skips = incs(fn, "symbol")
    ctx.floor("skips in the large-state scan", len(skips), 1)
    ctx.gate("L1", fn, skips, [("only empty entries are skipped", "row[symbol]", False), ("…inside the row", "symbol < self->language->symbol_count", True)], accept_desc="skipping a symbol")
    for name in ("ts_lookahead_iterator_new", "ts_lookahead_iterator_reset_state", "ts_lookahead_iterator_reset"):
        g = ctx.need_fn(F, name, "L1")
        if g:
            acc = [pt for pt, c in g.calls() if callee_name(c) == "ts_language_lookaheads"]
            pat = {"ts_lookahead_iterator_new": "state >= self->state_count", "ts_lookahead_iterator_reset_state": "state >= iterator->language->state_count",
                   "ts_lookahead_iterator_reset": "state >= language->state_count"}[name]
            ctx.gate("L1", g, acc, [("a row is looked up only for an existing state", pat, False)], accept_desc="positioning the iterator")


WIDE_TABLE_FIELDS = {"small_parse_table_map": "offsets into ts_small_parse_table (uint32_t: the table of a large language exceeds 65535 cells)"}


_BITS = {"uint8_t": 8, "int8_t": 8, "char": 8, "uint16_t": 16, "int16_t": 16, "TSSymbol": 16, "TSStateId": 16, "TSFieldId": 16, "uint32_t": 32, "int32_t": 32,
         "unsigned": 32, "unsigned int": 32, "int": 32, "uint64_t": 64, "int64_t": 64, "size_t": 64}


def type_bits(t):
    if not isinstance(t, str):
        return None
    t = t.replace("const", "").replace("volatile", "").strip()
    return _BITS.get(t)


def rule_widths(ctx, F):
    """L2: the two readers of the small parse table (ts_language_lookup for the parser, ts_language_lookaheads
    for the iterator) take the state's offset at its full width — no narrowing conversion of a value read from
    the offset map."""
    n = 0
    for fn in F.fn_list:
        if not fn.file.startswith("lib/src"):
            continue
        for pt, e in fn.points():
            for x in own_walk(e):
                reads = [y for y in walk(x.get("e") or {}) if y.get("k") == "mem" and y.get("f") in WIDE_TABLE_FIELDS] if x.get("k") == "cast" else []
                if x.get("k") == "cast" and reads and x.get("tobits") and x.get("frombits") and x["tobits"] < x["frombits"]:
                    ctx.bad("L2", "%s:narrows-%s" % (fn.name, reads[0]["f"]), "%s narrows a value read from %s to %d bits at %s (%s): states stored beyond that offset are decoded from the wrong cells" % (
                        fn.name, reads[0]["f"], x["tobits"], fn.loc(pt), WIDE_TABLE_FIELDS[reads[0]["f"]]), {"site": fn.loc(pt)})
            # implicit conversions in initialisers / assignments: compare declared widths
            tgt = None
            if e.get("k") == "decl" and e.get("init") is not None:
                tgt, val = e.get("t") if isinstance(e.get("t"), str) else "", e["init"]
            for x in own_walk(e):
                if x.get("k") == "assign" and strip(x["l"]).get("k") == "ref":
                    tgt, val = strip(x["l"]).get("t") if isinstance(strip(x["l"]).get("t"), str) else "", x["r"]
            if tgt is not None:
                v = strip(val)
                reads = [y for y in walk(val) if y.get("k") == "mem" and y.get("f") in WIDE_TABLE_FIELDS]
                wt, wv = type_bits(tgt), type_bits(v.get("t") or "")
                if reads and v.get("k") == "idx" and wt and wv and wt < wv:
                    ctx.bad("L2", "%s:narrows-%s" % (fn.name, reads[0]["f"]), "%s stores a value read from %s (%d bits) in a %d-bit variable at %s (%s): states stored beyond that offset are decoded from the wrong cells" % (
                        fn.name, reads[0]["f"], wv, wt, fn.loc(pt), WIDE_TABLE_FIELDS[reads[0]["f"]]), {"site": fn.loc(pt)})
            for x in walk(e):
                if x.get("k") == "mem" and x.get("f") in WIDE_TABLE_FIELDS:
                    n += 1
    ctx.floor("reads of the small-table offset map", n, 2)
    for name in ("ts_language_lookup", "ts_language_lookaheads"):
        fn = F.fns.get(name)
        if fn:
            ok = not any(k.startswith("%s:narrows-" % name) for k in [v["key"] for v in ctx.violations])
            if ok:
                ctx.ok("L2", "%s:offset-at-full-width" % name, "%s reads the state's table offset without narrowing" % name)


def rule_node_types(ctx):
    """M1–M4 (rustc MIR of tree-sitter-generate, node_types.rs): when several rules contribute to one
    node kind, or several alternatives to one child slot, the published claims only ever get weaker —
    `required` is and-ed or cleared, `multiple` is or-ed or set — and every contributing rule is merged
    into both the fields and the un-fielded children of the kind."""
    import rsrules
    from rsrules import calls_named, find_fn, inline_text, text_gate, deep_text
    ctx.config = "rust"
    F = ctx.extract.rsfacts("tree_sitter_generate")
    ctx.analysed["rust_functions"] = len(F.fn_list)
    # M1: stores to FieldInfoJSON.required / .multiple
    n = 0
    for fn in F.fn_list:
        if "node_types::" not in fn.name or fn.name.endswith("::default"):
            continue
        for pt, e in fn.points():
            for x in own_walk(e):
                if x.get("k") == "assign" and strip(x["l"]).get("k") == "mem" and (strip(x["l"]).get("rec") or "").endswith("FieldInfoJSON") and strip(x["l"]).get("f") in ("required", "multiple"):
                    f = strip(x["l"])["f"]
                    lt, rt = inline_text(fn, x["l"]), inline_text(fn, x["r"])
                    r = strip(x["r"])
                    n += 1
                    if f == "required":
                        ok = (r.get("k") == "int" and not r.get("v")) or (rt.startswith("(" + lt + " & ") or rt.endswith(" & " + lt + ")"))
                        want = "cleared or and-ed with its previous value"
                    else:
                        ok = (r.get("k") == "int" and r.get("v") == 1) or (rt.startswith("(" + lt + " | ") or rt.endswith(" | " + lt + ")"))
                        want = "set or or-ed with its previous value"
                    key = "%s:%s-only-weakens#%s" % (fn.name.split("node_types::")[-1], f, fn.loc(pt).split(":")[-1] if False else str(n))
                    if ok:
                        ctx.ok("M1", key, "FieldInfoJSON.%s is %s (%s)" % (f, want, fn.loc(pt)), nontrivial=False)
                    else:
                        ctx.bad("M1", "%s:%s-only-weakens" % (fn.name.split("node_types::")[-1], f), "%s stores `%s` into FieldInfoJSON.%s at %s: merged node-type claims may only get weaker (%s), otherwise a kind produced by several rules is described by the strongest of them" % (
                            fn.name, rt[:60], f, fn.loc(pt), want), {"site": fn.loc(pt)})
    ctx.floor("stores to FieldInfoJSON.required/multiple", n, 7)
    # M2: each contributing rule is merged into the kind's un-fielded children
    fn = find_fn(ctx, F, "node_types::build_regular_entries", "M2")
    if fn:
        trig = [pt for pt, c, d in calls_named(fn, "Entry", "or_insert_with") if "NodeInfoJSON" in ((c.get("targs") or "") + (c.get("fn") or "") + str(strip(d).get("t") if d else ""))] or \
               [pt for pt, c, d in calls_named(fn, "BTreeMap", "::entry")][:1]
        pops = [(pt, c) for pt, c, d in calls_named(fn, "populate_field_info_json")]
        ch = [pt for pt, c in pops if "children" in deep_text(fn, c["a"][0], user=False)]
        fl = [pt for pt, c in pops if pt not in ch]
        ctx.floor("populate_field_info_json calls in build_regular_entries", len(pops), 2)
        if trig and ch:
            ctx.after("M2", "build_regular_entries:children-merged-for-every-rule", fn, trig, ch,
                      "every rule that contributes to a node kind is merged into the kind's un-fielded children (so a rule without such children clears `required`)", retrigger_is_stop=True)
        else:
            ctx.bad("M2", "build_regular_entries:children-merged-for-every-rule", "build_regular_entries no longer merges each rule's children_without_fields into the node kind")
        clr = [pt for pt, e in fn.points() for x in own_walk(e) if x.get("k") == "assign" and strip(x["l"]).get("k") == "mem" and strip(x["l"]).get("f") == "required" and strip(x["r"]).get("k") == "int" and not strip(x["r"]).get("v")]
        text_gate(ctx, "M2", fn, clr, [("a field the current rule lacks stops being required", [(("contains_key",), False)])], accept_desc="clearing `required` of an existing field")
    # M3: populate_field_info_json and the quantity lattice
    fn = find_fn(ctx, F, "node_types::populate_field_info_json", "M3")
    if fn:
        clr = [pt for pt, e in fn.points() for x in own_walk(e) if x.get("k") == "assign" and strip(x["l"]).get("k") == "mem" and strip(x["l"]).get("f") == "required" and strip(x["r"]).get("k") == "int"]
        text_gate(ctx, "M3", fn, clr, [("an empty contribution clears `required`", [(("is_empty",), True)])], accept_desc="clearing `required`")
        ext = [pt for pt, c, d in calls_named(fn, "extend")]
        ctx.floor("type-set extensions in populate_field_info_json", len(ext), 1)
    for name, stores in (("ChildQuantity::union", [("required", 0, ("other.required",), False), ("multiple", 1, ("other.multiple",), True), ("exists", 1, ("other.exists",), True)]),
                         ("ChildQuantity::append", [("required", 1, ("other.required",), True), ("multiple", 1, ("other.exists",), True), ("exists", 1, ("other.exists",), True)])):
        fn = find_fn(ctx, F, "node_types::" + name, "M3")
        if not fn:
            continue
        oname = fn.params[1]["name"] if len(fn.params) > 1 else "other"
        for f, val, needles, want in stores:
            needles = tuple(n.replace("other", oname) for n in needles)
            sts = [(pt, strip(x["r"])) for pt, e in fn.points() for x in own_walk(e) if x.get("k") == "assign" and strip(x["l"]).get("k") == "mem" and strip(x["l"]).get("f") == f and strip(x["r"]).get("k") == "int"]
            wrong = [pt for pt, r in sts if bool(r.get("v")) != bool(val)]
            if wrong:
                ctx.bad("M3", "%s:%s-direction" % (name, f), "%s sets `%s` to %s at %s; in this operation it may only become %s" % (name, f, not val, fn.loc(wrong[0]), bool(val)))
            elif sts:
                text_gate(ctx, "M3", fn, [pt for pt, r in sts], [("%s: `%s` becomes %s only because of the other operand" % (name.split("::")[-1], f, bool(val)), [(needles, want)])], accept_desc="changing `%s`" % f)
            else:
                ctx.bad("M3", "%s:%s-updated" % (name, f), "%s no longer updates `%s`" % (name, f))
    # M5: what a field inherits from a hidden child — the type set and the quantity come from the same summary
    fn = find_fn(ctx, F, "node_types::compute_variable_info_fixed_point", "M5")
    if fn:
        import re as _re
        inh_types = [(pt, _re.findall(r"\)\.(children(?:_without_fields)?)\)\.types", deep_text(fn, c["a"][1], user=False))) for pt, c, d in calls_named(fn, "extend_sorted")
                     if "field_info" in deep_text(fn, c["a"][0], user=False)]
        inh_types = [(pt, k[0]) for pt, k in inh_types if k]
        inh_q = [(pt, _re.findall(r"\)\.(children(?:_without_fields)?)\)\.quantity", deep_text(fn, c["a"][1], user=False))) for pt, c, d in calls_named(fn, "ChildQuantity::append")
                 if "field_quantit" in deep_text(fn, c["a"][0], user=False)]
        inh_q = [(pt, k[0]) for pt, k in inh_q if k]
        if not inh_types or not inh_q:
            ctx.bad("M5", "compute_variable_info:field-inherits-hidden-child", "compute_variable_info_fixed_point no longer lets a field over a hidden rule inherit that rule's child types and quantity "
                    "(found %d type and %d quantity inheritance(s))" % (len(inh_types), len(inh_q)))
        else:
            kinds_t, kinds_q = {k for _, k in inh_types}, {k for _, k in inh_q}
            if kinds_t == kinds_q and len(kinds_t) == 1:
                ctx.ok("M5", "compute_variable_info:field-inherits-hidden-child", "a field over a hidden rule takes both its types and its quantity from the rule's `%s` summary" % next(iter(kinds_t)),
                       sample={"types": fn.loc(inh_types[0][0]), "quantity": fn.loc(inh_q[0][0])})
                ctx.before("M5", "compute_variable_info:quantity-with-types", fn, [pt for pt, _ in inh_q], [pt for pt, _ in inh_types], "the quantity is inherited on the same path as the types")
            else:
                ctx.bad("M5", "compute_variable_info:field-inherits-hidden-child", "a field over a hidden rule takes its types from `%s` but its quantity from `%s` (%s): nodes listed among the field's types are not counted, "
                        "so node-types.json claims `multiple: false` (or `required`) for a field that holds several of them" % (sorted(kinds_t), sorted(kinds_q), fn.loc(inh_q[0][0])))
    # M6: inherited fields are remembered for *every* hidden child that has fields — auxiliary repeat rules included
    F_ = F
    fn = find_fn(ctx, F_, "ParseTableBuilder::add_actions", "M6") or next((f for f in F_.fn_list if f.name.endswith("::add_actions")), None)
    if fn:
        sts = [pt for pt, e in fn.points() for x in own_walk(e) if x.get("k") == "assign" and "has_preceding_inherited_fields" in show(x["l"]) and strip(x["r"]).get("k") == "int" and strip(x["r"]).get("v")]
        key = "add_actions:inherited-fields-also-for-auxiliary-rules"
        if not sts:
            ctx.bad("M6", key, "add_actions no longer sets has_preceding_inherited_fields")
        else:
            text_gate(ctx, "M6", fn, sts, [("an item is marked only for a hidden child…", [(("is_hidden(",), True)]), ("…that has fields", [(("is_empty(", "fields"), False)])], accept_desc="marking the item as having inherited fields")
            reached = {"aux": False}

            class Feas(Monitor):
                def elem(self, m, pt, e, s):
                    if pt in sts and m:
                        reached["aux"] = True
                    return m

                def edge(self, m, bid, edge, cond, truth, s):
                    if cond is not None and truth is not None:
                        txt, t = rsrules.cond_text(fn, cond, truth)
                        if "is_auxiliary(" in txt:
                            return bool(t)
                    return m
            Search(fn, Feas(), budget=3000000).run(False)
            if reached["aux"]:
                ctx.ok("M6", key, "the mark is also reachable for an auxiliary (repeat) rule: `is_hidden()` covers auxiliary variables, whose content may carry field(...)")
            else:
                ctx.bad("M6", key, "has_preceding_inherited_fields is set only when the child is *not* auxiliary: a repeat whose content has field(...) no longer keeps productions apart that differ in where "
                        "it sits, they share one REDUCE, and by-field lookup on the losing production finds nothing although node-types.json calls the field required")
    # A2: replacing a step's alias replaces both halves of it (value and named-ness)
    fn = find_fn(ctx, F, "ProductionStep::set_alias", "A2")
    if fn:
        holder = [fn] + [f for f in F.fn_list if f.name.startswith(fn.name + "::{closure")]
        setn = [pt for pt, c, d in calls_named(fn, "set_alias_named")]
        direct = [pt for pt, e in fn.points() for x in own_walk(e) if x.get("k") == "assign" and "flags" in show(x["l"])]
        if setn or direct:
            ctx.on_all_paths("A2", "set_alias:named-bit-always-rewritten", fn, setn + direct,
                             "ProductionStep::set_alias rewrites the alias-is-named bit on every path (inlining overwrites a step's alias: a named alias replaced by an anonymous one must not stay named, "
                             "or the tree holds a named node that node-types.json lists as anonymous)")
        else:
            ctx.bad("A2", "set_alias:named-bit-always-rewritten", "ProductionStep::set_alias no longer sets the alias-is-named bit")
    # A3: the names a symbol can appear under: a step's own alias takes precedence over the symbol's default alias
    fn = find_fn(ctx, F, "node_types::get_aliases_by_symbol", "A3")
    if fn:
        key = "get_aliases_by_symbol:step-alias-before-default"
        site = [c for pt, c in fn.calls() if (c.get("fn") or "").endswith("::insert") and "BTreeSet" in (c.get("fn") or "") and len(c.get("a") or []) > 1
                and "ProductionStep::alias(" in deep_text(fn, c["a"][1], user=True) and "default_aliases" in deep_text(fn, c["a"][1], user=True)]
        if not site:
            ctx.bad("A3", key, "get_aliases_by_symbol no longer records `step alias, else default alias` for every production step")
        else:
            x, verdict = rsrules.cond_def(fn, site[0]["a"][1]), None
            for _ in range(8):
                x = strip(x)
                if x.get("k") != "call":
                    break
                g = x.get("fn") or ""
                if any(g.endswith(k) for k in ("::or_else", "::or", "::unwrap_or", "::unwrap_or_else", "::map_or", "::map_or_else")) and len(x.get("a") or []) >= 2:
                    first, second = deep_text(fn, x["a"][0], user=True), deep_text(fn, x["a"][1], user=True)
                    verdict = ("ProductionStep::alias(" in first and "default_aliases" not in first and "default_aliases" in second, first, second)
                    break
                if not x.get("a"):
                    break
                x = rsrules.cond_def(fn, x["a"][0])
            if verdict is None:
                ctx.bad("A3", key, "the alias recorded for a step in get_aliases_by_symbol is no longer of the form `step.alias() or-else default alias` (`%s`)" % deep_text(fn, site[0]["a"][1], user=True)[:120])
            elif verdict[0]:
                ctx.ok("A3", key, "the recorded name is the step's own alias and only in its absence the symbol's default alias")
            else:
                ctx.bad("A3", key, "get_aliases_by_symbol prefers `%s` and falls back to `%s`: the default alias now hides a step's explicit alias, so a name under which the symbol appears "
                        "in trees gets no entry in node-types.json" % (verdict[1][:60], verdict[2][:60]))
    # M4: a named token that shares its kind with a rule has no children and no fields that are required
    fn = find_fn(ctx, F, "node_types::build_token_entries", "M4")
    if fn:
        clr = [pt for pt, e in fn.points() for x in own_walk(e) if x.get("k") == "assign" and strip(x["l"]).get("k") == "mem" and strip(x["l"]).get("f") == "required" and strip(x["r"]).get("k") == "int" and not strip(x["r"]).get("v")]
        if len(clr) >= 2:
            ctx.ok("M4", "build_token_entries:token-kind-clears-required", "a token sharing a node kind clears `required` of the kind's children and of every field (%d stores)" % len(clr))
        else:
            ctx.bad("M4", "build_token_entries:token-kind-clears-required", "build_token_entries no longer clears `required` of both the children and the fields of a kind that a token also produces (%d stores)" % len(clr))


def rule_effective_name(ctx):
    """A1 (render.rs): a symbol's public name is its default alias if it has one, else its own name.
    symbols_for_alias decides which existing symbols an alias can reuse, so it must compare the alias
    with the symbol's *own* name only for symbols without a default alias — otherwise an alias reuses a
    symbol whose published name is something else, and node-types.json names a kind no symbol has."""
    import rsrules
    from rsrules import deep_text, calls_named
    F = ctx.extract.rsfacts("tree_sitter_generate")
    fam = [f for f in F.fn_list if f.name.startswith("render::Generator::symbols_for_alias")]
    if not fam:
        ctx.bad("A1", "symbols_for_alias:anchor", "render::Generator::symbols_for_alias not found")
        return
    own = [(f, pt) for f in fam for pt, c, d in calls_named(f, "metadata_for_symbol")]
    ctx.floor("own-name comparisons in symbols_for_alias", len(own), 1)
    # closures handed over as the `no default alias` arm of an Option combinator on default_aliases.get(..)
    none_arms = set()
    for f in fam:
        for pt, e in f.points():
            for x in own_walk(e):
                if x.get("k") == "call" and any((x.get("fn") or "").endswith(m) for m in ("::map_or_else", "::unwrap_or_else", "::or_else", "::is_none_or")) and x.get("a"):
                    recv = deep_text(f, x["a"][0], user=False)
                    if "default_aliases" in recv and "::get(" in recv:
                        arm = rsrules.cond_def(f, x["a"][1]) if len(x["a"]) > 1 else {}
                        if arm.get("k") == "agg" and arm.get("adt") == "closure" and arm.get("def"):
                            none_arms.add(arm["def"])
    for f, pt in own:
        key = "symbols_for_alias:own-name-only-without-default-alias"
        if f.name in none_arms:
            ctx.ok("A1", key, "the own-name comparison sits in the `no default alias` arm of default_aliases.get(symbol)", sample={"function": f.name})
            continue
        srch = Search(f, rsrules.TextGate(f, [pt], [(("default_aliases", "::get(", "=None"), True), (("default_aliases", "is_none"), True), (("default_aliases", "is_some"), False),
                                                    (("default_aliases", "contains_key"), False)], deep=True), budget=500000)
        if srch.run(0) is None:
            ctx.ok("A1", key, "the own-name comparison is guarded by the absence of a default alias", sample={"function": f.name})
        else:
            ctx.bad("A1", key, "%s compares the alias with the symbol's own name at %s even when the symbol has a default alias: an alias then reuses a symbol that is published under another name" % (f.name, f.loc(pt)),
                    {"site": f.loc(pt)})


def run(ctx):
    for cfg in configs(ctx):
        ctx.config = cfg
        F = ctx.extract.cfacts(cfg)
        ctx.analysed["c_functions_" + cfg] = len(F.fn_list)
        rule_names(ctx, F)
        rule_lookahead(ctx, F)
        rule_widths(ctx, F)
    rule_node_types(ctx)
    rule_effective_name(ctx)
    return ctx.finish(
        "Gate rules over language.c / language.h: name look-ups accept only exact matches over the whole id range and return the matching id; id→name reads stay inside the tables; "
        "the look-ahead iterator stops only at the end of a row / group list and skips only empty entries; merged node-type claims only weaken and every contributing rule is merged (rustc MIR of node_types.rs); "
        "aliases reuse symbols by published name only. Does not decide node-types.json conformance as such or superset look-ahead sets.")
