"""C16 — symbol/field names round-trip through their ids and the look-ahead iterator lists every
entry of a state's row: the structural part (added after the design; DESIGN.md §10.8).

Decides on Clang CFGs of lib/src/language.c / language.h:

  N1  name → id look-ups accept a table entry only on an *exact* match: the bounded comparison
      (`strncmp(.., length)`) is always paired with a test that the entry (or literal) ends at
      `length` — otherwise every prefix of an entry resolves to it;
  N2  the look-up loops run over the whole id range (symbols 0..symbol_count, fields 1..=field_count)
      and return the public id / the loop index;
  N3  id → name reads the table only inside its bounds;
  L1  the look-ahead iterator says "done" only at the end of the row (large states) or when no group
      is left (small states), and skips nothing but empty entries.

Does not decide conformance of trees to node-types.json nor that merged states list supersets
(generated data).
"""
from common import *  # noqa: F401,F403


def lit_len(e):
    e = strip(e)
    return len(e.get("v")) if e.get("k") == "str" and isinstance(e.get("v"), str) else None


def rule_names(ctx, F):
    fn = ctx.need_fn(F, "ts_language_symbol_for_name", "N1")
    if fn:
        # every return of something other than 0: must be preceded by a bounded comparison that succeeded and by an end-of-entry test
        rets = [(pt, strip(e["e"])) for pt, e in fn.points() if e.get("k") == "ret" and not (strip(e["e"]).get("k") == "int" and strip(e["e"]).get("v") == 0)]
        ctx.floor("successful returns of ts_language_symbol_for_name", len(rets), 2)
        cmps = [(pt, c) for pt, c in fn.calls() if callee_name(c) == "strncmp"]
        ctx.floor("bounded comparisons in ts_language_symbol_for_name", len(cmps), 2)
        for k, (pt, r) in enumerate(rets):
            what = show(r)[:40]
            # which comparison licenses this return?  the one whose success edge dominates it: find by gate
            ok_any = False
            for cpt, c in cmps:
                a = [strip(x) for x in c["a"]]
                other = [x for x in a[:2] if not (x.get("k") == "ref" and x.get("dk") == "param")]
                lenarg = show(a[2])
                entry = other[0] if other else a[1]
                n = lit_len(entry)
                cmp_pat = "strncmp(%s, %s, %s)" % (show(a[0]), show(a[1]), lenarg)
                s = Search(fn, GateMonitor([pt], [(cmp_pat, False)], None, ()))
                try:
                    licensed = s.run(0) is None
                except Exception:
                    licensed = False
                if not licensed:
                    continue
                ok_any = True
                if n is not None:
                    alts = [("%s == %d" % (lenarg, n), True), ("%s != %d" % (lenarg, n), False)]
                    desc = "the literal \"%s\" is matched only when the name has its length (%d)" % (entry.get("v"), n)
                else:
                    alts = [("%s[%s]" % (show(entry), lenarg), False), ("%s[%s] == 0" % (show(entry), lenarg), True)]
                    desc = "a table entry is matched only if it ends where the name ends"
                ctx.gate("N1", fn, [pt], [(desc, alts)], accept_desc="returning `%s`" % what)
            if not ok_any:
                ctx.bad("N1", "ts_language_symbol_for_name:return#%d-licensed-by-comparison" % k, "ts_language_symbol_for_name returns `%s` at %s without a successful bounded comparison on the path" % (what, fn.loc(pt)))
        # range + returned id
        lp = find(fn, "i < count")
        cd = [d for i in fn.ids_named("count") for d in fn.defs(i) if d is not None]
        if lp and cd and "ts_language_symbol_count" in show(cd[0]):
            ctx.ok("N2", "ts_language_symbol_for_name:whole-range", "the loop runs over every symbol id below ts_language_symbol_count")
        else:
            ctx.bad("N2", "ts_language_symbol_for_name:whole-range", "ts_language_symbol_for_name no longer loops `i < count` with count = ts_language_symbol_count(self)")
        if any(M(fn).match("self->public_symbol_map[i]", r) for pt, r in rets):
            ctx.ok("N2", "ts_language_symbol_for_name:returns-public-id", "a match returns the public symbol of the matching index")
        else:
            ctx.bad("N2", "ts_language_symbol_for_name:returns-public-id", "ts_language_symbol_for_name no longer returns self->public_symbol_map[i] for the matching index")
    fn = ctx.need_fn(F, "ts_language_field_id_for_name", "N1")
    if fn:
        rets = [pt for pt, e in fn.points() if e.get("k") == "ret" and strip(e["e"]).get("k") == "ref"]
        ctx.floor("successful returns of ts_language_field_id_for_name", len(rets), 1)
        ctx.gate("N1", fn, rets, [("a field name is matched only if it ends where the name ends", [("self->field_names[i][name_length] == 0", True), ("self->field_names[i][name_length]", False)])],
                 accept_desc="returning a field id")
        cmps = [pt for pt, c in fn.calls() if callee_name(c) == "strncmp"]
        ctx.before("N1", "ts_language_field_id_for_name:compared-first", fn, rets, cmps, "a field id is returned only after the bounded comparison")
        lp = find(fn, "i < count + 1")
        cd = [d for i in fn.ids_named("count") for d in fn.defs(i) if d is not None]
        iv = [d for i in fn.ids_named("i") for d in fn.defs(i) if d is not None and strip(d).get("k") == "int"]
        if lp and cd and "ts_language_field_count" in show(cd[0]) and iv and strip(iv[0]).get("v") == 1:
            ctx.ok("N2", "ts_language_field_id_for_name:whole-range", "the loop runs over field ids 1..=field_count")
        else:
            ctx.bad("N2", "ts_language_field_id_for_name:whole-range", "ts_language_field_id_for_name no longer loops over 1..=ts_language_field_count(self)")
    fn = ctx.need_fn(F, "ts_language_symbol_name", "N3")
    if fn:
        acc = [pt for pt, e in fn.points() if e.get("k") == "ret" and strip(e["e"]).get("k") == "idx"]
        ctx.gate("N3", fn, acc, [("the name table is read only below symbol_count", "symbol < ts_language_symbol_count(self)", True)], accept_desc="reading symbol_names[symbol]")
    fn = ctx.need_fn(F, "ts_language_field_name_for_id", "N3")
    if fn:
        acc = [pt for pt, e in fn.points() if e.get("k") == "ret" and strip(e["e"]).get("k") == "idx"]
        ctx.gate("N3", fn, acc, [("the field-name table is read only up to field_count", "id <= count", True), ("…and only if the language has fields", "count", True)], accept_desc="reading field_names[id]")


def rule_lookahead(ctx, F):
    fn = ctx.need_fn(F, "ts_lookahead_iterator__next", "L1")
    if not fn:
        return
    done = [pt for pt, n in find(fn, "self->phase = LookaheadDone")]
    ctx.floor("`done` transitions of the look-ahead iterator", len(done), 2)
    ctx.gate("L1", fn, done, [("the iterator is done only at the end of the row or when no group is left",
                               [("symbol >= self->language->symbol_count", True), ("self->group_count == 0", True)])], accept_desc="declaring the iteration done")
    small_done = [pt for pt in done]
    ctx.gate("L1", fn, done, [("…and, for small states, only when the current group is exhausted", [("self->data == self->group_end", True), ("self->is_small_state", False)])],
             accept_desc="declaring the iteration done")
    from C06 import incs
    skips = incs(fn, "symbol")
    ctx.floor("skips in the large-state scan", len(skips), 1)
    ctx.gate("L1", fn, skips, [("only empty entries are skipped", "row[symbol]", False), ("…inside the row", "symbol < self->language->symbol_count", True)], accept_desc="skipping a symbol")
    for name in ("ts_lookahead_iterator_new", "ts_lookahead_iterator_reset_state", "ts_lookahead_iterator_reset"):
        g = ctx.need_fn(F, name, "L1")
        if g:
            acc = [pt for pt, c in g.calls() if callee_name(c) == "ts_language_lookaheads"]
            pat = {"ts_lookahead_iterator_new": "state >= self->state_count", "ts_lookahead_iterator_reset_state": "state >= iterator->language->state_count",
                   "ts_lookahead_iterator_reset": "state >= language->state_count"}[name]
            ctx.gate("L1", g, acc, [("a row is looked up only for an existing state", pat, False)], accept_desc="positioning the iterator")


def run(ctx):
    for cfg in configs(ctx):
        ctx.config = cfg
        F = ctx.extract.cfacts(cfg)
        ctx.analysed["c_functions_" + cfg] = len(F.fn_list)
        rule_names(ctx, F)
        rule_lookahead(ctx, F)
    return ctx.finish(
        "Gate rules over language.c / language.h: name look-ups accept only exact matches over the whole id range and return the matching id; id→name reads stay inside the tables; "
        "the look-ahead iterator stops only at the end of a row / group list and skips only empty entries. Does not decide node-types.json conformance or superset look-ahead sets.")
