"""C07 — no memory-unsafe behaviour, assertion or leak: bounded writes, allocator and ownership
discipline (DESIGN.md §4 C07).  "Discipline, not safety": decides that every write into a
constant-size array has its own bound witness, that only alloc.c touches libc's allocator, and that
each handle's delete function releases every owning field.  Does not decide absence of
out-of-bounds reads through computed pointers, use-after-free across call histories or general
retain/release balance.
"""
from common import *  # noqa: F401,F403
from cstores import stores, writes_record, lvalue_chain


# ------------------------------------------------------------------------------------------------
# B1: bounded writes
# ------------------------------------------------------------------------------------------------
def array_target(fn, l):
    """(array description, bound, index expr) if lvalue l stores into a constant-size array, either
    directly or through a local pointer whose only definition is such an array."""
    x = strip(l)
    while True:
        k = x.get("k")
        if k == "idx":
            if x.get("bound"):
                return show(x["b"]), x["bound"], x["i"]
            b = strip(x["b"])
            if b.get("k") == "ref" and b.get("dk") == "local":
                d = fn.single_def(b["id"])
                if d is not None:
                    d = strip(d)
                    bound = array_bound_of(d)
                    if bound:
                        return show(d), bound, x["i"]
            x = b
        elif k == "mem":
            x = strip(x["b"])
        elif k == "un" and x["op"] == "*":
            x = strip(x["e"])
        else:
            return None


def array_bound_of(e):
    """Declared bound when e denotes a whole constant-size array (decays to pointer)."""
    e = strip(e)
    t = e.get("t") or ""
    import re
    m = re.search(r"\[(\d+)\]$", t)
    if e.get("k") in ("mem", "ref") and m:
        return int(m.group(1))
    return None


def index_base(i):
    i = strip(i)
    if i.get("k") == "un" and i["op"] in ("post++", "post--", "pre++", "pre--"):
        return strip(i["e"]), i["op"]
    return i, None


UNK = -1
CAP = 1 << 20


def cmp_bound(atom, truth, idx_txt):
    """Upper bound on `idx` implied by taking `truth` on comparison `atom`, or None.
    `idx == K` being false yields K-1 only under the monotone-counter assumption (DESIGN §3.6 (c))."""
    a = strip(atom)
    if a.get("k") != "bin" or a["op"] not in ("<", "<=", ">", ">=", "==", "!="):
        return None
    flip = {"<": ">", "<=": ">=", ">": "<", ">=": "<=", "==": "==", "!=": "!="}
    neg = {"<": ">=", "<=": ">", ">": "<=", ">=": "<", "==": "!=", "!=": "=="}
    for x, y, op in ((a["l"], a["r"], a["op"]), (a["r"], a["l"], flip[a["op"]])):
        ys = strip(y)
        if ys.get("k") != "int" or not isinstance(ys.get("v"), int):
            continue
        K = ys["v"]
        xs = show(strip(x))
        if xs == idx_txt:
            off = 0
        elif xs == idx_txt + " + 1":
            off = 1
        else:
            continue
        if not truth:
            op = neg[op]
        if op == "<":
            return K - 1 - off
        if op == "<=":
            return K - off
        if op == "==":
            return K - off
        if op == "!=":
            return K - 1 - off      # monotone counter tested against its limit
        return None
    return None


class BoundMonitor(Monitor):
    """Interval (upper-bound) tracking for one index lvalue `idx`: m = known upper bound or UNK.
    Tests on idx refine it, increments shift it, other modifications forget it.  A store point
    (pt -> (offset, limit)) requires  ub + offset <= limit."""

    def __init__(self, needs, idx_txt):
        self.needs = needs          # {pt: (offset, limit, description)}
        self.idx_txt = idx_txt
        self.cap = max(l for o, l, w in needs.values()) + 4   # beyond this every need fails anyway

    def elem(self, m, pt, e, s):
        need = self.needs.get(pt)
        # order inside one element: the index value used by `a[i++] = v` is the one before the increment
        if need is not None:
            off, limit, what = need
            if m == UNK or m + off > limit:
                return Viol("%s: no upper bound on `%s` (known: %s, needed: <= %d)" % (what, self.idx_txt, "none" if m == UNK else m, limit - off), pt)
        for n in own_walk(e):
            k = n.get("k")
            if k == "un" and n["op"] in ("post++", "pre++") and show(strip(n["e"])) == self.idx_txt:
                m = UNK if m == UNK else min(m + 1, self.cap)
            elif k == "un" and n["op"] in ("post--", "pre--") and show(strip(n["e"])) == self.idx_txt:
                pass
            elif k in ("assign", "decl"):
                tgt = show(strip(n["l"])) if k == "assign" else n["name"]
                if tgt != self.idx_txt:
                    continue
                r = strip(n["r"] if k == "assign" else (n.get("init") or {}))
                opk = n["op"] if k == "assign" else "="
                if opk == "=" and r.get("k") == "int" and isinstance(r.get("v"), int):
                    m = min(r["v"], self.cap) if r["v"] >= 0 else UNK
                elif opk == "+=" and r.get("k") == "int" and isinstance(r.get("v"), int) and m != UNK:
                    m = min(m + r["v"], self.cap)
                elif opk == "=" and r.get("k") == "call" and r.get("fn") == "snprintf" and len(r.get("a", [])) == 3 and strip(r["a"][2]).get("k") == "str" and "%" not in strip(r["a"][2])["v"]:
                    m = len(strip(r["a"][2])["v"])      # snprintf of a plain literal returns its length
                else:
                    m = UNK
        return m

    def edge(self, m, bid, edge, cond, truth, s):
        if cond is not None and truth is not None:
            a, t = s.m.atom(cond, truth)
            b = cmp_bound(a, t, self.idx_txt)
            if b is not None:
                b = min(b, self.cap)
                if b < 0:
                    return m
                return b if m == UNK else min(m, b)
        return m


def has_test(fn, idx_txt):
    m = M(fn)
    for bid in fn.blocks:
        c = fn.cond(bid)
        if c is not None:
            a, t = m.atom(c, True)
            if cmp_bound(a, True, idx_txt) is not None or cmp_bound(a, False, idx_txt) is not None:
                return True
    return False


def rule_b1(ctx, F):
    n_sites = 0
    for fn in F.fn_list:
        per_fn = {}
        for pt, n, l, op in stores(fn):
            tgt = array_target(fn, l)
            if not tgt:
                continue
            arr, bound, idx = tgt
            n_sites += 1
            base, incop = index_base(idx)
            o = per_fn.get(arr, 0)
            per_fn[arr] = o + 1
            key = "%s:%s#%d" % (fn.name, arr.replace(" ", ""), o)
            site = {"function": fn.name, "site": fn.loc(pt), "array": arr, "bound": bound, "index": show(idx), "macro": fn.macro(pt)}
            if base.get("k") == "int":
                if 0 <= base["v"] < bound:
                    ctx.ok("B1", key, "constant index %d < %d" % (base["v"], bound), sample=site)
                else:
                    ctx.bad("B1", key, "%s: constant index %d outside %s[%d] at %s" % (fn.name, base["v"], arr, bound, fn.loc(pt)), site)
                continue
            it = show(base)
            off = 0
            if base.get("k") == "bin" and base["op"] == "+" and strip(base["r"]).get("k") == "int":
                it, off = show(strip(base["l"])), strip(base["r"])["v"]
            if not has_test(fn, it):
                ctx.bad("B1", key, "%s: store `%s` into %s[%d] at %s has no bound test on `%s` anywhere in the function" % (fn.name, show(n)[:60], arr, bound, fn.loc(pt), it), site)
                continue
            s = Search(fn, BoundMonitor({pt: (off, bound - 1, "store")}, it), track=False)
            v = s.run(UNK)
            if v is None:
                ctx.ok("B1", key, "`%s`%s <= %d on every path to the store (interval tracking over tests and increments, %d states)" % (it, " + %d" % off if off else "", bound - 1, s.states), sample=site)
            else:
                site["path"] = s.render_path(v.path)[-8:]
                ctx.bad("B1", key, "%s: store `%s` into %s[%d] at %s is not covered by a bound on `%s` (%s)" % (fn.name, show(n)[:60], arr, bound, fn.loc(pt), it, v.msg), site)
    ctx.floor("stores into constant-size arrays", n_sites, 20)
    # size-carrying library calls whose destination is a constant-size array
    n_calls = 0
    for fn in F.fn_list:
        k = 0
        for pt, c in fn.calls():
            name = c.get("fn")
            if name not in ("memcpy", "memmove", "memset", "snprintf", "vsnprintf", "sprintf", "strcpy", "strcat", "strncpy"):
                continue
            dest = strip(c["a"][0])
            off_txt = None
            if dest.get("k") == "bin" and dest["op"] == "+":
                off_txt = show(strip(dest["r"]))
                dest = strip(dest["l"])
            bound = array_bound_of(dest)
            if not bound and dest.get("k") == "ref" and dest.get("dk") == "local":
                d = fn.single_def(dest["id"])
                bound = array_bound_of(d) if d is not None else None
                if bound:
                    dest = strip(d)
            if not bound:
                continue
            n_calls += 1
            key = "%s:%s:%s#%d" % (fn.name, name, show(dest).replace(" ", ""), k)
            k += 1
            site = {"function": fn.name, "site": fn.loc(pt), "call": show(c)[:120], "bound": bound, "macro": fn.macro(pt)}
            if name in ("sprintf", "strcpy", "strcat"):
                ctx.bad("B1", key, "%s: unbounded %s into %s[%d] at %s" % (fn.name, name, show(dest), bound, fn.loc(pt)), site)
                continue
            size = strip(c["a"][1] if name in ("snprintf", "vsnprintf") else c["a"][2])
            if off_txt is None and size.get("k") == "int" and size.get("v") is not None and size["v"] <= bound:
                ctx.ok("B1", key, "size argument %d <= declared bound %d" % (size["v"], bound), sample=site if k < 3 else None)
                continue
            if off_txt is not None:
                # dest + off with size B - off: needs off <= B on every path (else the size wraps)
                okshape = size.get("k") == "bin" and size["op"] == "-" and strip(size["l"]).get("v") == bound and show(strip(size["r"])) == off_txt
                if okshape:
                    s = Search(fn, BoundMonitor({pt: (0, bound, name)}, off_txt), track=False)
                    if s.run(UNK) is None:
                        ctx.ok("B1", key, "offset `%s` <= %d on every path and the size argument is %d - %s" % (off_txt, bound, bound, off_txt), sample=site)
                        continue
                ctx.bad("B1", key, "%s: %s writes at `%s + %s` with size `%s`, but `%s` is not bounded by %d on every path (it can exceed the buffer, making the size wrap)" % (
                    fn.name, name, show(dest), off_txt, show(size), off_txt, bound), site)
                continue
            st = show(size)
            if has_test(fn, st):
                s = Search(fn, BoundMonitor({pt: (0, bound, name)}, st), track=False)
                if s.run(UNK) is None:
                    ctx.ok("B1", key, "size `%s` <= %d on every path" % (st, bound), sample=site)
                    continue
            ctx.bad("B1", key, "%s: %s into %s[%d] with size `%s` that is not bounded on every path (%s)" % (fn.name, name, show(dest), bound, st, fn.loc(pt)), site)
    ctx.floor("size-carrying calls into constant-size arrays", n_calls, 40)
    # field counters used as indices elsewhere (AnalysisState.depth)
    for fn in F.fn_list:
        for pt, n, l, op in stores(fn):
            if op == "++" and writes_record(l, "AnalysisState") == "depth":
                it = show(strip(l))
                key = "%s:%s++" % (fn.name, it)
                # after the increment, depth - 1 indexes stack[8]: need depth <= 7 before the increment
                s = Search(fn, BoundMonitor({pt: (0, 7, "increment")}, it), track=False)
                v = s.run(UNK)
                if v is None:
                    ctx.ok("B1", key, "increment of the analysis stack depth only when depth <= 7", sample={"function": fn.name, "site": fn.loc(pt)})
                else:
                    ctx.bad("B1", key, "%s: `%s++` at %s is not guarded by a test against MAX_ANALYSIS_STATE_DEPTH (%s)" % (fn.name, it, fn.loc(pt), v.msg))


# ------------------------------------------------------------------------------------------------
# B2: stale interior pointers — a pointer into a growable array is not used after the array may
#     have been reallocated
# ------------------------------------------------------------------------------------------------
GROW_FNS = ("_array__grow", "_array__reserve", "_array__splice", "_array__assign")


def array_key(e):
    """Name of the array (struct field or local) whose `contents` the expression refers to."""
    for n in walk(e):
        if n.get("k") == "mem" and n["f"] == "contents":
            b = strip(n["b"])
            while b.get("k") == "un" and b["op"] in ("&", "*"):
                b = strip(b["e"])
            if b.get("k") == "mem":
                return b["f"]
            if b.get("k") == "ref":
                return b["name"]
    return None


def interior_key(e, getters):
    """If e evaluates to a pointer into a growable array, the array's key."""
    e = strip(e)
    k = e.get("k")
    if k == "bin" and e["op"] == ",":
        return interior_key(e["r"], getters)
    if k == "cond":
        return interior_key(e["t"], getters) or interior_key(e["e"], getters)
    if k == "un" and e["op"] == "&":
        x = strip(e["e"])
        if x.get("k") == "idx":
            return array_key(x["b"])
        return None
    if k == "call" and e.get("fn") in getters:
        return getters[e["fn"]]
    return None


def grow_summaries(F):
    direct = {}
    for fn in F.fn_list:
        ks = set()
        for pt, c in fn.calls():
            if c.get("fn") in GROW_FNS and c.get("a"):
                key = array_key(c["a"][0]) or (array_key(c["a"][1]) if len(c["a"]) > 1 else None)
                if key:
                    ks.add(key)
        direct[fn.name] = ks
    grows = {k: set(v) for k, v in direct.items()}
    changed = True
    while changed:
        changed = False
        for fn in F.fn_list:
            for c in F.callees(fn):
                if c in grows and not grows[c] <= grows[fn.name]:
                    grows[fn.name] |= grows[c]
                    changed = True
    return grows


def interior_getters(F):
    g = {}
    for fn in F.fn_list:
        if not (fn.ret or "").rstrip().endswith("*"):
            continue
        keys = set()
        for pt, e in fn.points():
            if e.get("k") == "ret" and e.get("e") is not None:
                k = interior_key(e["e"], {})
                if k is None:
                    r = strip(e["e"])
                    if r.get("k") == "ref" and r.get("dk") == "local":
                        d = fn.single_def(r["id"])
                        k = interior_key(d, {}) if d is not None else None
                if k:
                    keys.add(k)
        if len(keys) == 1:
            g[fn.name] = keys.pop()
    return g


class StaleMonitor(Monitor):
    """m: 0 = pointer not (re)defined yet, 1 = live, 2 = the array may have been reallocated."""

    def __init__(self, fn, vid, key, grows, defs_pts, facts=None):
        self.fn, self.vid, self.key, self.grows, self.defs = fn, vid, key, grows, defs_pts
        self.facts = facts

    def writes_back(self, callee, argi):
        """Does `callee` store through its parameter #argi (`*param = …`)?"""
        g = self.facts.fn(callee) if self.facts else None
        if g is None or argi >= len(g.params):
            return False
        pid = g.params[argi]["id"]
        for pt, e in g.points():
            for n in own_walk(e):
                if n.get("k") == "assign":
                    l = strip(n["l"])
                    if l.get("k") == "un" and l["op"] == "*" and strip(l["e"]).get("k") == "ref" and strip(l["e"])["id"] == pid:
                        return True
        return False

    def elem(self, m, pt, e, s):
        used = False
        redefined = pt in self.defs
        for n in own_walk(e):
            k = n.get("k")
            if k == "ref" and n.get("id") == self.vid:
                used = True
            if m == 1 and k == "call":
                nm = callee_name(n)
                if nm in GROW_FNS and n.get("a") and (array_key(n["a"][0]) == self.key):
                    m = 2
                elif nm in self.grows and self.key in self.grows[nm] and nm not in GROW_FNS:
                    # idiom: the callee is handed `&p` and stores the re-fetched pointer through it
                    refreshed = False
                    for i, a in enumerate(n.get("a", [])):
                        a = strip(a)
                        if a.get("k") == "un" and a["op"] == "&" and strip(a["e"]).get("k") == "ref" and strip(a["e"])["id"] == self.vid and self.writes_back(nm, i):
                            refreshed = True
                    m = 1 if refreshed else 2
        if redefined:
            return 1
        if used and m == 2:
            return Viol("pointer into `%s` is used after a call that may reallocate the array" % self.key, pt)
        return m


def rule_b2(ctx, F):
    grows = grow_summaries(F)
    getters = interior_getters(F)
    ctx.analysed["interior_pointer_getters"] = sorted(getters)
    n = 0
    for fn in F.fn_list:
        if not fn.file.startswith("lib/src") or fn.name in GROW_FNS:
            continue
        fn.defs(0)
        for vid, nm in list(fn._names.items()):
            ds = fn.defs(vid)
            keys = {interior_key(d, getters) for d in ds if isinstance(d, dict) and d.get("k") not in ("uninit", "param")}
            keys.discard(None)
            if len(keys) != 1:
                continue
            key = keys.pop()
            if not any(key in grows.get(c, ()) for c in F.callees(fn)) and not any(c.get("fn") in GROW_FNS and c.get("a") and array_key(c["a"][0]) == key for _, c in fn.calls()):
                continue      # nothing in this function can grow that array
            n += 1
            dpts = set()
            for pt, e in fn.points():
                for x in own_walk(e):
                    if (x.get("k") == "decl" and x.get("id") == vid and x.get("init") is not None) or \
                       (x.get("k") == "assign" and strip(x["l"]).get("k") == "ref" and strip(x["l"])["id"] == vid):
                        dpts.add(pt)
            s = Search(fn, StaleMonitor(fn, vid, key, grows, dpts, F), track=False)
            v = s.run(0)
            kkey = "%s:%s->%s" % (fn.name, nm, key)
            if v is None:
                ctx.ok("B2", kkey, "`%s` (pointer into `%s`) is never used after a call that may grow `%s` without being re-fetched" % (nm, key, key),
                       sample={"function": fn.name, "pointer": nm, "array": key} if n <= 4 else None)
            else:
                ctx.bad("B2", kkey, "%s: `%s` points into the growable array `%s` and is used at %s after a call that may reallocate it (use-after-free when the push hits the capacity)" % (
                    fn.name, nm, key, fn.loc(v.pt)), {"function": fn.name, "site": fn.loc(v.pt), "path": s.render_path(v.path)[-6:]})
    ctx.floor("interior pointers that live across a possible reallocation", n, 5)


# ------------------------------------------------------------------------------------------------
# B3: no use of a handle after this function gave its reference away
# ------------------------------------------------------------------------------------------------
# by-hand exemptions of B3, one reason each (exact function; the use must sit inside a LOG macro)
B3_TABLED = {"ts_parser__breakdown_top_of_stack":
             "only the LOG line reads parent's symbol after the release; a node being broken down was reused from the old tree, which the parser keeps retained until ts_parser_reset"}
RELEASERS = {"ts_subtree_release": 1, "ts_current_free": 0, "ts_subtree_array_delete": 1, "ts_stack_delete": 0, "ts_tree_delete": 0, "ts_language_delete": 0}


from flow import cond_cases


class UseAfterRelease(Monitor):
    """m: 0 = live, 1 = this variable's reference was released/freed on this path."""

    def __init__(self, fn, vid, rel_pts, def_pts, cond_rel=None):
        self.fn, self.vid, self.rel, self.defs = fn, vid, rel_pts, def_pts
        self.cond_rel = cond_rel or {}      # callee -> (argument index, return truthiness on which *arg was released)

    def edge(self, m, bid, edge, cond, truth, s):
        if cond is None or truth is None or not self.cond_rel:
            return m
        for case in cond_cases(cond, truth):
            for ex, tr in case:
                c = strip(ex)
                if c.get("k") == "call" and callee_name(c) in self.cond_rel:
                    idx, when = self.cond_rel[callee_name(c)]
                    a = strip(c["a"][idx]) if idx < len(c.get("a", [])) else {}
                    if a.get("k") == "un" and a.get("op") == "&" and strip(a["e"]).get("k") == "ref" and strip(a["e"]).get("id") == self.vid and tr == when:
                        return 1
        return m

    def elem(self, m, pt, e, s):
        if pt in self.defs:
            return 0
        used = any(n.get("k") == "ref" and n.get("id") == self.vid for n in own_walk(e))
        if pt in self.rel:
            if m == 1 and used:
                return Viol("released twice on one path", pt)
            return 1
        if m == 1 and used:
            return Viol("used after its reference was released", pt)
        return m


def conditional_releasers(F):
    """Functions that release what a pointer parameter points at, on the way to one kind of return only:
    {name: (parameter index, truthiness of the return value on which `*param` may have been released)}."""
    from flow import reachable_blocks
    out = {}
    for fn in F.fn_list:
        if not fn.file.startswith("lib/src") or not fn.blocks:
            continue
        pidx = {p["id"]: i for i, p in enumerate(fn.params)}
        for pt, c in fn.calls():
            if callee_name(c) != "ts_subtree_release" or len(c.get("a", [])) < 2:
                continue
            a = strip(c["a"][1])
            if not (a.get("k") == "un" and a.get("op") == "*" and strip(a["e"]).get("k") == "ref" and strip(a["e"]).get("id") in pidx):
                continue
            after = reachable_blocks(fn, pt[0])
            truths = set()
            for rp, e in fn.points():
                if e.get("k") == "ret" and e.get("e") is not None and rp[0] in after:
                    r = strip(e["e"])
                    truths.add(bool(r.get("v")) if r.get("k") == "int" else None)
            if len(truths) == 1 and None not in truths:
                out[fn.name] = (pidx[strip(a["e"])["id"]], truths.pop())
    return out


def rule_b3(ctx, F):
    n = 0
    cond_rel = conditional_releasers(F)
    ctx.analysed["conditional_releasers"] = sorted("%s(arg %d) when it returns %s" % (k, v[0], "true" if v[1] else "false") for k, v in cond_rel.items())
    ctx.floor("functions that release *param on one kind of return (ts_parser__check_progress)", len(cond_rel), 1)
    for fn in F.fn_list:
        if not fn.file.startswith("lib/src"):
            continue
        cand = {}
        for pt, c in fn.calls():
            nm = callee_name(c)
            if nm in cond_rel and cond_rel[nm][0] < len(c.get("a", [])):
                a = strip(c["a"][cond_rel[nm][0]])
                if a.get("k") == "un" and a.get("op") == "&" and strip(a["e"]).get("k") == "ref" and strip(a["e"]).get("dk") in ("local", "param"):
                    cand.setdefault((strip(a["e"])["id"], strip(a["e"])["name"]), set())
        for pt, c in fn.calls():
            nm = callee_name(c)
            if nm in RELEASERS and len(c.get("a", [])) > RELEASERS[nm]:
                a = strip(c["a"][RELEASERS[nm]])
                if a.get("k") == "ref" and a.get("dk") in ("local", "param"):
                    cand.setdefault((a["id"], a["name"]), set()).add(pt)
        for (vid, nm), rel in cand.items():
            dpts = set()
            for pt, e in fn.points():
                for x in own_walk(e):
                    if (x.get("k") == "decl" and x.get("id") == vid) or (x.get("k") == "assign" and strip(x["l"]).get("k") == "ref" and strip(x["l"])["id"] == vid):
                        if pt not in rel:
                            dpts.add(pt)
            n += 1
            s = Search(fn, UseAfterRelease(fn, vid, rel, dpts, cond_rel), track=True)
            v = s.run(0)
            key = "%s:%s" % (fn.name, nm)
            if v is not None and fn.name in B3_TABLED and set(fn.macro(v.pt)) & {"LOG", "TREE_NAME", "SYM_NAME"}:
                ctx.ok("B3", key, "tabled: " + B3_TABLED[fn.name], nontrivial=False)
                continue
            if v is None:
                ctx.ok("B3", key, "`%s` is not touched again on any path after %s gave its reference away" % (nm, fn.name), sample={"function": fn.name, "variable": nm} if n <= 3 else None)
            else:
                ctx.bad("B3", key, "%s: `%s` is %s (%s)" % (fn.name, nm, v.msg, fn.loc(v.pt)), {"function": fn.name, "site": fn.loc(v.pt), "path": s.render_path(v.path)[-6:]})
    ctx.floor("released locals checked for later use", n, 15)


# ------------------------------------------------------------------------------------------------
# P2: popped subtree arrays are deleted whole
# ------------------------------------------------------------------------------------------------
def rule_p2(ctx, F):
    """ts_subtree_array_remove_trailing_extras moves the trailing extras of an array into a scratch
    array.  When the alternative is discarded, the array that must be deleted is the slice's own
    (full) array — deleting the shortened by-value copy orphans the references of the moved extras."""
    n = 0
    for fn in F.fn_list:
        if not fn.file.startswith("lib/src"):
            continue
        shortened = set()
        for pt, c in fn.calls():
            if c.get("fn") == "ts_subtree_array_remove_trailing_extras":
                a = strip(c["a"][0])
                if a.get("k") == "un" and a["op"] == "&" and strip(a["e"]).get("k") == "ref":
                    shortened.add(strip(a["e"])["name"])
        if not shortened:
            continue
        for pt, c in fn.calls():
            if c.get("fn") == "ts_subtree_array_delete":
                n += 1
                a = strip(c["a"][1])
                tgt = strip(a["e"]) if a.get("k") == "un" and a["op"] == "&" else a
                key = "%s:array_delete:%s" % (fn.name, show(tgt).replace(" ", ""))
                if tgt.get("k") == "ref" and tgt["name"] in shortened:
                    ctx.bad("P2", key, "%s deletes `%s`, a by-value copy already shortened by ts_subtree_array_remove_trailing_extras, at %s: the extras moved to the scratch array are never released (leak)" % (
                        fn.name, tgt["name"], fn.loc(pt)), {"function": fn.name, "site": fn.loc(pt)})
                else:
                    ctx.ok("P2", key, "deletes the owning array `%s` (not a shortened copy)" % show(tgt), sample={"function": fn.name, "site": fn.loc(pt), "array": show(tgt)})
    ctx.floor("array deletions in functions that split off trailing extras", n, 2)


# ------------------------------------------------------------------------------------------------
# W1: allocator discipline
# ------------------------------------------------------------------------------------------------
LIBC_ALLOC = {"malloc", "calloc", "realloc", "free", "strdup", "strndup", "aligned_alloc", "posix_memalign", "reallocarray"}


def rule_w1(ctx, F):
    n = 0
    for fn in F.fn_list:
        for pt, e in fn.points():
            for x in own_walk(e):
                nm = None
                if x.get("k") == "call" and x.get("fn") in LIBC_ALLOC:
                    nm = x["fn"]
                elif x.get("k") == "ref" and x.get("dk") == "fn" and x.get("name") in LIBC_ALLOC:
                    nm = x["name"]
                if nm:
                    if fn.file == "lib/src/alloc.c":
                        n += 1
                    else:
                        ctx.bad("W1", "%s:%s" % (fn.name, nm), "%s (%s) uses libc's `%s` directly at %s; everything outside alloc.c must go through ts_malloc/ts_calloc/ts_realloc/ts_free" % (
                            fn.name, fn.file, nm, fn.loc(pt)), {"function": fn.name, "site": fn.loc(pt)})
    for g in F.globals.values():
        for x in walk(g.get("init") or {}):
            if x.get("k") == "ref" and x.get("name") in LIBC_ALLOC:
                if g.get("file") == "lib/src/alloc.c":
                    n += 1
                else:
                    ctx.bad("W1", "global:%s:%s" % (g["name"], x["name"]), "global %s (%s) refers to libc's %s" % (g["name"], g.get("file"), x["name"]))
    ctx.floor("libc allocator references inside alloc.c", n, 4)
    ctx.ok("W1", "scan", "every call and function reference in %d functions and %d globals scanned for %s" % (len(F.fn_list), len(F.globals), sorted(LIBC_ALLOC)),
           sample={"rule": "libc allocator only in alloc.c", "functions": len(F.fn_list)})


# ------------------------------------------------------------------------------------------------
# P1: delete functions release every owning field
# ------------------------------------------------------------------------------------------------
OWN = {
    ("TSTree", "ts_tree_delete"): {
        "root": "ts_subtree_release(_, self->root)", "language": "ts_language_delete(self->language)", "included_ranges": "ts_current_free(self->included_ranges)",
        "included_range_count": None},
    ("TSParser", "ts_parser_delete"): {
        "lexer": "ts_lexer_delete(&self->lexer)", "stack": "ts_stack_delete(self->stack)", "tree_pool": "ts_subtree_pool_delete(&self->tree_pool)",
        "language": "ts_parser_set_language(self, NULL)", "wasm_store": "ts_wasm_store_delete(self->wasm_store)", "reduce_actions": "ts_current_free((&self->reduce_actions)->contents)",
        "finished_tree": "ts_parser_set_language(self, NULL)", "trailing_extras": "ts_current_free((&self->trailing_extras)->contents)", "trailing_extras2": "ts_current_free((&self->trailing_extras2)->contents)",
        "scratch_trees": "ts_current_free((&self->scratch_trees)->contents)", "token_cache": "ts_parser__set_cached_token(self, 0, _, _)", "reusable_node": "reusable_node_delete(&self->reusable_node)",
        "external_scanner_payload": "ts_parser_set_language(self, NULL)", "old_tree": "ts_subtree_release(&self->tree_pool, self->old_tree)",
        "included_range_differences": "ts_current_free((&self->included_range_differences)->contents)",
        "dot_graph_file": None, "accept_count": None, "operation_count": None, "parse_options": None, "parse_state": None, "included_range_difference_index": None,
        "has_scanner_error": None, "canceled_balancing": None, "has_error": None,
        "resume_position": None, "resume_last_position": None, "resume_version": None, "canceled_parsing": None},
    ("TSQuery", "ts_query_delete"): {
        "captures": "symbol_table_delete(&self->captures)", "predicate_values": "symbol_table_delete(&self->predicate_values)",
        "capture_quantifiers": "ts_current_free((&self->capture_quantifiers)->contents)", "steps": "ts_current_free((&self->steps)->contents)", "pattern_map": "ts_current_free((&self->pattern_map)->contents)",
        "predicate_steps": "ts_current_free((&self->predicate_steps)->contents)", "patterns": "ts_current_free((&self->patterns)->contents)", "step_offsets": "ts_current_free((&self->step_offsets)->contents)",
        "negated_fields": "ts_current_free((&self->negated_fields)->contents)", "string_buffer": "ts_current_free((&self->string_buffer)->contents)",
        "repeat_symbols_with_rootless_patterns": "ts_current_free((&self->repeat_symbols_with_rootless_patterns)->contents)", "language": "ts_language_delete(self->language)",
        "wildcard_root_pattern_count": None},
    ("TSQueryCursor", "ts_query_cursor_delete"): {
        "states": "ts_current_free((&self->states)->contents)", "finished_states": "ts_current_free((&self->finished_states)->contents)", "cursor": "ts_tree_cursor_delete(&self->cursor)",
        "capture_list_pool": "capture_list_pool_delete(&self->capture_list_pool)",
        "query": None, "finished_states_heap_size": None, "depth": None, "max_start_depth": None, "included_range": None, "containing_range": None, "next_state_id": None,
        "next_finished_state_id": None, "query_options": None, "query_state": None, "operation_count": None, "on_visible_node": None, "ascending": None, "halted": None,
        "did_exceed_match_limit": None},
    ("Stack", "ts_stack_delete"): {
        "heads": "ts_current_free((&self->heads)->contents)", "slices": "ts_current_free((&self->slices)->contents)", "iterators": "ts_current_free((&self->iterators)->contents)",
        "node_pool": "ts_current_free((&self->node_pool)->contents)", "base_node": "stack_node_release(self->base_node, &self->node_pool, self->subtree_pool)", "subtree_pool": None},
    ("StackHead", "stack_head_delete"): {
        "node": "stack_node_release(self->node, pool, subtree_pool)", "summary": "ts_current_free(self->summary)", "last_external_token": "ts_subtree_release(subtree_pool, self->last_external_token)",
        "lookahead_when_paused": "ts_subtree_release(subtree_pool, self->lookahead_when_paused)", "node_count_at_last_error": None, "status": None},
}


def rule_p1(ctx, F):
    for (rec, dfn), table in OWN.items():
        fields = F.record_fields(rec)
        fn = ctx.need_fn(F, dfn, "P1")
        if not fields or not fn:
            ctx.bad("P1", "missing:%s" % rec, "record %s or %s not found" % (rec, dfn))
            continue
        for f in fields:
            if f not in table:
                ctx.bad("P1", "UNCLASSIFIED-FIELD:%s.%s" % (rec, f), "%s has a field `%s` the ownership table does not classify (does %s have to release it?)" % (rec, f, dfn))
                continue
            how = table[f]
            if how is None:
                ctx.ok("P1", "%s.%s" % (rec, f), "plain value / not owned", nontrivial=False)
                continue
            if find(fn, how):
                ctx.ok("P1", "%s.%s" % (rec, f), "%s releases it: %s" % (dfn, how), sample={"record": rec, "field": f, "release": how})
            else:
                ctx.bad("P1", "%s.%s" % (rec, f), "%s no longer releases owning field `%s` of %s (expected `%s`)" % (dfn, f, rec, how), {"function": dfn, "field": f})
        for f in table:
            if f not in fields:
                ctx.bad("P1", "STALE-FIELD:%s.%s" % (rec, f), "ownership table names `%s.%s`, which no longer exists" % (rec, f))
        selfree = find(fn, "ts_current_free(self)")
        if rec in ("TSTree", "TSParser", "TSQuery", "TSQueryCursor", "Stack"):
            if selfree:
                ctx.ok("P1", "%s:self" % rec, "%s frees the handle itself" % dfn)
            else:
                ctx.bad("P1", "%s:self" % rec, "%s no longer frees the handle itself" % dfn)
    # ts_stack_delete frees every pooled node and deletes every head
    fn = F.fn("ts_stack_delete")
    if fn:
        if find(fn, "stack_head_delete(_, &self->node_pool, self->subtree_pool)") and find(fn, "ts_current_free(*_)"):
            ctx.ok("P1", "Stack:heads-and-pool-elements", "every head is deleted and every pooled node freed")
        else:
            ctx.bad("P1", "Stack:heads-and-pool-elements", "ts_stack_delete no longer deletes each head / frees each pooled node")


# resume flags whose "set" state licenses an assertion / dereference at the label they jump to
RESUME_PAIRS = [
    ("TSParser", "canceled_balancing", "finished_tree",
     "ts_parser_parse jumps to `balance:` when the flag is set and asserts (dereferences, under NDEBUG) self->finished_tree there"),
]


def rule_a1(ctx, F):
    """A1: a resume flag never outlives the object it promises: whenever `field` is emptied, the
    flag is cleared before the function returns (directly or by a callee that always clears it)."""
    for rec, flag, field, why in RESUME_PAIRS:
        def stores_of(fn, f, pred):
            out = []
            for pt, e in fn.points():
                for n in own_walk(e):
                    if n.get("k") == "assign" and strip(n["l"]).get("k") == "mem" and strip(n["l"])["f"] == f and strip(n["l"]).get("rec") == rec and pred(strip(n["r"])):
                        out.append(pt)
            return out
        is_null = lambda r: r.get("k") in ("null", "zero") or (r.get("k") == "int" and not r.get("v")) or (r.get("k") == "init" and all(strip(x["e"]).get("k") in ("null", "zero") for x in r.get("fields", [])))
        is_false = lambda r: r.get("k") == "int" and not r.get("v")
        # callees that clear the flag on every path
        clearing = set()
        for fn in F.fn_list:
            pts = stores_of(fn, flag, is_false)
            if pts and Search(fn, BeforeMonitor((), pts, check_exit=True)).run(False) is None:
                clearing.add(fn.name)
        n = 0
        for fn in F.fn_list:
            nulls = stores_of(fn, field, is_null)
            if not nulls:
                continue
            n += 1
            obl = stores_of(fn, flag, is_false) + [pt for pt, c in fn.calls() if callee_name(c) in clearing]
            ctx.after("A1", "%s:%s-cleared-with-%s" % (fn.name, flag, field), fn, nulls, obl,
                      "after emptying %s the resume flag %s is cleared before returning" % (field, flag))
        ctx.floor("functions that empty %s.%s" % (rec, field), n, 3)


def rule_borrowed(ctx, F):
    """BP1: memory handed out by the caller's read callback is borrowed for one parse call only.
    Lexer.chunk is written only from the callback's result or cleared; every parse call drops the pointer
    left by the previous call before anything can read through it."""
    from cstores import stores, writes_record
    writers = {}
    for fn in F.fn_list:
        for pt, n, l, op in stores(fn):
            if writes_record(l, "Lexer") == "chunk":
                writers.setdefault(fn.name, []).append((pt, n))
    allowed = {"ts_lexer__get_chunk": "from the read callback", "ts_lexer__clear_chunk": "NULL", "ts_lexer_init": "NULL"}
    for name, sts in sorted(writers.items()):
        if name in allowed:
            ctx.ok("BP1", "Lexer.chunk:writer:" + name, "tabled writer of the borrowed chunk pointer (%s)" % allowed[name], nontrivial=False)
        else:
            ctx.bad("BP1", "Lexer.chunk:writer:" + name, "%s stores to Lexer.chunk; the borrowed chunk pointer may only come from the read callback (ts_lexer__get_chunk) or be cleared" % name,
                    {"site": F.fns[name].loc(sts[0][0])})
    ctx.floor("writers of Lexer.chunk", len(writers), 2)
    fn = ctx.need_fn(F, "ts_lexer_set_input", "BP1")
    if fn:
        ctx.on_all_paths("BP1", "ts_lexer_set_input:drops-previous-chunk", fn, [pt for pt, n in find(fn, "ts_lexer__clear_chunk(self)")] + [pt for pt, n in find(fn, "self->chunk = NULL")],
                         "a new parse call drops the chunk pointer the previous call left behind (the caller may have freed or moved that buffer)")
    fn = ctx.need_fn(F, "ts_parser_parse", "BP1")
    if fn:
        use = [pt for pt, c in fn.calls() if callee_name(c) in ("ts_parser__advance", "ts_parser__balance_subtree")]
        g = [pt for pt, c in fn.calls() if callee_name(c) == "ts_lexer_set_input"]
        ctx.before("BP1", "ts_parser_parse:input-installed-before-lexing", fn, [p for p in use if any(callee_name(c) == "ts_parser__advance" for q, c in fn.calls() if q == p)], g,
                   "every parse call (fresh or resumed) installs the input — and thereby drops the old chunk — before the parse loop runs")
    fn = ctx.need_fn(F, "ts_lexer__get_lookahead", "BP1")
    if fn:
        pass


# ------------------------------------------------------------------------------------------------
# K1: a reference taken is a reference kept (stack.c)
# ------------------------------------------------------------------------------------------------
RETAINERS = {"ts_subtree_retain": 0, "stack_node_retain": 0}
RETAIN_FILES = ("lib/src/stack.c",)


class KeptMonitor(Monitor):
    """m = (retained on this path, stored on this path).  At function exit a retained-but-never-stored reference is a leak."""

    def __init__(self, fn, retain_pts, roots):
        self.fn, self.ret, self.roots = fn, set(retain_pts), roots

    def elem(self, m, pt, e, s):
        r, k = m
        if pt in self.ret:
            r = True
        for n in own_walk(e):
            if n.get("k") == "assign" and strip(n["l"]).get("k") in ("mem", "idx") and any(x.get("k") == "ref" and x.get("id") in self.roots for x in walk(n["r"])):
                k = True
            if n.get("k") == "ret" and n.get("e") is not None and any(x.get("k") == "ref" and x.get("id") in self.roots for x in walk(n["e"])):
                k = True
            if n.get("k") == "init" and any(x.get("k") == "ref" and x.get("id") in self.roots for x in walk(n)):
                k = True          # a compound literal holding the reference (it is pushed / stored as a whole)
        return (r, k)

    def exit(self, m, bid, s):
        if m[0] and not m[1]:
            return Viol("takes a reference that it does not store anywhere on this path")
        return None


def rule_kept(ctx, F):
    """K1: in the parse stack, every retain is there because the reference is put somewhere: on each path through a
    ts_subtree_retain / stack_node_retain of a local value, that value (or the struct it is part of) is stored into a
    node, a head or a slice, or returned.  A retain on a path that drops the value (e.g. when a node's link array is
    already full) is never balanced by a release: stack nodes and subtrees survive ts_parser_delete."""
    from taint import root_var
    n = 0
    for fn in F.fn_list:
        if fn.file not in RETAIN_FILES or not fn.blocks:
            continue
        groups = {}
        for pt, c in fn.calls():
            nm = callee_name(c)
            if nm in RETAINERS and len(c.get("a", [])) > RETAINERS[nm]:
                a = c["a"][RETAINERS[nm]]
                rv = root_var(a)
                # a value read through a pointer (head->node, *slot) already lives in the structure that owns it
                in_memory = any((x.get("k") == "mem" and x.get("arrow")) or (x.get("k") == "un" and x.get("op") == "*") or x.get("k") == "idx" for x in walk(a))
                if rv is not None and not in_memory:
                    groups.setdefault(rv, []).append(pt)
        fn.defs(0)
        for rv, pts in sorted(groups.items()):
            n += len(pts)
            nm = fn._names.get(rv, "?")
            sr = Search(fn, KeptMonitor(fn, pts, {rv}), budget=2000000)
            v = sr.run((False, False))
            key = "%s:%s" % (fn.name, nm)
            if v is None:
                ctx.ok("K1", key, "every path that retains `%s` also stores it (%d retain site(s), %d states)" % (nm, len(pts), sr.states), sample={"function": fn.name, "sites": [fn.loc(p) for p in pts]} if n <= 4 else None)
            else:
                ctx.bad("K1", key, "%s %s (`%s`, retained at %s): the reference is never released — a leak that outlives ts_parser_delete" % (fn.name, v.msg, nm, ", ".join(fn.loc(p) for p in pts)),
                        {"function": fn.name, "path": sr.render_path(v.path)[-6:] if v.path else []})
    ctx.floor("retain calls of local values in stack.c", n, 5)


def rule_copied_cursor(ctx, F):
    """K2: a growable array that was copied by value is handed back to its owner.  ts_subtree_get_changed_ranges walks
    with Iterator structs that hold *copies* of the caller's two TreeCursors; pushing onto a copy's stack may reallocate
    it, so before returning the function stores each iterator's cursor back through the caller's pointer — otherwise the
    caller later frees the block that realloc already released and leaks the new one."""
    fn = ctx.need_fn(F, "ts_subtree_get_changed_ranges", "K2")
    if not fn:
        return
    curs = [p for p in fn.params if "TreeCursor" in str(p.get("t") or "")]
    if len(curs) < 2:
        curs = [p for p in fn.params if p["name"].startswith("cursor")]
    ctx.floor("TreeCursor parameters of ts_subtree_get_changed_ranges", len(curs), 2)
    for p in curs:
        back = []
        for pt, e in fn.points():
            for n in own_walk(e):
                if n.get("k") == "assign" and n.get("op") == "=":
                    l, r = strip(n["l"]), strip(n["r"])
                    if l.get("k") == "un" and l.get("op") == "*" and strip(l["e"]).get("k") == "ref" and strip(l["e"]).get("id") == p["id"] and r.get("k") == "mem" and r.get("f") == "cursor":
                        back.append(pt)
        ctx.on_all_paths("K2", "ts_subtree_get_changed_ranges:%s-written-back" % p["name"], fn, back, "the iterator's (possibly reallocated) cursor is stored back through `%s`" % p["name"])


def rule_pop_once(ctx, F):
    """K3: ts_stack_pop_error takes exactly one path off the stack.  Its callback answers Pop at most once per walk —
    guarded by the one-shot flag in its payload, which it sets when it does — because the caller keeps only slice 0
    (`ts_assert(pop.size == 1)`): a second slice is never released (leak under NDEBUG, assertion otherwise)."""
    fn = ctx.need_fn(F, "pop_error_callback", "K3")
    if not fn:
        return
    pops = [pt for pt, e in fn.points() if e.get("k") == "ret" and e.get("e") is not None and isinstance(strip(e["e"]).get("v"), int) and strip(e["e"])["v"] & 2]
    if not pops:
        pops = [pt for pt, e in fn.points() if e.get("k") == "ret" and "StackActionPop" in show(e)]
    ctx.floor("Pop answers of pop_error_callback", len(pops), 1)
    payload = fn.params[0]["name"] if fn.params else "payload"
    flag = bind(fn, "found_error", payload)
    ctx.gate("K3", fn, pops, [("Pop is answered only while the one-shot flag is still clear", [("!*%s" % flag, True), ("*%s" % flag, False)])], accept_desc="answering Pop")
    sets = [pt for pt, n in find(fn, "*%s = 1" % flag)]
    ctx.before("K3", "pop_error_callback:flag-set-when-popping", fn, pops, sets, "the flag is set before Pop is answered")
    g = ctx.need_fn(F, "ts_stack_pop_error", "K3")
    if g:
        calls = [c for pt, c in g.calls() if callee_name(c) == "stack__iter"]
        ok = calls and all(len(c.get("a", [])) > 3 and strip(c["a"][3]).get("k") == "un" and strip(c["a"][3]).get("op") == "&" for c in calls)
        if ok:
            ctx.ok("K3", "ts_stack_pop_error:passes-the-flag", "ts_stack_pop_error hands the callback the address of a local flag")
        else:
            ctx.bad("K3", "ts_stack_pop_error:passes-the-flag", "ts_stack_pop_error no longer passes a one-shot flag to its callback: every ERROR link of the head node is popped, the extra slices are never released")


SCOPED_OWNERS = {"capture_quantifiers_new": ("capture_quantifiers_delete", ("array_push", "_array__grow", "array_insert"))}


def rule_scoped(ctx, F):
    """K4: a locally built list is deleted on every way out.  A local initialised with capture_quantifiers_new() owns an
    allocation as soon as something was added to it; on every path from its declaration to the end of the function (or to
    the declaration running again in the next loop iteration) it is passed to capture_quantifiers_delete or handed on
    (pushed into the query).  An error return that forgets the delete leaks one block per rejected query."""
    n = 0
    for fn in F.fn_list:
        if not fn.file.endswith("query.c") or not fn.blocks:
            continue
        for pt, e in fn.points():
            for x in own_walk(e):
                if x.get("k") == "decl" and x.get("init") is not None and strip(x["init"]).get("k") == "call" and callee_name(strip(x["init"])) in SCOPED_OWNERS:
                    deleter, movers = SCOPED_OWNERS[callee_name(strip(x["init"]))]
                    vid, nm = x["id"], x["name"]
                    obl = []
                    for p2, c in fn.calls():
                        cn = callee_name(c)
                        if cn == deleter or cn in movers or (cn or "").startswith("_array__"):
                            if any(y.get("k") == "ref" and y.get("id") == vid for a in c.get("a", []) for y in walk(a)):
                                obl.append(p2)
                    for p2, e2 in fn.points():
                        for y in own_walk(e2):
                            if y.get("k") == "assign" and strip(y["l"]).get("k") in ("mem", "idx", "un") and any(z.get("k") == "ref" and z.get("id") == vid for z in walk(y["r"])):
                                obl.append(p2)
                    n += 1
                    key = "%s:%s#%d" % (fn.name, nm, n)
                    ctx.after("K4", "%s:%s-deleted-on-every-path" % (fn.name, nm) + ("" if n == 1 else "#%d" % n), fn, [pt], obl, "`%s` (capture_quantifiers_new) is deleted or handed on before the function is left" % nm,
                              retrigger_is_stop=True)
    ctx.floor("locals built with capture_quantifiers_new in query.c", n, 4)


def run(ctx):
    for cfg in configs(ctx):
        ctx.config = cfg
        F = ctx.extract.cfacts(cfg)
        ctx.analysed["c_functions_" + cfg] = len(F.fn_list)
        rule_b1(ctx, F)
        rule_b2(ctx, F)
        rule_b3(ctx, F)
        rule_p2(ctx, F)
        rule_w1(ctx, F)
        rule_p1(ctx, F)
        rule_a1(ctx, F)
        rule_borrowed(ctx, F)
        rule_kept(ctx, F)
        rule_copied_cursor(ctx, F)
        rule_pop_once(ctx, F)
        rule_scoped(ctx, F)
        # the external scanner's payload is destroyed while the language that owns `destroy` is still assigned: reset precedes every change of the language (shared with C09.P2)
        import C09
        C09.rule_p2(ctx, F)
        # "freed exactly once": a clone must own its own copy of what release frees per node (shared with C08.P2)
        import C08
        C08.rule_p2(ctx, F)
    ctx.assumptions = ["an external scanner's serialize() writes at most TREE_SITTER_SERIALIZATION_BUFFER_SIZE bytes into the buffer it is given (documented contract; foreign code)",
                       "Clang/rustc front ends are faithful", "index counters tested with == against their bound only ever grow by one (DESIGN §3.6 (c))"]
    try:
        import rsrules
        rsrules.c07_rust(ctx)
    except ImportError:
        pass
    return ctx.finish(
        "Bounded-write, who-may-call and field-coverage rules: each store into a constant-size array (incl. through a local alias of debug_buffer) has its own dominating bound test with no "
        "modification of the index in between; size-carrying libc calls into such arrays carry the declared bound; libc's allocator is referenced only in alloc.c; every delete function "
        "releases each owning field of its handle. Discipline, not memory safety: out-of-bounds reads, use-after-free across histories and retain/release balance are not decided.")
