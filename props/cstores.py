"""Helpers to enumerate stores in the C runtime by what they write (who-may-write rules)."""
from facts import own_walk, walk, strip, show


def lvalue_chain(l):
    """For an lvalue, the list of (record, field) member steps from outermost to innermost, the
    root expression, and whether a children-array slot (ts_subtree_children(x)[i]) is written."""
    chain = []
    childslot = False
    e = strip(l)
    while True:
        k = e.get("k")
        if k == "mem":
            chain.append((e.get("rec") or "", e["f"]))
            e = strip(e["b"])
        elif k == "idx":
            b = strip(e["b"])
            for n in walk(b):
                if n.get("k") == "cast" and n.get("to") == "Subtree *" and "SubtreeHeapData" in (n.get("from") or ""):
                    childslot = True
            chain.append(("[]", ""))
            e = b
        elif k == "un" and e["op"] == "*":
            chain.append(("*", strip(e["e"]).get("t") or ""))
            e = strip(e["e"])
        elif k == "un" and e["op"] == "&":
            e = strip(e["e"])
        else:
            break
    return chain, e, childslot


def stores(fn):
    """(point, node, lvalue, kind) for every store evaluated in fn: kind in =, op=, ++/--."""
    for pt, e in fn.points():
        for n in own_walk(e):
            k = n.get("k")
            if k == "assign":
                yield pt, n, n["l"], n["op"]
            elif k == "un" and n["op"] in ("post++", "post--", "pre++", "pre--"):
                yield pt, n, n["e"], n["op"][-2:]


def writes_record(l, rec):
    """Field name of `rec` written by lvalue l (possibly through a nested member), or None.
    A whole-struct store through a `rec *` yields '*'."""
    chain, root, _ = lvalue_chain(l)
    for r, f in chain:
        if r == rec:
            return f
    if chain and chain[0][0] == "*" and rec in chain[0][1].replace("const ", ""):
        t = chain[0][1].replace("const", "").replace("volatile", "").strip()
        if t.rstrip(" *").strip() == rec:
            return "*"
    return None


def heap_store(l):
    """Does lvalue l write into a shared subtree node?  Returns a description or None."""
    f = writes_record(l, "SubtreeHeapData")
    if f is not None:
        return "field:" + f
    chain, root, childslot = lvalue_chain(l)
    if childslot:
        return "childslot"
    return None


def roots(l):
    """Names of variables the lvalue is reached through."""
    return [n["name"] for n in walk(strip(l)) if n.get("k") == "ref" and n.get("dk") in ("local", "param")]
