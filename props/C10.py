"""C10 — editing a tree keeps untouched nodes in sync: marking and wiring (DESIGN.md §4 C10).

Decides: ts_tree_edit applies the edit to every stored included range and to the root; in
ts_subtree_edit every visited node is marked has_changes and written back, a child is skipped only
by the look-ahead-aware "ends before the edit" test and the loop is left only by the "starts after
the edit" test with both column-dependence escapes; inline leaves are rewritten in place only when
they still fit, else promoted with every inline field copied; ts_node_edit goes through
ts_point_edit.  Does not decide the shift/shrink arithmetic.
"""
from common import *  # noqa: F401,F403
from cstores import stores, writes_record, lvalue_chain, roots


def rule_tree_edit(ctx, F):
    fn = ctx.need_fn(F, "ts_tree_edit", "P1")
    if not fn:
        return
    call = [pt for pt, n in find(fn, "ts_range_edit(&self->included_ranges[i], edit)")]
    ctx.floor("ts_range_edit calls in ts_tree_edit", len(call), 1)
    ctx.gate("P1", fn, call, [("loop bound is the stored range count", "i < self->included_range_count", True)], accept_desc="editing stored range i")
    sub = [pt for pt, n in find(fn, "ts_subtree_edit(self->root, edit, _)")]
    # the subtree edit happens only after the range loop was exhausted, i.e. all ranges were edited
    ctx.gate("P1", fn, sub, [("every stored included range was edited first", "i < self->included_range_count", False)], accept_desc="editing the root")
    ids = fn.ids_named("i")
    ds = [d for i in ids for d in fn.defs(i)]
    if len(ds) == 2 and any(d is None for d in ds) and any(d is not None and strip(d).get("v") == 0 for d in ds):
        ctx.ok("P1", "ts_tree_edit:loop-shape", "i runs from 0 in steps of one")
    else:
        ctx.bad("P1", "ts_tree_edit:loop-shape", "the included-range loop of ts_tree_edit no longer visits every index from 0")


class ChildSkipMonitor(Monitor):
    """From taking a child's address to the next loop step: the child is queued unless the
    look-ahead-aware 'ends before the edit' test or the 'starts after the edit' test fired."""

    def __init__(self, fn, child_pts, push_pts):
        self.child, self.push = set(child_pts), set(push_pts)

    def elem(self, m, pt, e, s):
        if pt in self.child:
            if m == "pending":
                return Viol("a child is neither queued nor skipped by one of the two licensed tests", pt)
            return "pending"
        if pt in self.push:
            return None
        return m

    def edge(self, m, bid, edge, cond, truth, s):
        if m != "pending" or cond is None or truth is None:
            return m
        if s.m.cond_matches("_ + ts_subtree_lookahead_bytes(*child) < edit.start.bytes", True, cond, truth):
            return None
        if s.m.cond_matches("child_left.bytes > edit.old_end.bytes", True, cond, truth) or s.m.cond_matches("child_left.bytes == edit.old_end.bytes", True, cond, truth):
            return "maybe-break"
        return m

    def exit(self, m, bid, s):
        if m == "pending":
            return Viol("function exit reached with a child neither queued nor skipped by a licensed test")
        return None


def rule_subtree_edit(ctx, F):
    fn = ctx.need_fn(F, "ts_subtree_edit", "P2")
    if not fn:
        return
    res = bind(fn, "result", "ts_subtree_make_mut(pool, *entry.tree)")
    bind(fn, "child", "&_[i]")
    mk = [pt for pt, e in fn.points() if e.get("k") == "decl" and e["name"] == res]
    setch = [pt for pt, n in find(fn, "ts_subtree_set_has_changes(&result)")]
    wb = [pt for pt, n in find(fn, "*entry.tree = ts_subtree_from_mut(result)")]
    child = [pt for pt, e in fn.points() if e.get("k") == "decl" and e["name"] == fn.cur("child")]
    push = [pt for pt, n in find(fn, "_array__grow(...)") if "child_edit" in show(fn.blocks[pt[0]].elems[pt[1] + 2]["e"] if pt[1] + 2 < len(fn.blocks[pt[0]].elems) else {})]
    if not push:
        push = [pt for pt, n, l, op in stores(fn) if "child_edit" in show(n)]
    ctx.after("P2", "ts_subtree_edit:visited-node-marked", fn, mk, setch, "every node obtained through make_mut is marked has_changes", stop_pts=child, retrigger_is_stop=True)
    ctx.after("P2", "ts_subtree_edit:visited-node-written-back", fn, mk, wb, "every node obtained through make_mut is written back into its parent slot", stop_pts=child, retrigger_is_stop=True)
    ctx.floor("child queue pushes in ts_subtree_edit", len(push), 1)
    s = Search(fn, ChildSkipMonitor(fn, child, push))
    v = s.run(None)
    if v is None:
        ctx.ok("P2", "ts_subtree_edit:child-skipped-only-by-licensed-tests",
               "a child is left unqueued only via `child_right + lookahead_bytes(child) < edit.start` or the starts-after-the-edit test (%d states)" % s.states,
               sample={"function": fn.name, "child": [fn.loc(p) for p in child], "push": [fn.loc(p) for p in push]})
    else:
        ctx.bad("P2", "ts_subtree_edit:child-skipped-only-by-licensed-tests", "ts_subtree_edit: %s (%s)" % (v.msg, fn.loc(v.pt)), {"path": s.render_path(v.path)})
    is_break = lambda bid, e: fn.blocks[e.to].term.get("cls") == "BreakStmt" and not fn.blocks[e.to].elems
    nbreak = sum(1 for b in fn.blocks.values() for e in b.succs if is_break(b.id, e))
    if nbreak < 1:
        ctx.bad("P2", "ts_subtree_edit:break-anchor", "the `break` that ends the child loop was not found")
    else:
        ctx.gate("P2", fn, [], [
            ("stop only at a child that starts at/after the end of the edit", [("child_left.bytes > edit.old_end.bytes", True), ("child_left.bytes == edit.old_end.bytes", True)]),
            ("…and, if the parent depends on columns, only past the edited line", [("ts_subtree_depends_on_column(*entry.tree)", False), ("child_left.extent.row > padding.extent.row", True)]),
            ("…and, if the child depends on columns and the column shifted, only past the edited line",
             [("ts_subtree_depends_on_column(*child)", False), ("edit.new_end.extent.column != edit.old_end.extent.column", False), ("child_left.extent.row > edit.old_end.extent.row", True)]),
        ], accept_desc="leaving the child loop early", accept_edge=is_break)
    # sibling agreement: start / old_end / new_end of the child's edit are produced by the same mapping
    ce = [n for pt, e in fn.points() for n in own_walk(e) if n.get("k") == "init" and n.get("t") == "Edit" and any("child_left" in show(f["e"]) for f in n.get("fields", []))]
    if len(ce) == 1:
        shapes = {}
        for f in ce[0]["fields"]:
            v = strip(f["e"])
            shapes[f["f"]] = (callee_name(v) if v.get("k") == "call" else show(v)[:30], [show(a) for a in v.get("a", [])[1:]] if v.get("k") == "call" else None,
                              show(v["a"][0]) if v.get("k") == "call" and v.get("a") else None)
        fns_used = {x[0] for x in shapes.values()}
        second = {tuple(x[1] or []) for x in shapes.values()}
        firsts_ok = all(x[2] == "edit.%s" % k for k, x in shapes.items())
        if set(shapes) == {"start", "old_end", "new_end"} and len(fns_used) == 1 and len(second) == 1 and firsts_ok:
            ctx.ok("P2", "ts_subtree_edit:child-edit-one-mapping", "start, old_end and new_end of a child's edit are all `%s(edit.<field>, %s)`" % (list(fns_used)[0], list(second)[0][0] if list(second)[0] else ""),
                   sample={"function": fn.name, "mapping": list(fns_used)[0]})
        else:
            ctx.bad("P2", "ts_subtree_edit:child-edit-one-mapping", "the three coordinates of a child's edit are no longer produced by one and the same mapping of (edit.<field>, child_left): %s — positions after the edit then shift inconsistently" % shapes,
                    {"function": fn.name})
    else:
        ctx.bad("P2", "ts_subtree_edit:child-edit-anchor", "could not find the single `Edit child_edit = {…}` initialiser (found %d)" % len(ce))
    # end_byte used for the early `continue` counts the look-ahead
    bind(fn, "end_byte", "_.bytes + _")
    eb = fn.ids_named("end_byte")
    d = fn.single_def(eb[0]) if eb else None
    if d is not None and M(fn).match("@has(ts_subtree_lookahead_bytes(*entry.tree))", d):
        ctx.ok("P2", "ts_subtree_edit:node-extent-includes-lookahead", "the node-level `edit starts after this node` test uses total size + look-ahead bytes")
    else:
        ctx.bad("P2", "ts_subtree_edit:node-extent-includes-lookahead", "`end_byte` in ts_subtree_edit no longer includes the node's look-ahead bytes")
    # inline leaf: rewritten in place only if it still fits; otherwise promoted with every inline field
    inl = [pt for pt, n, l, op in stores(fn) if writes_record(l, "SubtreeInlineData") and res in roots(l)]
    ctx.floor("in-place stores into an inline leaf", len(inl), 4)
    ctx.gate("G1", fn, inl, [("the edited leaf still fits the inline representation", "ts_subtree_can_inline(padding, size, lookahead_bytes)", True),
                             ("node is inline", "result.data.is_inline", True)], accept_desc="rewriting an inline leaf in place")
    inline_fields = F.record_fields("SubtreeInlineData") or []
    COPIED = {"symbol", "parse_state", "visible", "named", "extra", "is_missing", "is_keyword"}
    GEOMETRY = {"padding_columns", "padding_rows", "lookahead_bytes", "padding_bytes", "size_bytes"}
    OTHER = {"is_inline": "representation tag", "unused": "padding bit", "has_changes": "set by ts_subtree_set_has_changes right after"}
    for f in inline_fields:
        if f in COPIED:
            if find(fn, "data->%s = result.data.%s" % (f, f)):
                ctx.ok("G1", "promotion-copies:%s" % f, "promotion to a heap leaf copies `%s`" % f)
            else:
                ctx.bad("G1", "promotion-copies:%s" % f, "promotion of an inline leaf to a heap leaf does not copy `%s`" % f)
        elif f in GEOMETRY or f in OTHER:
            ctx.ok("G1", "inline-field:%s" % f, GEOMETRY and (OTHER.get(f) or "geometry: recomputed from padding/size/lookahead_bytes"), nontrivial=False)
        else:
            ctx.bad("G1", "UNCLASSIFIED-FIELD:SubtreeInlineData.%s" % f, "SubtreeInlineData has a field `%s` the promotion rule does not classify" % f)
    for f, src in (("padding", "padding"), ("size", "size"), ("lookahead_bytes", "lookahead_bytes")):
        if find(fn, "data->%s = %s" % (f, src)):
            ctx.ok("G1", "promotion-geometry:%s" % f, "promoted leaf takes the edited %s" % f)
        else:
            ctx.bad("G1", "promotion-geometry:%s" % f, "promoted leaf does not take the edited %s" % f)


def rule_node_edit(ctx, F):
    fn = ctx.need_fn(F, "ts_node_edit", "W1")
    if fn:
        okk = find(fn, "ts_point_edit(&start_point, &start_byte, edit)") and find(fn, "self->context[0] = start_byte") and \
            find(fn, "self->context[1] = start_point.row") and find(fn, "self->context[2] = start_point.column")
        sb = fn.ids_named("start_byte")
        d = [x for i in sb for x in fn.defs(i) if x is not None and x.get("k") != "uninit"]
        if okk and d and M(fn).match("ts_node_start_byte(*self)", d[0]):
            ctx.ok("W1", "ts_node_edit:via-ts_point_edit", "the node's start is mapped by ts_point_edit and stored back as byte/row/column")
        else:
            ctx.bad("W1", "ts_node_edit:via-ts_point_edit", "ts_node_edit no longer maps the node start through ts_point_edit into context[0..2]")
        # …and on every path: the only positions the mapping leaves alone are those strictly before the edit's start
        untouched = [("start_byte < edit->start_byte", True), ("ts_node_start_byte(*self) < edit->start_byte", True),
                     ("start_byte >= edit->start_byte", False), ("ts_node_start_byte(*self) >= edit->start_byte", False)]
        for what, pat in (("maps the start through ts_point_edit", "ts_point_edit(&start_point, &start_byte, edit)"), ("stores the mapped byte", "self->context[0] = start_byte"),
                          ("stores the mapped row", "self->context[1] = start_point.row"), ("stores the mapped column", "self->context[2] = start_point.column")):
            pts = [pt for pt, n in find(fn, pat)]
            if pts:
                ctx.established_at_exit("W1", "ts_node_edit:always:" + what, fn, pts, untouched, "ts_node_edit %s unless the node starts strictly before the edit" % what)
    fn = ctx.need_fn(F, "ts_point_edit", "W1")
    if fn:
        shift = [pt for pt, n in find(fn, "start_byte = edit->new_end_byte + (start_byte - edit->old_end_byte)")]
        ctx.gate("W1", fn, shift, [("shift only positions at/after the old end", "start_byte >= edit->old_end_byte", True)], accept_desc="shifting a position")
        clamp = [pt for pt, n in find(fn, "start_byte = edit->new_end_byte")]
        ctx.gate("W1", fn, clamp, [("positions inside the edit move to its new end", "start_byte > edit->start_byte", True), ("…only if before the old end", "start_byte >= edit->old_end_byte", False)], accept_desc="clamping a position")
        ctx.on_all_paths("W1", "ts_point_edit:writes-back-byte", fn, [pt for pt, n in find(fn, "*byte = start_byte")], "result byte is written back")
        ctx.on_all_paths("W1", "ts_point_edit:writes-back-point", fn, [pt for pt, n in find(fn, "*point = start_point")], "result point is written back")


def rule_range_edit(ctx, F):
    """ts_range_edit maps both ends of a range with the *range* mapping (an end inside the replaced
    text collapses to the edit's start), which deliberately differs from ts_point_edit there."""
    fn = ctx.need_fn(F, "ts_range_edit", "W2")
    if not fn:
        return
    if any(c.get("fn") == "ts_point_edit" for _, c in fn.calls()):
        ctx.bad("W2", "ts_range_edit:own-mapping", "ts_range_edit now delegates to ts_point_edit: a range end inside replaced text moves to the edit's *new end* instead of its start, so start and end of a range are mapped differently (inverted ranges)")
    else:
        ctx.ok("W2", "ts_range_edit:own-mapping", "ts_range_edit does not delegate to ts_point_edit (the two mappings differ inside the edited region)")
    for end in ("start", "end"):
        loc = "range->%s_byte" % end
        clamp = [pt for pt, n in find(fn, "%s = edit->start_byte" % loc)]
        # the shift (and its overflow pin) may sit in ts_range_edit itself or in a helper that is handed `&range-><end>_byte`
        sites = [(fn, loc, None)]
        for pt, c in fn.calls():
            h = F.fns.get(callee_name(c) or "")
            if h is None or h.name == fn.name:
                continue
            for i, a in enumerate(c.get("a", [])):
                if M(fn).match("&" + loc, a) and i < len(h.params):
                    sites.append((h, "*" + h.params[i]["name"], pt))
        shift = []
        for g, L, call_pt in sites:
            ed = "edit" if g is fn else next((p["name"] for p in g.params if "TSInputEdit" in (p.get("t") or "")), "edit")
            for pt, n in find(g, "%s = %s->new_end_byte + (%s - %s->old_end_byte)" % (L, ed, L, ed)):
                shift.append((g, L, ed, call_pt, pt))
        if not clamp or not shift:
            ctx.bad("W2", "ts_range_edit:%s-mapping" % end, "ts_range_edit no longer both shifts (>= old end) and clamps to the edit start (inside the edit) the range's %s" % end)
            continue
        ctx.gate("W2", fn, clamp, [("%s inside the replaced text collapses to the edit start" % end, "%s > edit->start_byte" % loc, True),
                                   ("…only when not at/after the old end", "%s >= edit->old_end_byte" % loc, False)], accept_desc="clamping the range %s" % end)
        for g, L, ed, call_pt, pt in shift:
            at = [pt] if g is fn else [call_pt]
            ctx.gate("W2", fn, at, [("%s at/after the old end is shifted" % end, "%s >= edit->old_end_byte" % loc, True)], accept_desc="shifting the range %s" % end)
            # the shifted value is pinned to UINT32_MAX only when the addition really wrapped (strictly below the new end)
            pins = [p for p, n in find(g, "%s = 4294967295" % L)]
            if pins:
                ctx.gate("W2", g, pins, [("%s is pinned to UINT32_MAX only after a genuine wrap-around" % end, "%s < %s->new_end_byte" % (L, ed), True)], accept_desc="pinning the range %s" % end)
            else:
                ctx.bad("W2", "%s:%s-overflow-pin" % (g.name, end), "the shifted range %s is no longer pinned to UINT32_MAX on wrap-around" % end)
        pts = [pt for pt, n in find(fn, "range->%s_point = edit->start_point" % end)]
        if pts:
            ctx.ok("W2", "ts_range_edit:%s-point-follows" % end, "the point of the range %s is clamped together with its byte" % end)
        else:
            ctx.bad("W2", "ts_range_edit:%s-point-follows" % end, "the point of the range %s is no longer clamped together with its byte" % end)


def rule_geometry(ctx, F):
    """P3: which of the three reshaping cases applies to a node, and which child receives the
    inserted text, is decided by position tests only; each store into padding/size and each rewrite
    of the edit for later children is reachable only under its own case."""
    fn = ctx.need_fn(F, "ts_subtree_edit", "P3")
    if not fn:
        return
    shift = [pt for pt, n in find(fn, "padding = length_add(edit.new_end, length_sub(padding, edit.old_end))")]
    shrink_p = [pt for pt, n in find(fn, "padding = edit.new_end")]
    shrink_s = [pt for pt, n in find(fn, "size = length_saturating_sub(size, length_sub(edit.old_end, padding))")]
    resize = [pt for pt, n in find(fn, "size = length_add(length_sub(edit.new_end, padding), length_saturating_sub(total_size, edit.old_end))")]
    for nm, pts in (("shift of the padding", shift), ("shrink: new padding", shrink_p), ("shrink: new size", shrink_s), ("resize", resize)):
        if len(pts) != 1:
            ctx.bad("P3", "ts_subtree_edit:geometry:%s" % nm, "expected exactly one store for the %s case in ts_subtree_edit, found %d" % (nm, len(pts)))
            return
    ctx.gate("P3", fn, shift, [("an edit entirely inside the padding only shifts the node", "edit.old_end.bytes <= padding.bytes", True)], accept_desc="shifting the padding")
    ctx.gate("P3", fn, shrink_p + shrink_s, [("an edit that starts in the padding and reaches into the node shrinks it", "edit.start.bytes < padding.bytes", True),
                                            ("…and is not entirely inside the padding", "edit.old_end.bytes <= padding.bytes", False)], accept_desc="shrinking the node")
    ctx.before("P3", "ts_subtree_edit:shrink-uses-old-padding", fn, shrink_p, shrink_s, "the shrunken size is computed from the old padding before the padding is replaced")
    ctx.gate("P3", fn, resize, [("an edit inside the node (or an insertion at its end) resizes it", [("edit.start.bytes < total_size.bytes", True), ("edit.start.bytes == total_size.bytes", True)]),
                                ("…an edit merely touching the end resizes only if it is a pure insertion", [("edit.start.bytes < total_size.bytes", True), ("is_pure_insertion", True)]),
                                ("…and does not start in the padding", "edit.start.bytes < padding.bytes", False)], accept_desc="resizing the node")
    # a node is left unmarked only if the edit lies strictly beyond everything the lexer looked at for it
    conts = sorted((b.id for b in fn.blocks.values() if b.term.get("cls") == "ContinueStmt"), key=lambda i: (fn.blocks[i].term.get("loc") or {}).get("l", 0))
    bind(fn, "end_byte", "_.bytes + _")          # whatever the local is called today (rule_subtree_edit binds it too; this rule also runs alone under C02)
    d = [x for i in fn.ids_named("end_byte") for x in fn.defs(i) if x is not None and x.get("k") != "uninit"]
    if conts and d and M(fn).match("total_size.bytes + lookahead_bytes", d[0]):
        skip_blk = conts[0]
        ctx.ok("P3", "ts_subtree_edit:end-includes-lookahead", "a node's reach is its total size plus its look-ahead bytes")
        ctx.gate("P3", fn, [], [("a node is skipped (not marked) only if the edit starts beyond its reach, or is a no-op exactly at it",
                                 [("edit.start.bytes > end_byte", True), ("edit.start.bytes == end_byte", True)]),
                                ("…the `exactly at` case only for a no-op edit", [("edit.start.bytes > end_byte", True), ("is_noop", True)])],
                 accept_desc="skipping the node", accept_edge=lambda bid, e, B=skip_blk: e.to == B)
    else:
        ctx.bad("P3", "ts_subtree_edit:end-includes-lookahead", "ts_subtree_edit no longer computes a node's reach as total_size.bytes + lookahead_bytes before deciding to skip it")
    first = [pt for pt, n in find(fn, "edit.new_end = edit.start")]
    later = [pt for pt, n in find(fn, "child_edit.old_end = child_edit.start")] + [pt for pt, n in find(fn, "child_edit.new_end = child_edit.start")]
    ctx.floor("rewrites of the edit for later children", len(first) + len(later), 3)
    ctx.gate("P3", fn, first, [("inserted text goes to the first child that reaches past the edit start", [("child_right.bytes > edit.start.bytes", True), ("child_right.bytes == edit.start.bytes", True)]),
                               ("…a child merely ending at the edit start takes it only for a pure insertion", [("child_right.bytes > edit.start.bytes", True), ("is_pure_insertion", True)])],
             accept_desc="consuming the inserted text")
    ctx.gate("P3", fn, later, [("a child lying before the edit start is not reshaped", "child_right.bytes > edit.start.bytes", False)], accept_desc="neutralising the child's edit")


def rule_length_helpers(ctx, F):
    """P4: the position arithmetic the edit relies on.  length_saturating_sub yields the zero length
    (bytes *and* row/column) unless the minuend is larger; point_add carries a column only within a row;
    point_sub drops the subtrahend's column when the rows differ."""
    fn = ctx.need_fn(F, "length_saturating_sub", "P4")
    if fn:
        sub = [pt for pt, e in fn.points() if e.get("k") == "ret" and callee_name(strip(e["e"])) == "length_sub"]
        zero = [pt for pt, e in fn.points() if e.get("k") == "ret" and callee_name(strip(e["e"])) == "length_zero"]
        if not sub or not zero:
            ctx.bad("P4", "length_saturating_sub:saturates", "length_saturating_sub no longer has both outcomes (the difference / the zero length): when the minuend is not larger, a stray column survives "
                    "and every later node on that row reports a wrong column after an edit")
        else:
            ctx.gate("P4", fn, sub, [("the difference is taken only when the minuend is larger", "len1.bytes > len2.bytes", True)], accept_desc="returning the difference")
    fn = ctx.need_fn(F, "point_sub", "P4")
    if fn:
        keep = [pt for pt, e in fn.points() if e.get("k") == "ret" and M(fn).match("point__new(a.row - b.row, a.column)", strip(e["e"]))]
        same = [pt for pt, e in fn.points() if e.get("k") == "ret" and pt not in keep]
        if keep and same:
            ctx.gate("P4", fn, keep, [("across rows the column of the minuend is kept", "a.row > b.row", True)], accept_desc="keeping the column")
            ctx.gate("P4", fn, same, [("within a row (or backwards) columns are subtracted with saturation", "a.row > b.row", False)], accept_desc="subtracting columns")
        else:
            ctx.bad("P4", "point_sub:two-cases", "point_sub no longer distinguishes `a.row > b.row` (keep a.column) from the same-row case")
    fn = ctx.need_fn(F, "point_add", "P4")
    if fn:
        r1 = [pt for pt, e in fn.points() if e.get("k") == "ret" and M(fn).match("point__new(a.row + b.row, b.column)", strip(e["e"]))]
        r2 = [pt for pt, e in fn.points() if e.get("k") == "ret" and M(fn).match("point__new(a.row, a.column + b.column)", strip(e["e"]))]
        if r1 and r2:
            ctx.gate("P4", fn, r1, [("adding rows restarts the column", "b.row > 0", True)], accept_desc="taking b's column")
            ctx.gate("P4", fn, r2, [("columns add up only within one row", "b.row > 0", False)], accept_desc="adding columns")
        else:
            ctx.bad("P4", "point_add:two-cases", "point_add no longer has the two cases (b.row > 0 → b.column, else a.column + b.column)")


def rule_parent_reach(ctx, F):
    """P5: a parent's look-ahead is the furthest reach of any of its children, not of the last one.  The edit marks a
    node (and descends into it) only if the edit starts within `end + lookahead_bytes`; a token that looked far past its
    end while lexing may be followed by short siblings inside the same parent.  ts_subtree_summarize_children therefore
    keeps a running maximum of `position + size + lookahead_bytes(child)` over *all* children and stores its distance from
    the parent's end."""
    from cstores import stores, writes_record
    fn = ctx.need_fn(F, "ts_subtree_summarize_children", "P5")
    if not fn:
        return
    key = "summarize_children:lookahead-is-max-over-children"
    sts = [(pt, n) for pt, n, l, op in stores(fn) if writes_record(l, "SubtreeHeapData") == "lookahead_bytes"]
    final = [(pt, n) for pt, n in sts if not (strip(n.get("r") or {}).get("k") == "int")]
    if not final:
        ctx.bad("P5", key, "ts_subtree_summarize_children no longer computes the parent's lookahead_bytes")
        return
    fn.defs(0)
    ok = False
    why = "the stored value `%s` is not derived from a running maximum over the children" % show(final[-1][1].get("r"))[:70]
    for pt, n in final:
        acc = [x for x in walk(n["r"]) if x.get("k") == "ref" and x.get("dk") == "local"]
        for a in acc:
            # the accumulator: assigned from another local under `that local > accumulator`
            ups = [(p2, y) for p2, e in fn.points() for y in own_walk(e) if y.get("k") == "assign" and y.get("op") == "=" and strip(y["l"]).get("k") == "ref" and strip(y["l"]).get("id") == a["id"] and strip(y["r"]).get("k") == "ref"]
            for p2, y in ups:
                src = strip(y["r"])
                d = fn.single_def(src["id"])
                if d is None or "ts_subtree_lookahead_bytes(" not in show(d):
                    continue
                mon_ok = True
                from flow import GateMonitor
                g = GateMonitor([p2], [("%s > %s" % (src["name"], a["name"]), True), ("%s < %s" % (a["name"], src["name"]), True), ("%s >= %s" % (src["name"], a["name"]), True)], None, ())
                g.label = "max"
                if Search(fn, g).run(0) is None:
                    ok = True
    if ok:
        ctx.ok("P5", key, "the parent's lookahead_bytes is the running maximum of every child's end + look-ahead, measured from the parent's end")
    else:
        ctx.bad("P5", key, "ts_subtree_summarize_children: %s — a child that looked far ahead but is not the last child no longer widens its parent's look-ahead, the edit skips the parent, "
                "and the stale token inside it is reused" % why)


def run(ctx):
    for cfg in configs(ctx):
        ctx.config = cfg
        F = ctx.extract.cfacts(cfg)
        ctx.analysed["c_functions_" + cfg] = len(F.fn_list)
        rule_tree_edit(ctx, F)
        rule_subtree_edit(ctx, F)
        rule_node_edit(ctx, F)
        rule_range_edit(ctx, F)
        rule_geometry(ctx, F)
        rule_length_helpers(ctx, F)
        rule_parent_reach(ctx, F)
    try:
        import rsrules
        rsrules.c10_rust(ctx)
    except ImportError:
        pass
    return ctx.finish(
        "Ordering/gate/field-coverage rules over subtree.c, tree.c, point.c, node.c: every node on the edited path is marked and written back; a child is skipped only "
        "by the look-ahead-aware or starts-after tests (with both column-dependence escapes); inline leaves are promoted with all fields when they no longer fit; "
        "ts_tree_edit edits every stored range; each reshaping case (shift / shrink / resize, first-touching child takes the insertion) is entered only under its own position tests. "
        "Does not decide the length arithmetic inside a case.")
