"""C13 — parsing included ranges equals parsing their concatenation: validation, recording and the
range-boundary wiring of the lexer (DESIGN.md §4 C13).

Decides: the setter copies a list only after every element passed the two ordering tests (against
the previous element's end); the tree records the ranges it was parsed with and reports exactly
those; a token that ends at a range start is reported as ending at the previous range's end and the
lexer jumps from a range's end to the next range's start.  Does not decide tree equality.
"""
from common import *  # noqa: F401,F403
from cstores import stores, writes_record


def rule_g1(ctx, F):
    fn = ctx.need_fn(F, "ts_lexer_set_included_ranges", "G1")
    if not fn:
        return
    copy = [pt for pt, n in find(fn, "memcpy(self->included_ranges, ranges, _)")]
    upd = [pt for pt, n in find(fn, "previous_byte = range->end_byte")]
    ctx.floor("copy of the validated list", len(copy), 1)
    ctx.floor("previous_byte update", len(upd), 1)
    ctx.gate("G1", fn, copy, [
        ("the whole list was examined (or the list is empty/NULL → default range)", [("count = 1", "stmt"), ("i < count", False)]),
    ], accept_desc="copying the ranges into the lexer")
    ctx.before("G1", "ts_lexer_set_included_ranges:default-range", fn, [pt for pt, n in find(fn, "count = 1")], [pt for pt, n in find(fn, "ranges = &DEFAULT_RANGE")],
               "the only unvalidated list is the built-in whole-document range")
    ctx.gate("G1", fn, [pt for pt, n in find(fn, "ranges = &DEFAULT_RANGE")], [("default range only for an empty or NULL list", [("count == 0", True), ("ranges", False)])], accept_desc="selecting the default range")
    ctx.gate("G1", fn, upd, [
        ("range starts at or after the previous range's end", "range->start_byte < previous_byte", False),
        ("range does not end before it starts", "range->end_byte < range->start_byte", False),
    ], accept_desc="accepting element i")
    # every element — empty ranges included — passes both ordering tests before the loop moves on to the next one
    from flow import GateMonitor, Search as _Search
    from C06 import incs
    step = incs(fn, "i")
    rid = set(fn.ids_named("range")) | set(fn.ids_named("i"))
    if step:
        for label, pat in (("every element starts at or after the previous element's end", "range->start_byte < previous_byte"), ("every element ends at or after its start", "range->end_byte < range->start_byte")):
            mon = GateMonitor(step, [(pat, False)], None, (), kill_fn=lambda src: set(fn.ids_named("range")))
            mon.label = label
            sr = _Search(fn, mon)
            v = sr.run(0)
            key = "ts_lexer_set_included_ranges:" + label
            if v is None:
                ctx.ok("G1", key, "the loop advances to the next range only after `%s` was found false for the current one" % pat)
            else:
                ctx.bad("G1", key, "ts_lexer_set_included_ranges moves on to the next range without `%s` having been tested (false) for the current one: some lists that are not ordered / "
                        "non-overlapping are accepted and every tree then reports them" % pat, {"path": sr.render_path(v.path)[-5:]})
    else:
        ctx.bad("G1", "ts_lexer_set_included_ranges:loop-step", "the validation loop's `i++` was not found")
    # loop shape: i from 0 by 1, range = &ranges[i], previous_byte from 0
    ids = fn.ids_named("i")
    ds = [d for i in ids for d in fn.defs(i)]
    ok_i = len(ds) == 2 and any(d is None for d in ds) and any(d is not None and strip(d).get("v") == 0 for d in ds)
    r = fn.ids_named("range")
    dr = fn.single_def(r[0]) if r else None
    ok_r = dr is not None and M(fn).match("&ranges[i]", dr)
    pb = fn.ids_named("previous_byte")
    dp = [d for i in pb for d in fn.defs(i)]
    ok_p = len(dp) == 2 and any(d is not None and strip(d).get("v") == 0 for d in dp)
    if ok_i and ok_r and ok_p:
        ctx.ok("G1", "ts_lexer_set_included_ranges:loop-shape", "i runs from 0 in steps of one, range = &ranges[i], previous_byte starts at 0 and is only set to the accepted range's end")
    else:
        ctx.bad("G1", "ts_lexer_set_included_ranges:loop-shape", "validation loop no longer visits every element in order (i: %s, range: %s, previous_byte: %s)" % (ok_i, ok_r, ok_p))
    rets_true = [pt for pt, e in fn.points() if e.get("k") == "ret" and strip(e["e"]).get("v") == 1]
    ctx.before("G1", "ts_lexer_set_included_ranges:true-only-after-copy", fn, rets_true, copy, "`return true` only after the list was installed")
    cnt = [pt for pt, n in find(fn, "self->included_range_count = count")]
    ctx.before("G1", "ts_lexer_set_included_ranges:count-installed", fn, rets_true, cnt, "the count is installed with the list")
    g = ctx.need_fn(F, "ts_parser_set_included_ranges", "G1")
    if g:
        r = [e for pt, e in g.points() if e.get("k") == "ret"]
        calls_ = [pt for pt, n in find(g, "ts_lexer_set_included_ranges(&self->lexer, ranges, count)")]
        falses = [pt for pt, e in g.points() if e.get("k") == "ret" and strip(e["e"]).get("k") == "int" and strip(e["e"]).get("v") == 0]
        trues = [pt for pt, e in g.points() if e.get("k") == "ret" and strip(e["e"]).get("k") == "int" and strip(e["e"]).get("v") == 1]
        if len(r) == 1 and M(g).match("ts_lexer_set_included_ranges(&self->lexer, ranges, count)", r[0]["e"]):
            ctx.ok("G1", "ts_parser_set_included_ranges:delegates", "the public setter returns the lexer's verdict")
        elif calls_ and len(r) == len(falses) + len(trues) and trues:
            # spelled out: `if (!ts_lexer_set_included_ranges(..)) return false; …; return true;`
            ctx.gate("G1", g, trues, [("the setter answers true only if the lexer accepted the list", "ts_lexer_set_included_ranges(&self->lexer, ranges, count)", True)], accept_desc="returning true")
            ctx.gate("G1", g, falses, [("…and false only if it refused", "ts_lexer_set_included_ranges(&self->lexer, ranges, count)", False)], accept_desc="returning false")
        else:
            ctx.bad("G1", "ts_parser_set_included_ranges:delegates", "ts_parser_set_included_ranges no longer returns ts_lexer_set_included_ranges(&self->lexer, ranges, count)")


DIFFERENCE_WRITERS = {
    "ts_parser_new": "initialises the empty list",
    "ts_parser_delete": "frees it",
    "ts_parser_parse": "computes the differences between the old tree's ranges and the lexer's when a parse starts (not when it resumes)",
}


def rule_w3(ctx, F):
    """W3: the range differences of a parse in progress belong to that parse.  ts_parser_parse computes them once, when a
    parse with an old tree starts; a suspended parse that is resumed still needs them to refuse old nodes that overlap
    text newly included or excluded.  Only ts_parser_new / _delete / _parse write the list or its cursor — in particular
    the range setter, which embedders call before *every* parse call, leaves them alone."""
    from cstores import stores
    def touches(e):
        # the lvalue / argument denotes (part of) TSParser.included_range_differences or .included_range_difference_index,
        # whatever the parser pointer is called
        return any(x.get("k") == "mem" and x.get("rec") == "TSParser" and str(x.get("f", "")).startswith("included_range_difference") for x in walk(e))
    seen = {}
    for fn in F.fn_list:
        n = 0
        for pt, node, l, op in stores(fn):
            if touches(l):
                n += 1
        for pt, c in fn.calls():
            if callee_name(c) in ("ts_range_array_intersects",):
                continue
            for a in c.get("a", []):
                a = strip(a)
                if a.get("k") == "un" and a.get("op") == "&" and touches(a):
                    n += 1
        if n:
            seen[fn.name] = n
    ctx.floor("functions writing the parser's range differences", len(seen), 3)
    for name, n in sorted(seen.items()):
        if name in DIFFERENCE_WRITERS:
            ctx.ok("W3", "included_range_differences:writer:" + name, "%s %s (%d write(s))" % (name, DIFFERENCE_WRITERS[name], n), nontrivial=False)
        else:
            ctx.bad("W3", "included_range_differences:writer:" + name, "%s writes the parser's included_range_differences / its index (%d write(s)); it is not one of %s: a suspended incremental parse that is resumed "
                    "afterwards reuses old nodes over text whose inclusion changed" % (name, n, sorted(DIFFERENCE_WRITERS)), {"function": name})


def rule_w1(ctx, F):
    fn = ctx.need_fn(F, "ts_parser_parse", "W1")
    if fn:
        c = find(fn, "ts_tree_new(self->finished_tree, self->language, self->lexer.included_ranges, self->lexer.included_range_count)")
        allc = find(fn, "ts_tree_new(...)")
        if len(c) == 1 and len(allc) == 1:
            ctx.ok("W1", "ts_parser_parse:tree-records-lexer-ranges", "the tree is created with the lexer's current included ranges", sample={"site": fn.loc(c[0][0])})
        else:
            ctx.bad("W1", "ts_parser_parse:tree-records-lexer-ranges", "ts_parser_parse must create the tree with self->lexer.included_ranges / included_range_count")
    fn = ctx.need_fn(F, "ts_tree_new", "W1")
    if fn:
        okk = find(fn, "memcpy(result->included_ranges, included_ranges, included_range_count * 24)") and find(fn, "result->included_range_count = included_range_count") \
            and find(fn, "result->included_ranges = _")
        if okk:
            ctx.ok("W1", "ts_tree_new:copies-all-ranges", "ts_tree_new copies exactly included_range_count ranges and stores the count")
        else:
            ctx.bad("W1", "ts_tree_new:copies-all-ranges", "ts_tree_new no longer copies included_range_count ranges and records the count")
    fn = ctx.need_fn(F, "ts_tree_included_ranges", "W1")
    if fn:
        okk = find(fn, "memcpy(_, self->included_ranges, self->included_range_count * 24)") and find(fn, "*length = self->included_range_count")
        if okk:
            ctx.ok("W1", "ts_tree_included_ranges:reports-all", "ts_tree_included_ranges reports the stored count and copies that many ranges")
        else:
            ctx.bad("W1", "ts_tree_included_ranges:reports-all", "ts_tree_included_ranges no longer reports exactly the stored ranges")


def rule_p1(ctx, F):
    fn = ctx.need_fn(F, "ts_lexer__mark_end", "P1")
    if fn:
        prev = [pt for pt, n, l, op in stores(fn) if writes_record(l, "Lexer") == "token_end_position" and "previous_included_range" in show(n)]
        cur = [pt for pt, n in find(fn, "self->token_end_position = self->current_position")]
        ctx.floor("token end set to previous range's end", len(prev), 1)
        ctx.gate("P1", fn, cur, [("a token ending exactly at the start of a later range ends at the previous range's end instead",
                                  [("ts_lexer__eof(&self->data)", True), ("self->current_included_range_index > 0", False),
                                   ("self->current_position.bytes == (&self->included_ranges[self->current_included_range_index])->start_byte", False),
                                   # …unless no earlier range contains any text (then there is no earlier end to fall back to)
                                   ("previous_included_range->end_byte > previous_included_range->start_byte", False)])],
                 accept_desc="token_end_position = current_position")
        ctx.gate("P1", fn, prev, [("only for a range other than the first", "self->current_included_range_index > 0", True),
                                  ("the range whose end is used contains text (an empty range lies anywhere; the token ends where the text before it ends)",
                                   [("previous_included_range->end_byte > previous_included_range->start_byte", True), ("previous_included_range->end_byte == previous_included_range->start_byte", False)])],
                 accept_desc="using the previous range's end")
    fn = ctx.need_fn(F, "ts_lexer__do_advance", "P1")
    if fn:
        jump = [pt for pt, n, l, op in stores(fn) if writes_record(l, "Lexer") == "current_position" and "start_byte" in show(n)]
        ctx.floor("jump to next range start", len(jump), 1)
        ctx.gate("P1", fn, jump, [("there is a next range", "self->current_included_range_index < self->included_range_count", True),
                                  ("the position moves only into a range that contains text",
                                   [("current_range->end_byte > current_range->start_byte", True), ("current_range->end_byte == current_range->start_byte", False)])],
                 accept_desc="jumping to the next range's start")
        look = [pt for pt, n in find(fn, "ts_lexer__get_lookahead(self)")]
        ctx.gate("P1", fn, look, [("position is inside the current range",
                                   [("self->current_position.bytes >= current_range->end_byte", False)]), ("a current range exists", "current_range", True),
                                  ("the current range is not empty", "current_range->end_byte == current_range->start_byte", False)],
                 accept_desc="reading the next character")
    fn = ctx.need_fn(F, "ts_lexer_finish", "P1")
    if fn:
        clamp = [pt for pt, n in find(fn, "self->token_start_position = self->token_end_position")]
        ctx.floor("token start clamp", len(clamp), 1)
        ctx.gate("P1", fn, clamp, [("only when the end was moved back before the start", "self->token_end_position.bytes < self->token_start_position.bytes", True)], accept_desc="clamping the token start")
    fn = ctx.need_fn(F, "ts_lexer_goto", "P1")
    if fn:
        ir = bind(fn, "included_range", "&self->included_ranges[i]")
        mv = [pt for pt, n, l, op in stores(fn) if writes_record(l, "Lexer") == "current_position" and (ir + "->start") in show(n)]
        ctx.floor("goto snaps forward to a range start", len(mv), 1)
        ctx.gate("P1", fn, mv, [("only when the range starts at/after the requested position", "included_range->start_byte >= self->current_position.bytes", True),
                                ("range ends after the position", "included_range->end_byte > self->current_position.bytes", True)], accept_desc="snapping to the range start")
        sel = [pt for pt, n in find(fn, "self->current_included_range_index = i")]
        ctx.floor("range selection in ts_lexer_goto", len(sel), 1)
        ctx.gate("P1", fn, sel, [("a seek never selects an empty range (the lexer would read the excluded character at its offset)", "included_range->end_byte > included_range->start_byte", True),
                                 ("a seek selects a range that ends after the position", "included_range->end_byte > self->current_position.bytes", True)], accept_desc="selecting included range i")


# who may move the start of the token being lexed, and under which licence
TOKEN_START_WRITERS = {
    "ts_lexer_start": None,                                          # a new token starts at the current position
    "ts_lexer__do_advance": [("skip", True)],                        # skipped characters precede the token
    "ts_lexer__advance": [("skip", True)],
    "ts_lexer_finish": [("self->token_end_position.bytes < self->token_start_position.bytes", True)],   # final clamp, once per token
}


def rule_w2(ctx, F):
    """W2: the start of a token moves only forward over skipped characters (or is clamped once, in ts_lexer_finish).
    mark_end may be called several times per token: if it also pulled the start back to the previous range's end, a later
    mark_end would move the end forward again and the token would span the excluded gap between the two ranges."""
    n = 0
    for fn in F.fn_list:
        if not fn.file.startswith("lib/src") or not fn.blocks:
            continue
        sts = [pt for pt, x, l, op in stores(fn) if writes_record(l, "Lexer") == "token_start_position"]
        if not sts:
            continue
        n += len(sts)
        if fn.name not in TOKEN_START_WRITERS:
            ctx.bad("W2", "Lexer.token_start_position:writer:" + fn.name, "%s stores to Lexer.token_start_position (%s); the token start may only be set by ts_lexer_start, moved over skipped characters "
                    "by the advance functions, or clamped by ts_lexer_finish — an external scanner that calls mark_end twice would get a token spanning excluded text" % (fn.name, fn.loc(sts[0])))
        elif TOKEN_START_WRITERS[fn.name] is None:
            ctx.ok("W2", "Lexer.token_start_position:writer:" + fn.name, "tabled writer (token start := current position when a token begins)", nontrivial=False)
        else:
            ctx.gate("W2", fn, sts, [("the token start moves only under its licence", TOKEN_START_WRITERS[fn.name])], accept_desc="moving the token start")
    ctx.floor("stores to Lexer.token_start_position", n, 4)


def rule_progress(ctx, F):
    """P2: an external token that ends *at or before* the position where lexing started made no progress.  At a seam
    between two included ranges the lexer is moved to the next range's start and mark_end pulls a zero-width token's end
    back to the previous range's end — strictly before the start position.  ts_parser__lex accepts an external token only
    if it ends after that position, or the scanner's state changed, or it is one of the empty tokens that are allowed
    (not in error recovery, the stack advanced since the last error, not an extra); otherwise the ranged parse loops for
    ever where the parse of the concatenation terminates."""
    fn = ctx.need_fn(F, "ts_parser__lex", "P2")
    if not fn:
        return
    # the flag that says "the token came from the external scanner": the bool local that ts_parser__lex hands to
    # ts_subtree_new_leaf (found by that use, not by its name); accepting a scanner token is setting it
    flags = set()
    leaf = F.fns.get("ts_subtree_new_leaf")
    pos = [i for i, p in enumerate(leaf.params) if p["name"] == "has_external_tokens"] if leaf else []
    for pt, c in fn.calls():
        if callee_name(c) == "ts_subtree_new_leaf":
            for i in pos:
                a = strip(c["a"][i]) if i < len(c.get("a", [])) else {}
                if a.get("k") == "ref" and a.get("dk") == "local":
                    flags.add(a.get("id"))
    acc = []
    for pt, e in fn.points():
        for n in own_walk(e):
            if n.get("k") == "assign" and n.get("op") == "=" and strip(n["l"]).get("k") == "ref" and strip(n["l"]).get("id") in flags and strip(n["r"]).get("k") == "int" and strip(n["r"]).get("v") == 1:
                acc.append(pt)
    if not acc:
        ctx.bad("P2", "ts_parser__lex:external-token-progress", "ts_parser__lex no longer records an accepted external token")
        return
    ctx.gate("P2", fn, acc, [("an accepted external token made progress, changed the scanner state, or is an allowed empty token",
                             [("self->lexer.token_end_position.bytes <= current_position.bytes", False), ("self->lexer.token_end_position.bytes > current_position.bytes", True),
                              ("external_scanner_state_changed", True), ("token_is_extra", False)])],
             accept_desc="accepting the external scanner's token")


def run(ctx):
    for cfg in configs(ctx):
        ctx.config = cfg
        F = ctx.extract.cfacts(cfg)
        ctx.analysed["c_functions_" + cfg] = len(F.fn_list)
        rule_g1(ctx, F)
        rule_w1(ctx, F)
        rule_p1(ctx, F)
        rule_w2(ctx, F)
        rule_w3(ctx, F)
        rule_progress(ctx, F)
        # the included-range difference that invalidates reuse of newly excluded / included text (shared with C04)
        import C04
        C04.rule_p1(ctx, F)
        # …and the reuse veto for the old EOF token must look to the end of the file (shared with C01.P6)
        import C01
        C01.rule_saturation(ctx, F)
        C01.rule_window_start(ctx, F)
    rust_half(ctx)
    return ctx.finish(
        "Gate and wiring rules over lexer.c/tree.c/parser.c (+ the Rust setter): a range list is installed only after every element passed both ordering tests; "
        "trees record and report exactly the lexer's ranges; tokens ending at a range start end at the previous range's end; the lexer only reads inside ranges. "
        "Does not decide equality with the concatenation parse.")


def rust_half(ctx):
    try:
        import rsrules
    except ImportError:
        return
    rsrules.c13_rust(ctx)
