"""C14 — lexer disambiguation rules: the keyword-extraction clause only (DESIGN.md §4 C14).

The precedence / longest-match / literal-over-pattern / definition-order clauses are properties of
the generated DFA's contents and are NOT decided.  The clause "with a word token declared, a keyword
is recognised only when the whole word equals it" rests on three gates, which are decided here:
the runtime's keyword re-lex (G1), the runtime's fall-back to the word token (G2), and the
generator's keyword identification (G3, Rust).
"""
from common import *  # noqa: F401,F403


def rule_g1(ctx, F):
    fn = ctx.need_fn(F, "ts_parser__lex", "G1")
    if not fn:
        return
    bind(fn, "symbol", "self->lexer.data.result_symbol")
    bind(fn, "is_keyword", "ts_parser__call_keyword_lex_fn(self)")
    acc = [pt for pt, n in find(fn, "symbol = self->lexer.data.result_symbol")]
    ctx.floor("keyword replaces word token (store)", len(acc), 1)
    ctx.gate("G1", fn, acc, [
        ("the keyword lexer accepted", "is_keyword", True),
        ("the keyword covers the whole word (same end byte as the word token)", "self->lexer.token_end_position.bytes == end_byte", True),
        ("the keyword is usable in this state", [("ts_language_has_actions(self->language, parse_state, self->lexer.data.result_symbol)", True),
                                                   ("ts_language_is_reserved_word(self->language, parse_state, self->lexer.data.result_symbol)", True)]),
        ("only the word token is re-lexed as a keyword", "symbol == self->language->keyword_capture_token", True),
        ("a word token is declared", "symbol != 0", True),
        ("not an external token", "found_external_token", False),
    ], accept_desc="replacing the word token by a keyword")
    kw = [pt for pt, n in find(fn, "is_keyword = ts_parser__call_keyword_lex_fn(self)")]
    ctx.before("G1", "ts_parser__lex:is_keyword-is-keyword-lexer-result", fn, acc, kw, "`is_keyword` tested is the keyword lexer's verdict")
    endb = [pt for pt, e in fn.points() if e.get("k") == "decl" and e["name"] == bind(fn, "end_byte", "self->lexer.token_end_position.bytes") and M(fn).match("self->lexer.token_end_position.bytes", e.get("init") or {})]
    resets = [pt for pt, n in find(fn, "ts_lexer_reset(&self->lexer, self->lexer.token_start_position)")]
    starts = [pt for pt, n in find(fn, "ts_lexer_start(&self->lexer)")]
    dom = dominators(fn)
    kreset = [p for p in resets if endb and dominates_pt(fn, dom, endb[0], p)]
    kstart = [p for p in starts if kreset and dominates_pt(fn, dom, kreset[0], p)]
    if not (endb and kreset and kstart and kw):
        ctx.bad("G1", "ts_parser__lex:keyword-relex-anchors", "keyword re-lex sequence not found (end_byte %d, reset %d, start %d, keyword call %d)" % (len(endb), len(kreset), len(kstart), len(kw)))
        return
    ctx.before("G1", "ts_parser__lex:word-end-taken-before-rewind", fn, kreset, endb, "the word token's end byte is recorded before the lexer is rewound")
    ctx.before("G1", "ts_parser__lex:rewound-to-word-start", fn, kw, kreset, "the keyword lexer starts at the word token's start position")
    ctx.before("G1", "ts_parser__lex:token-restarted", fn, kw, kstart, "ts_lexer_start runs between the rewind and the keyword lexer")


def rule_g2(ctx, F):
    fn = ctx.need_fn(F, "ts_parser__advance", "G2")
    if not fn:
        return
    acc = [pt for pt, n in find(fn, "ts_subtree_set_symbol(&mutable_lookahead, self->language->keyword_capture_token, self->language)")]
    ctx.floor("keyword → word-token relabel", len(acc), 1)
    ctx.gate("G2", fn, acc, [
        ("the lookahead was lexed as a keyword", "ts_subtree_is_keyword(lookahead)", True),
        ("it is not already the word token", "ts_subtree_symbol(lookahead) != self->language->keyword_capture_token", True),
        ("the keyword is not reserved in this state", "ts_language_is_reserved_word(self->language, state, ts_subtree_symbol(lookahead))", False),
        ("the word token is valid in this state", "table_entry.action_count > 0", True),
    ], accept_desc="relabelling a keyword as the word token")
    te = [pt for pt, n in find(fn, "ts_language_table_entry(self->language, state, self->language->keyword_capture_token, &table_entry)")]
    ctx.before("G2", "ts_parser__advance:entry-is-for-word-token", fn, acc, te, "the table entry tested is the word token's entry in the current state")
    mk = [pt for pt, e in fn.points() if e.get("k") == "decl" and e["name"] == bind(fn, "mutable_lookahead", "ts_subtree_make_mut(&self->tree_pool, lookahead)") and M(fn).match("ts_subtree_make_mut(&self->tree_pool, lookahead)", e.get("init") or {})]
    ctx.before("G2", "ts_parser__advance:relabel-on-private-copy", fn, acc, mk, "the token is made exclusively owned before its symbol is changed")


def run(ctx):
    for cfg in configs(ctx):
        ctx.config = cfg
        F = ctx.extract.cfacts(cfg)
        ctx.analysed["c_functions_" + cfg] = len(F.fn_list)
        rule_g1(ctx, F)
        rule_g2(ctx, F)
    try:
        import rsrules
        rsrules.c14_rust(ctx)
    except ImportError:
        pass
    return ctx.finish(
        "Gate rules for the keyword-extraction clause only: the runtime replaces the word token by a keyword only if the keyword lexer, restarted at the word's start, "
        "accepts and ends at the word's end; it falls back to the word token only for non-reserved keywords where the word token has an action; the generator's keyword "
        "identification keeps a token only if it matches the word rule's strings and nothing else conflicts. The precedence/longest-match/ordering clauses are not decided.")
