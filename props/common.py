"""Shared imports/helpers for the per-property rule tables."""
from facts import Facts, walk, own_walk, strip, show, kids, callee_name  # noqa: F401
from pat import M, parse, find  # noqa: F401
from flow import Search, Monitor, GateMonitor, BeforeMonitor, AfterMonitor, Viol, PRUNE, dominators, dominates_pt, reachable_blocks  # noqa: F401


def configs(ctx):
    """C configurations analysed per tier: A = build.rs flags, B = +NDEBUG, C = +big-endian layout."""
    return ["A", "B"] if ctx.tier == "quick" else ["A", "B", "C"]


def conjuncts(e):
    e = strip(e)
    if e.get("k") == "bin" and e["op"] == "&&":
        return conjuncts(e["l"]) + conjuncts(e["r"])
    return [e]


def disjuncts(e):
    e = strip(e)
    if e.get("k") == "bin" and e["op"] == "||":
        return disjuncts(e["l"]) + disjuncts(e["r"])
    return [e]


def bind(fn, name, init_pat):
    """Renamed-local tolerance for rules that look a local up by name: if no local `name` exists,
    the local whose definition matches `init_pat` takes its place (committed for the function)."""
    if fn is None:
        return name
    fn.defs(0)
    if name in getattr(fn, "_renames", {}):
        return fn._renames[name]
    m = M(fn)
    m0 = M(fn, inline=False)
    if name in fn._names.values():
        # the name exists — but is it the variable the tables mean?  (a macro may declare a local of
        # the same spelling.)  Keep it if one of its own definitions has the expected shape.
        for i in fn.ids_named(name):
            for d in fn.defs(i):
                if isinstance(d, dict) and d.get("k") not in ("uninit", "param") and m0.match(init_pat, d):
                    return name
        if not any(isinstance(d, dict) and d.get("k") not in ("uninit", "param") for i in fn.ids_named(name) for d in fn.defs(i)):
            return name
    found = None
    for want_decl in (True, False):          # declarations first, then plain assignments (matched without local inlining)
        for pt, e in sorted(fn.points(), reverse=True):
            for n in own_walk(e):
                tgt = None
                if want_decl and n.get("k") == "decl" and n.get("init") is not None and m.match(init_pat, n["init"]):
                    tgt = n["name"]
                elif not want_decl and n.get("k") == "assign" and n["op"] == "=" and strip(n["l"]).get("k") == "ref" and m0.match(init_pat, n["r"]):
                    tgt = strip(n["l"])["name"]
                if tgt and not found:
                    found = tgt
        if found:
            break
    if found and found != name:
        if not hasattr(fn, "_renames"):
            fn._renames = {}
        fn._renames[name] = found
        return found
    return name


def bind_names(fn, mapping):
    """Commit renamed-local bindings found by structural means: {table name: current name}."""
    if fn is None:
        return
    fn.defs(0)
    for want, cur in mapping.items():
        if cur and want != cur and want not in fn._names.values():
            if not hasattr(fn, "_renames"):
                fn._renames = {}
            fn._renames.setdefault(want, cur)


def arg_var(call, i):
    """Name of the variable passed (possibly by address) as argument i of a call node."""
    a = strip(call["a"][i]) if i < len(call.get("a", [])) else {}
    while a.get("k") == "un" and a["op"] in ("&", "*"):
        a = strip(a["e"])
    return a.get("name") if a.get("k") == "ref" else None


def locals_of_type(fn, typ):
    out = []
    for pt, e in sorted(fn.points()):
        for n in own_walk(e):
            if n.get("k") == "decl" and n.get("t") == typ:
                out.append(n["name"])
    return out
