"""Shared imports/helpers for the per-property rule tables."""
from facts import Facts, walk, own_walk, strip, show, kids, callee_name  # noqa: F401
from pat import M, parse, find  # noqa: F401
from flow import Search, Monitor, GateMonitor, BeforeMonitor, AfterMonitor, Viol, PRUNE, dominators, dominates_pt, reachable_blocks  # noqa: F401


def configs(ctx):
    """C configurations analysed per tier: A = build.rs flags, B = +NDEBUG, C = +big-endian layout."""
    return ["A", "B"] if ctx.tier == "quick" else ["A", "B", "C"]


def conjuncts(e):
    e = strip(e)
    if e.get("k") == "bin" and e["op"] == "&&":
        return conjuncts(e["l"]) + conjuncts(e["r"])
    return [e]


def disjuncts(e):
    e = strip(e)
    if e.get("k") == "bin" and e["op"] == "||":
        return disjuncts(e["l"]) + disjuncts(e["r"])
    return [e]
