"""C06 — node and cursor navigation agree (DESIGN.md §4 C06).

Decides: sibling implementations are structurally identical up to the declared substitution
(byte↔point descendant search, child↔named-child field lookup and wrappers); the child iterators
keep the alias/structural-index discipline; cursor entries carry every field; field lookup uses the
same selection test everywhere; tree indices are never narrowed before a comparison.
"""
import os
from common import *  # noqa: F401,F403
import siblings
from cstores import stores, lvalue_chain

INDEX_FIELDS = {"child_index", "structural_child_index", "descendant_index", "child_count", "visible_child_count",
                "named_child_count", "visible_descendant_count"}
CMP = {"<": "point_lt", "<=": "point_lte", ">": "point_gt", "==": "point_eq"}


def narrowing_casts(F):
    out = []
    for fn in F.fn_list:
        for pt, e in fn.points():
            for n in own_walk(e):
                if n.get("k") == "cast" and n.get("tobits") and n.get("frombits") and n["tobits"] < n["frombits"]:
                    o = strip(n["e"])
                    if o.get("k") == "mem" and o["f"] in INDEX_FIELDS:
                        out.append((fn, pt, n, o))
    return out


def rule_w1(ctx, F):
    # is the narrowed value compared? (a narrowed index used as an array subscript etc. would also be wrong, so every site is reported)
    for fn, pt, n, o in narrowing_casts(F):
        ctx.bad("W1", "%s:(%s)%s" % (fn.name, n["to"], o["f"]), "%s: tree index `%s` (%d bits) narrowed to %s before use at %s — wraps for nodes with more than %d children" % (
            fn.name, show(o), n["frombits"], n["to"], fn.loc(pt), 2 ** (n["tobits"] - 1) - 1), {"function": fn.name, "site": fn.loc(pt), "expr": show(n)})
    ctx.ok("W1", "scan", "scanned every explicit integer cast in %d functions for narrowing of %s" % (len(F.fn_list), sorted(INDEX_FIELDS)), nontrivial=True,
           sample={"rule": "no explicit cast narrows a tree index/count field", "functions": len(F.fn_list)})
    # positive fixture keeps the rule live
    fx = ctx.extract.cfacts_file(os.path.join(ctx.extract.VERIF, "fixtures", "c06_w1.c"))
    hits = narrowing_casts(fx)
    if len(hits) == 1:
        ctx.ok("W1", "fixture", "positive fixture fixtures/c06_w1.c is reported (the rule is live)")
    else:
        ctx.bad("W1", "fixture", "positive fixture not reported: the index-width rule has gone blind (%d hits)" % len(hits))


def rule_f1(ctx, F):
    fields = F.record_fields("TreeCursorEntry")
    if not fields:
        ctx.bad("F1", "missing-record:TreeCursorEntry", "record TreeCursorEntry not found")
        return
    expected = ["subtree", "position", "child_index", "structural_child_index", "descendant_index"]
    for f in fields:
        if f not in expected:
            ctx.bad("F1", "UNCLASSIFIED-FIELD:TreeCursorEntry.%s" % f, "TreeCursorEntry has a new field `%s` that the rule table does not classify" % f)
    PRIVATE = {"iterator_new": "private cursor of the changed-range comparison; descendant_index never read there",
               "iterator_descend": "private cursor of the changed-range comparison",
               "iterator_advance": "private cursor of the changed-range comparison"}
    n = 0
    for fn in F.fn_list:
        k = 0
        for pt, e in sorted(fn.points()):
            for x in own_walk(e):
                if x.get("k") == "init" and x.get("t") == "TreeCursorEntry":
                    if x.get("el"):
                        continue
                    n += 1
                    missing = [f["f"] for f in x["fields"] if f.get("implicit")]
                    key = "%s:entry#%d" % (fn.name, k)
                    k += 1
                    sub = [f for f in x["fields"] if f["f"] == "subtree"]
                    if not sub or sub[0].get("implicit") or strip(sub[0]["e"]).get("k") in ("null", "zero") or strip(sub[0]["e"]).get("v") == 0:
                        ctx.ok("F1", key, "zero placeholder (no subtree); overwritten before use", nontrivial=False)
                        continue
                    if fn.name in PRIVATE:
                        if set(missing) <= {"descendant_index"}:
                            ctx.ok("F1", key, "tabled: " + PRIVATE[fn.name])
                        else:
                            ctx.bad("F1", key, "%s builds a cursor entry without %s at %s" % (fn.name, missing, fn.loc(pt)))
                    elif missing:
                        ctx.bad("F1", key + ":missing-" + "+".join(missing), "%s builds a public cursor entry that leaves %s zero at %s (the cursor then reports a wrong %s)" % (
                            fn.name, missing, fn.loc(pt), "/".join(missing)), {"function": fn.name, "site": fn.loc(pt), "missing": missing})
                    else:
                        ctx.ok("F1", key, "all %d fields initialised at %s" % (len(fields), fn.loc(pt)), sample={"function": fn.name, "site": fn.loc(pt), "fields": [f["f"] for f in x["fields"]]})
    ctx.floor("TreeCursorEntry literals", n, 6)


def hook_byte_to_point(e, nm, d):
    k = e.get("k")
    if k == "mem" and e["f"] == "bytes":
        return "%s.extent" % nm.r(e["b"], d + 1)
    if k == "call" and e.get("fn") == "ts_node_start_byte":
        return "ts_node_start_point(%s)" % ",".join(nm.r(a, d + 1) for a in e["a"])
    if k == "bin" and e["op"] in ("<", "<=", ">", ">=", "==", "!="):
        return canon_cmp(e["op"], nm.r(e["l"], d + 1), nm.r(e["r"], d + 1))
    return hook_point_canon(e, nm, d)


def canon_cmp(op, a, b):
    """One spelling per comparison, whatever the operand order: LT/LTE with the smaller side first, EQ/NE sorted."""
    if op in (">", ">="):
        op, a, b = {">": "<", ">=": "<="}[op], b, a
    if op in ("==", "!="):
        a, b = sorted([a, b])
    return "%s(%s,%s)" % ({"<": "LT", "<=": "LTE", "==": "EQ", "!=": "NE"}[op], a, b)


POINT_CMP = {"point_lt": "<", "point_lte": "<=", "point_gt": ">", "point_gte": ">=", "point_eq": "=="}


def hook_point_canon(e, nm, d):
    if e.get("k") == "call" and e.get("fn") in POINT_CMP and len(e.get("a", [])) == 2:
        return canon_cmp(POINT_CMP[e["fn"]], nm.r(e["a"][0], d + 1), nm.r(e["a"][1], d + 1))
    return None


def hook_anon_flag(e, nm, d):
    if e.get("k") == "call" and e.get("fn") in ("ts_node__is_relevant", "ts_node__relevant_child_count") and len(e.get("a", [])) == 2:
        return "%s(%s,$INCLUDE_ANONYMOUS)" % (e["fn"], nm.r(e["a"][0], d + 1))
    return None


WRAPPERS = [
    # (all-children API, named-children API, shared implementation)
    ("ts_node_child", "ts_node_named_child", "ts_node__child"),
    ("ts_node_child_count", "ts_node_named_child_count", None),
    ("ts_node_next_sibling", "ts_node_next_named_sibling", "ts_node__next_sibling"),
    ("ts_node_prev_sibling", "ts_node_prev_named_sibling", "ts_node__prev_sibling"),
    ("ts_node_first_child_for_byte", "ts_node_first_named_child_for_byte", "ts_node__first_child_for_byte"),
    ("ts_node_descendant_for_byte_range", "ts_node_named_descendant_for_byte_range", "ts_node__descendant_for_byte_range"),
    ("ts_node_descendant_for_point_range", "ts_node_named_descendant_for_point_range", "ts_node__descendant_for_point_range"),
]


def rule_siblings(ctx, F):
    a = ctx.need_fn(F, "ts_node__descendant_for_byte_range", "S1")
    b = ctx.need_fn(F, "ts_node__descendant_for_point_range", "S1")
    if a and b:
        diff, nb = siblings.compare(a, b, hook_byte_to_point, hook_point_canon)
        if diff is None:
            ctx.ok("S1", "descendant_for_byte_range~descendant_for_point_range", "isomorphic over %d blocks under {.bytes↔.extent, ts_node_start_byte↔ts_node_start_point, <↔point_lt, <=↔point_lte, >↔point_gt, ==↔point_eq}" % nb,
                   sample={"a": a.name, "b": b.name, "blocks": nb})
        else:
            ctx.bad("S1", "descendant_for_byte_range~descendant_for_point_range", "byte-range and point-range descendant search disagree: " + diff, {"a": a.name, "b": b.name})
    a = ctx.need_fn(F, "ts_node_field_name_for_child", "S2")
    b = ctx.need_fn(F, "ts_node_field_name_for_named_child", "S2")
    if a and b:
        diff, nb = siblings.compare(a, b, hook_anon_flag, hook_anon_flag)
        if diff is None:
            ctx.ok("S2", "field_name_for_child~field_name_for_named_child", "isomorphic over %d blocks up to the include_anonymous flag" % nb, sample={"a": a.name, "b": b.name, "blocks": nb})
        else:
            ctx.bad("S2", "field_name_for_child~field_name_for_named_child", "field lookup for children and named children disagree: " + diff)
        for fn, val in ((a, 1), (b, 0)):
            cs = [c for _, c in fn.calls() if c.get("fn") in ("ts_node__is_relevant", "ts_node__relevant_child_count")]
            okk = cs and all(strip(c["a"][1]).get("v") == val for c in cs)
            if okk:
                ctx.ok("S2", "%s:include_anonymous=%d" % (fn.name, val), "%d relevance tests all pass include_anonymous=%s" % (len(cs), bool(val)))
            else:
                ctx.bad("S2", "%s:include_anonymous=%d" % (fn.name, val), "%s must test relevance with include_anonymous=%s everywhere" % (fn.name, bool(val)))
    for allf, namedf, impl in WRAPPERS:
        fa, fb = F.fn(allf), F.fn(namedf)
        key = "%s~%s" % (allf, namedf)
        if not fa or not fb:
            ctx.bad("S2", key + ":missing", "wrapper pair %s / %s not found" % (allf, namedf))
            continue
        if impl is None:
            continue
        ca = [c for _, c in fa.calls() if c.get("fn") == impl]
        cb = [c for _, c in fb.calls() if c.get("fn") == impl]
        def by_position(f, args):
            pos = {q["name"]: "$%d" % i for i, q in enumerate(f.params)}
            out = []
            for x in args:
                t = show(x)
                for nm, rep in sorted(pos.items(), key=lambda kv: -len(kv[0])):
                    import re as _re
                    t = _re.sub(r"\b%s\b" % _re.escape(nm), rep, t)
                out.append(t)
            return out
        if len(ca) == 1 and len(cb) == 1 and strip(ca[0]["a"][-1]).get("v") == 1 and strip(cb[0]["a"][-1]).get("v") == 0 and \
                by_position(fa, ca[0]["a"][:-1]) == by_position(fb, cb[0]["a"][:-1]):
            ctx.ok("S2", key, "both call %s with the same arguments and include_anonymous true/false" % impl, sample={"all": allf, "named": namedf, "impl": impl})
        else:
            ctx.bad("S2", key, "%s and %s must both delegate to %s with identical arguments and include_anonymous = true / false" % (allf, namedf, impl))


ITERATORS = [
    # function, the per-child `extra` test, alias read pattern, structural increment pattern, child increment pattern
    ("ts_node_child_iterator_next", "ts_subtree_extra(*child)", "self->alias_sequence[self->structural_child_index]", "self->structural_child_index", "self->child_index"),
    ("ts_tree_cursor_child_iterator_next", "ts_subtree_extra(*child)", "self->alias_sequence[self->structural_child_index]", "self->structural_child_index", "self->child_index"),
]
# other readers of an alias sequence: (function, extra-test, alias read, structural increment)
ALIAS_READERS = [
    ("ts_subtree_summarize_children", "ts_subtree_extra(child)", "alias_sequence[structural_index]", "structural_index"),
    ("ts_subtree__write_to_string", "ts_subtree_extra(_)", "_->alias_sequence[_->structural_child_index]", None),
]


def incs(fn, target):
    m = M(fn)
    out = []
    for pt, e in fn.points():
        for n in own_walk(e):
            if n.get("k") == "un" and n["op"] in ("post++", "pre++") and m.match(target, n["e"]):
                out.append(pt)
            if n.get("k") == "assign" and n["op"] == "+=" and m.match(target, n["l"]):
                out.append(pt)
    return out


def rule_s3(ctx, F):
    for name, extra, alias, sidx, cidx in ITERATORS:
        fn = ctx.need_fn(F, name, "S3")
        if not fn:
            continue
        alias_reads = [pt for pt, n in find(fn, alias)]
        s_incs = incs(fn, sidx)
        c_incs = incs(fn, cidx)
        if len(s_incs) != 1 or len(c_incs) != 1 or not alias_reads:
            ctx.bad("S3", name + ":shape", "%s: expected one increment of %s and of %s and an alias read (found %d, %d, %d)" % (name, sidx, cidx, len(s_incs), len(c_incs), len(alias_reads)))
            continue
        ctx.gate("S3", fn, alias_reads, [("alias read only for non-extra children", extra, False)], accept_desc="the alias-sequence read")
        ctx.gate("S3", fn, s_incs, [("structural index advances only past non-extra children", extra, False)], accept_desc="structural_child_index++")
        # every `return true` path passed the child_index increment exactly once and, for non-extra children, the structural increment
        rets = [pt for pt, e in fn.points() if e.get("k") == "ret" and strip(e["e"]).get("v") == 1]
        ctx.before("S3", name + ":child_index-advances", fn, rets, c_incs, "every yielded child advances child_index")

        class StructMon(Monitor):
            def elem(self, m, pt, e, s):
                if pt in s_incs:
                    return (m[0], True)
                if pt in rets and m[0] is False and not m[1]:
                    return Viol("a non-extra child is yielded without advancing structural_child_index", pt)
                return m

            def edge(self, m, bid, edge, cond, truth, s):
                if cond is not None and truth is not None:
                    if s.m.cond_matches(extra, False, cond, truth):
                        return (False, m[1])
                    if s.m.cond_matches(extra, True, cond, truth):
                        return (True, m[1])
                return m
        s = Search(fn, StructMon())
        v = s.run((None, False))
        if v is None:
            ctx.ok("S3", name + ":structural-index-advances", "every non-extra child yielded advances structural_child_index (%d states)" % s.states)
        else:
            ctx.bad("S3", name + ":structural-index-advances", "%s: %s" % (name, v.msg), {"path": s.render_path(v.path)})


def in_cycle(fn, bid):
    seen, work = set(), [e.to for e in fn.blocks[bid].succs if e.reach]
    while work:
        b = work.pop()
        if b == bid:
            return True
        if b in seen:
            continue
        seen.add(b)
        work.extend(e.to for e in fn.blocks[b].succs if e.reach)
    return False


def rule_s3b(ctx, F):
    for name, extra, alias, sidx in ALIAS_READERS:
        fn = ctx.need_fn(F, name, "S3")
        if not fn:
            continue
        reads = [pt for pt, n in find(fn, alias)]
        if not reads:
            ctx.bad("S3", name + ":alias-read", "%s no longer reads the alias sequence as `%s`" % (name, alias))
            continue
        ctx.gate("S3", fn, reads, [("alias sequence consulted only for non-extra children (extras occupy no structural slot)", extra, False)], accept_desc="the alias-sequence read")
        if sidx:
            inc = incs(fn, sidx)
            ctx.gate("S3", fn, inc, [("structural index advances only past non-extra children", extra, False)], accept_desc="%s++" % sidx)
    # goto_descendant: each level of the ascent counts *its own* entry iff that entry is visible
    fn = ctx.need_fn(F, "ts_tree_cursor_goto_descendant", "S3")
    if fn:
        vis = [(pt, n) for pt, n in find(fn, "ts_tree_cursor_is_entry_visible(self, _)")]
        bind(fn, "next_descendant_index", "_ + ts_subtree_visible_descendant_count(_)")
        ent = locals_of_type(fn, "TreeCursorEntry *")
        bind_names(fn, {"entry": ent[0] if ent else None})
        nd = fn.ids_named("next_descendant_index")
        defs = [d for i in nd for d in fn.defs(i) if isinstance(d, dict)]
        ok_all = bool(vis) and bool(defs)
        why = ""
        for d in defs[:1]:
            if not any(x.get("k") == "call" and x.get("fn") == "ts_tree_cursor_is_entry_visible" for x in walk(d)) and \
               not any(x.get("k") == "ref" and fn.single_def(x["id"]) is not None and any(y.get("fn") == "ts_tree_cursor_is_entry_visible" for y in walk(fn.single_def(x["id"]))) and False for x in walk(d)):
                ok_all, why = False, "the ascent's index bound no longer evaluates ts_tree_cursor_is_entry_visible for the entry being tested"
        for pt, n in vis[:1]:
            if ok_all and not in_cycle(fn, pt[0]):
                ok_all, why = False, "ts_tree_cursor_is_entry_visible is evaluated once outside the ascent loop, not for every level"
        if ok_all:
            # the index passed is the one the entry was fetched with
            ent = fn.ids_named("entry")
            de = [d for i in ent for d in fn.defs(i) if isinstance(d, dict)]
            idxs = {show(strip(n["a"][1])) for pt, n in vis}
            ent_idx = {show(x["i"]) for d in de for x in walk(d) if x.get("k") == "idx"}
            if not (idxs & ent_idx):
                ok_all, why = False, "visibility is tested for index %s but the entry is fetched at %s" % (sorted(idxs), sorted(ent_idx))
        if ok_all:
            ctx.ok("S3", "ts_tree_cursor_goto_descendant:per-level-visibility", "every level of the ascent counts its own entry exactly when that entry is visible")
        else:
            ctx.bad("S3", "ts_tree_cursor_goto_descendant:per-level-visibility", "ts_tree_cursor_goto_descendant: " + (why or "anchors not found"), {"function": fn.name})


def rule_s5(ctx, F):
    """A field name inherited through hidden ancestors is only ever replaced by another field name,
    never reset to none by an inner hidden level that has no field of its own."""
    for name in ("ts_node_field_name_for_child", "ts_node_field_name_for_named_child"):
        fn = ctx.need_fn(F, name, "S5")
        if not fn:
            continue
        inh = bind(fn, "inherited_field_name", "NULL")
        ids = set(fn.ids_named("inherited_field_name"))
        sts = []
        for pt, e in fn.points():
            for n in own_walk(e):
                if n.get("k") == "assign" and strip(n["l"]).get("k") == "ref" and strip(n["l"])["id"] in ids:
                    sts.append((pt, n))
        if not sts:
            ctx.bad("S5", name + ":inherits-field", "%s no longer carries a field name inherited from hidden ancestors" % name)
            continue
        for k, (pt, n) in enumerate(sts):
            r = strip(n["r"])
            if r.get("k") == "ref" and r.get("dk") == "local":
                ctx.gate("S5", fn, [pt], [("inherited field name replaced only by an existing field name (#%d)" % k, r["name"], True)], accept_desc="overwriting the inherited field name")
            else:
                ctx.bad("S5", "%s:inherited-overwritten-unconditionally#%d" % (name, k), "%s overwrites the inherited field name with `%s` without testing that it is non-null at %s: a deeper hidden level without a field erases the field of the outer one" % (
                    name, show(r)[:60], fn.loc(pt)), {"site": fn.loc(pt)})


def rule_s6(ctx, F):
    """Extras carry no field: every reader of the field map hands out a field (name, id or child)
    only for a child that is not an extra — the printer, both cursor readers and the node API agree."""
    # (1) the S-expression writer: any non-null field name given to a child's frame
    fn = ctx.need_fn(F, "ts_subtree__write_to_string", "S6")
    if fn:
        frames = [(pt, e) for pt, e in fn.points() if e.get("k") == "decl" and strip(e.get("init") or {}).get("k") == "init" and "WriteToStringFrame" in (strip(e["init"]).get("t") or "")]
        srcs, child = [], None
        for pt, e in frames:
            flds = {f["f"]: strip(f["e"]) for f in strip(e["init"])["fields"]}
            sub = flds.get("subtree")
            if sub is None or sub.get("k") != "ref":
                continue
            child = sub["name"]
            var = e["name"]
            fnm = flds.get("field_name")
            if fnm is not None and fnm.get("k") not in ("zero", "null") and not (fnm.get("k") == "int" and not fnm.get("v")):
                srcs.append(pt)
            for pt2, e2 in fn.points():
                for n in own_walk(e2):
                    if n.get("k") == "assign" and M(fn).match("%s.field_name" % var, n["l"]):
                        r = strip(n["r"])
                        if r.get("k") not in ("zero", "null") and not (r.get("k") == "int" and not r.get("v")):
                            srcs.append(pt2)
        if not child or not srcs:
            ctx.bad("S6", "ts_subtree__write_to_string:child-frame-field", "the child frame of the S-expression writer (a WriteToStringFrame built from the child subtree, with a field name) was not found")
        else:
            ctx.gate("S6", fn, srcs, [("a child frame gets a field name only if the child is not an extra", "ts_subtree_extra(%s)" % child, False)], accept_desc="giving the child's frame a field name")
    # (2) cursor readers
    fn = ctx.need_fn(F, "ts_tree_cursor_current_field_id", "S6")
    if fn:
        acc = [pt for pt, e in fn.points() if e.get("k") == "ret" and strip(e["e"]).get("k") == "mem"]
        ctx.gate("S6", fn, acc, [("a field id is returned only for a non-extra entry", "ts_subtree_extra(*entry->subtree)", False)], accept_desc="returning a field id")
    fn = ctx.need_fn(F, "ts_tree_cursor_current_status", "S6")
    if fn:
        acc = [pt for pt, n in find(fn, "*field_id = map->field_id")]
        ctx.gate("S6", fn, acc, [("a field id is recorded only for a non-extra entry", "ts_subtree_extra(*entry->subtree)", False)], accept_desc="recording a field id")
    # (3) node API
    for name in ("ts_node_field_name_for_child", "ts_node_field_name_for_named_child"):
        fn = ctx.need_fn(F, name, "S6")
        if fn:
            acc = [pt for pt, e in fn.points() if e.get("k") == "ret" and strip(e["e"]).get("k") == "ref"]
            ctx.gate("S6", fn, acc, [("a field name is returned only for a non-extra child", "ts_node_is_extra(child)", False)], accept_desc="returning a field name")
    fn = ctx.need_fn(F, "ts_node_child_by_field_id", "S6")
    if fn:
        acc = [pt for pt, e in fn.points() if e.get("k") == "ret" and ("child" in show(e["e"]) or "result" in show(e["e"])) and "ts_node__null" not in show(e["e"])]
        ctx.floor("field-selected returns in ts_node_child_by_field_id", len(acc), 3)
        ctx.gate("S6", fn, acc, [("a child is selected by field only if it is not an extra", "ts_subtree_extra(ts_node__subtree(child))", False)], accept_desc="returning the field's child")


def rule_s7(ctx, F):
    """S7: one notion of "named node" — the S-expression printer shows a node exactly when the node
    API counts it as a named child: aliased ⇒ the alias is named, otherwise visible and named."""
    fn = ctx.need_fn(F, "ts_subtree__write_to_string", "S7")
    if fn:
        d = [x for i in fn.ids_named("is_visible") for x in fn.defs(i) if x is not None and x.get("k") != "uninit"]
        pat = "include_all || ts_subtree_missing(node) || (frame->alias_symbol ? frame->alias_is_named : ts_subtree_visible(node) && ts_subtree_named(node))"
        if not d:
            d = [strip(e.get("init")) for pt, e in fn.points() if e.get("k") == "decl" and (e.get("t") or "") in ("_Bool", "bool") and e.get("init") is not None and "include_all" in show(e["init"])]
        if d and M(fn).match(pat, d[0]):
            ctx.ok("S7", "write_to_string:prints-named-nodes", "a node is printed iff include_all, MISSING, or (aliased ? alias named : visible and named)")
        else:
            ctx.bad("S7", "write_to_string:prints-named-nodes", "the printer's visibility test is no longer `%s` (now `%s`): ts_node_string and the named-child API disagree about which nodes exist" % (pat, show(d[0])[:120] if d else "?"))
    fn = ctx.need_fn(F, "ts_node__is_relevant", "S7")
    if fn:
        rets = [(pt, strip(e["e"])) for pt, e in fn.points() if e.get("k") == "ret"]
        m = M(fn)
        table = [("ts_subtree_visible(tree) || ts_node__alias(&self)", [("with anonymous nodes included: visible or aliased", "include_anonymous", True)]),
                 ("ts_language_symbol_metadata(self.tree->language, alias).named", [("named only: an aliased node counts iff its alias is named", "alias", True), ("…in the named-only mode", "include_anonymous", False)]),
                 ("ts_subtree_visible(tree) && ts_subtree_named(tree)", [("named only: an un-aliased node counts iff visible and named", "alias", False), ("…in the named-only mode", "include_anonymous", False)])]
        for pat, gates in table:
            pts = [pt for pt, r in rets if m.match(pat, r)]
            if not pts:
                ctx.bad("S7", "ts_node__is_relevant:returns:%s" % pat[:40], "ts_node__is_relevant no longer returns `%s`" % pat)
                continue
            ctx.gate("S7", fn, pts, gates, accept_desc="returning `%s`" % pat[:40])


# functions that may look at a subtree's *structural* visibility; each of them combines it with the alias
# the parent gives the node (a hidden rule aliased to a visible name is a visible node)
VISIBILITY_READERS = {
    "ts_tree_cursor_is_entry_visible": "falls back to the parent's alias sequence for hidden entries",
    "ts_tree_cursor_child_iterator_next": "ors the alias into *visible",
    "ts_tree_cursor_child_iterator_previous": "ors the alias into *visible",
    "ts_tree_cursor_parent_node": "`alias_symbol != 0 || visible`",
    "ts_node__is_relevant": "`visible || alias`, resp. alias named-ness first",
    "iterator_tree_is_visible": "consults the alias sequence of the parent entry",
    "iterator_get_visible_state": "`visible || *alias_symbol`",
    "ts_subtree__write_to_string": "alias first (`alias_symbol ? alias_is_named : visible && named`)",
    "ts_subtree_summarize_children": "counts an aliased child before looking at its own visibility",
}
VISIBILITY_FILES = ("lib/src/tree_cursor.c", "lib/src/node.c", "lib/src/get_changed_ranges.c", "lib/src/subtree.c")


def rule_v1(ctx, F):
    """V1 (who-may-call): in the navigation code a node's visibility is never decided from
    ts_subtree_visible alone — only the tabled helpers, which also consult the alias, may call it."""
    n = 0
    for fn in F.fn_list:
        if fn.file not in VISIBILITY_FILES:
            continue
        for pt, c in fn.calls():
            if callee_name(c) == "ts_subtree_visible":
                n += 1
                if fn.name not in VISIBILITY_READERS:
                    ctx.bad("V1", "%s:raw-visibility" % fn.name, "%s decides on ts_subtree_visible() at %s without the alias: a hidden rule aliased to a visible name is then treated as hidden "
                            "(the cursor and the node API disagree on such nodes)" % (fn.name, fn.loc(pt)), {"site": fn.loc(pt)})
    ctx.floor("structural-visibility reads in the navigation code", n, 8)
    for name, why in sorted(VISIBILITY_READERS.items()):
        if name in F.fns:
            ctx.ok("V1", "%s:alias-aware" % name, "tabled reader: " + why, nontrivial=False)


def rule_s4(ctx, F):
    table = [
        ("ts_node__field_name_from_language", "field_map", "structural_child_index", lambda e: e.get("k") == "ret" and strip(e["e"]).get("k") != "null" and not (strip(e["e"]).get("k") == "int")),
        ("ts_tree_cursor_current_field_id", "map", "entry->structural_child_index", lambda e: e.get("k") == "ret" and strip(e["e"]).get("k") == "mem"),
    ]
    for name, var, idx, is_acc in table:
        fn = ctx.need_fn(F, name, "S4")
        if not fn:
            continue
        acc = [pt for pt, e in fn.points() if is_acc(e)]
        ctx.gate("S4", fn, acc, [
            ("inherited field-map entries are skipped", "%s->inherited" % var, False),
            ("entry is for this structural child", "%s->child_index == %s" % (var, idx), True),
        ], accept_desc="returning a field")


# readers of the alias a parent's production gives the child in structural slot `entry.structural_child_index`:
# (function, how the entry is known not to be an extra)
ALIAS_AT_READERS = {
    "ts_tree_cursor_is_entry_visible": [("ts_subtree_extra(*entry->subtree)", False)],
    "ts_tree_cursor_current_node": [("is_extra", False), ("ts_subtree_extra(*last_entry->subtree)", False)],
    "ts_tree_cursor_parent_node": [("ts_subtree_extra(*entry->subtree)", False)],
}
ALIAS_AT_TABLED = {
    "iterator_tree_is_visible": "changed-range walk: both trees are walked with the same predicate, an extra taken for an aliased node only adds a level of descent (granularity, not coverage)",
    "iterator_get_visible_state": "changed-range walk: same predicate on both trees (see iterator_tree_is_visible)",
    "ts_query__perform_analysis": "static analysis of the grammar's productions: child_index ranges over structural slots of a production, no tree node (and no extra) is involved",
}


def rule_s9(ctx, F):
    """S9: an extra never wears an alias.  Extras occupy no structural slot: the structural_child_index stored with an
    extra entry is the slot of the *next* structural child.  So a cursor operation may look up
    ts_language_alias_at(parent production, entry.structural_child_index) only for an entry that is not an extra —
    otherwise a hidden extra (e.g. a hidden pragma rule with visible children) is taken for the aliased sibling that follows it."""
    n = 0
    for fn in F.fn_list:
        if not fn.file.startswith("lib/src") or not fn.blocks:
            continue
        reads = [pt for pt, c in fn.calls() if callee_name(c) == "ts_language_alias_at"]
        if not reads:
            continue
        n += len(reads)
        if fn.name in ALIAS_AT_TABLED:
            ctx.ok("S9", "%s:alias-at" % fn.name, "tabled: " + ALIAS_AT_TABLED[fn.name], nontrivial=False)
        elif fn.name in ALIAS_AT_READERS:
            ctx.gate("S9", fn, reads, [("the alias is looked up only for an entry that is not an extra", ALIAS_AT_READERS[fn.name])], accept_desc="looking up the entry's alias")
        else:
            ctx.bad("S9", "%s:alias-at:untabled" % fn.name, "%s calls ts_language_alias_at but is not in the table of alias readers (is its entry known not to be an extra?)" % fn.name, {"site": fn.loc(reads[0])})
    ctx.floor("calls of ts_language_alias_at", n, 6)


def rule_s10(ctx, F):
    """S10: only a hidden node's children count as children of its parent.  The child/sibling walks skip a child that is
    not relevant in the current mode and then look at *its* relevant children (ts_node__relevant_child_count).  In the
    named-only mode an irrelevant child may be a visible anonymous node (e.g. a rule aliased to a string); its named
    children are its own — the cached named_child_count of the parent does not include them.  So the helper answers
    non-zero only for a node that is not visible at all."""
    fn = ctx.need_fn(F, "ts_node__relevant_child_count", "S10")
    if not fn:
        return
    nz = [pt for pt, e in fn.points() if e.get("k") == "ret" and not (strip(e["e"]).get("k") == "int" and not strip(e["e"]).get("v"))]
    ctx.floor("non-zero answers of ts_node__relevant_child_count", len(nz), 2)
    ctx.gate("S10", fn, nz, [("children are attributed to the parent only for a node that is hidden (not relevant even with anonymous nodes included)",
                             [("ts_node__is_relevant(self, 1)", False), ("ts_subtree_visible(tree)", False)])], accept_desc="counting a node's children as its parent's")
    users = sorted({g.name for g in F.fn_list for pt, c in g.calls() if callee_name(c) == "ts_node__relevant_child_count"})
    ctx.analysed["users_of_relevant_child_count"] = users


MODE_LITERAL_TABLED = {
    ("ts_node__relevant_child_count", "ts_node__is_relevant"): "asks whether the node is visible at all (mode-independent question; see S10)",
}


def rule_s11(ctx, F):
    """S11: the named-only / all-nodes mode is threaded unchanged.  A function that is given `include_anonymous` passes
    that very parameter to every helper that takes the mode (ts_node__is_relevant, ts_node__relevant_child_count, the
    child / sibling / descendant walks); a literal in its place makes one step of a named-only walk count anonymous nodes
    (or the reverse), so previous/next named sibling and named child disagree with the tree."""
    MODE = "include_anonymous"
    # the mode-taking functions of node.c and the position of their mode parameter (confirmed by reading; the parameter
    # is found by position, so its spelling does not matter); any other function with a parameter of that name joins them
    takes = {"ts_node__is_relevant": 1, "ts_node__relevant_child_count": 1, "ts_node__child": 2, "ts_node__prev_sibling": 1, "ts_node__next_sibling": 1,
             "ts_node__first_child_for_byte": 2, "ts_node__descendant_for_byte_range": 3, "ts_node__descendant_for_point_range": 3}
    takes = {k: v for k, v in takes.items() if k in F.fns and v < len(F.fns[k].params) and str(F.fns[k].params[v].get("t")) in ("_Bool", "bool")}
    for fn in F.fn_list:
        for i, p in enumerate(fn.params):
            if p["name"] == MODE:
                takes.setdefault(fn.name, i)
    n = 0
    for fn in F.fn_list:
        if fn.name not in takes or not fn.blocks:
            continue
        pid = fn.params[takes[fn.name]]["id"]
        for pt, c in fn.calls():
            cal = callee_name(c)
            if cal not in takes or takes[cal] >= len(c.get("a", [])):
                continue
            n += 1
            a = strip(c["a"][takes[cal]])
            key = "%s:%s:mode-threaded" % (fn.name, cal)
            if a.get("k") == "ref" and a.get("id") == pid:
                ctx.ok("S11", key, "passes its own include_anonymous on", nontrivial=False)
            elif (fn.name, cal) in MODE_LITERAL_TABLED:
                ctx.ok("S11", key, "tabled: " + MODE_LITERAL_TABLED[(fn.name, cal)], nontrivial=False)
            else:
                ctx.bad("S11", key, "%s calls %s with `%s` where its own include_anonymous belongs (%s): this step of the walk runs in the other mode" % (fn.name, cal, show(a)[:30], fn.loc(pt)), {"site": fn.loc(pt)})
    ctx.floor("mode-taking calls inside mode-taking functions", n, 8)


def rule_s12(ctx, F):
    """S12: first-child-for-byte resumes the outer walk after an unsuccessful descent.  Before descending into a hidden
    child, ts_node__first_child_for_byte remembers its iterator if siblings remain — a test of the iterator's index
    against the child count of the node *being iterated*.  Measured against the wrong node (the child about to be
    entered) the resume point is lost whenever that child is short, and a goal byte inside a hidden child's trailing hidden
    token yields no child at all although a later sibling qualifies."""
    fn = ctx.need_fn(F, "ts_node__first_child_for_byte", "S12")
    if not fn:
        return
    it = [c for pt, c in fn.calls() if callee_name(c) == "ts_node_iterate_children"]
    key = "first_child_for_byte:resume-point-measured-against-the-iterated-node"
    if not it:
        ctx.bad("S12", key, "ts_node__first_child_for_byte no longer iterates with ts_node_iterate_children")
        return
    iterated = arg_var(it[0], 0)
    conds = []
    for b in fn.blocks.values():
        c = fn.cond(b.id)
        if c is not None and "child_index" in show(c) and "ts_subtree_child_count" in show(c):
            conds.append((b.id, c))
    if not conds:
        ctx.bad("S12", key, "ts_node__first_child_for_byte saves its iterator before every descent, without testing whether siblings remain: there is a single saved resume point, so descending through a "
                "hidden node that is the *last* child of another hidden node overwrites the still-needed outer resume point with an exhausted iterator, and later children of the outer node are never looked at")
        return
    for bid, c in conds:
        subj = [arg_var(x, 0) for x in walk(c) if x.get("k") == "call" and callee_name(x) == "ts_node__subtree"]
        if subj and all(v == iterated for v in subj):
            ctx.ok("S12", key, "`%s` compares the iterator's index with the child count of `%s`, the node being iterated" % (show(c)[:70], iterated))
        else:
            ctx.bad("S12", key, "`%s` compares the iterator's position in `%s` with the child count of `%s`: the resume point is dropped when that node has few children, and "
                    "ts_node_first_child_for_byte returns no child for a byte inside a hidden child's trailing hidden token" % (show(c)[:80], iterated, subj[0] if subj else "?"), {"site": fn.loc((bid, 0))})


def rule_s14(ctx, F):
    """S14: "position unknown" is absorbing while a cursor walks backwards.  length_backtrack(a, b) answers
    LENGTH_UNDEFINED when `b` spans a line break *or `a` is already undefined*; goto_previous_sibling recomputes the
    position from the parent only if the iterator's position is still the undefined sentinel when the walk stops.
    Subtracting from the sentinel turns it into an ordinary-looking wrong position, which the cursor then reports for a
    node whose identity is right (start byte 4294967294 …) — the cursor and ts_node_child disagree."""
    fn = ctx.need_fn(F, "length_backtrack", "S14")
    if not fn:
        return
    a = fn.params[0]["name"] if fn.params else "a"
    b = fn.params[1]["name"] if len(fn.params) > 1 else "b"
    computed = [pt for pt, e in fn.points() if e.get("k") == "ret" and e.get("e") is not None and "LENGTH_UNDEFINED" not in show(e["e"])]
    ctx.floor("computed results of length_backtrack", len(computed), 1)
    ctx.gate("S14", fn, computed, [
        ("a position is computed only from a known position", "length_is_undefined(%s)" % a, False),
        ("…and only across a distance without a line break", [("%s.extent.row != 0" % b, False), ("%s.extent.row == 0" % b, True), ("%s.extent.row > 0" % b, False)]),
    ], accept_desc="computing a position by subtraction")


def rule_s15(ctx, F):
    """S15: the two child iterators are mirror images.  goto_next_sibling and goto_previous_sibling run the same loop with
    ts_tree_cursor_child_iterator_next / _previous; whatever the forward iterator records in the cursor entry (subtree,
    position, child index, structural child index, descendant index) and keeps up to date in the iterator, the backward
    one records and keeps up to date as well — an entry field it leaves out is zero after goto_previous_sibling
    (ts_tree_cursor_current_descendant_index answers 0, and a later descent continues from that base).  And stepping back
    over a child changes the structural index iff *that* child (the one stepped onto) is not an extra."""
    from cstores import stores
    nx = ctx.need_fn(F, "ts_tree_cursor_child_iterator_next", "S15")
    pv = ctx.need_fn(F, "ts_tree_cursor_child_iterator_previous", "S15")
    if not nx or not pv:
        return

    def state_fields(fn):
        out = set()
        for pt, n, l, op in stores(fn):
            l = strip(l)
            if l.get("k") == "mem" and l.get("rec") == "CursorChildIterator":
                out.add(l.get("f"))
        return out
    # (that both iterators fill the same entry fields is C06.F1's field-coverage instance)
    sf_n, sf_p = state_fields(nx), state_fields(pv)
    ctx.floor("iterator fields advanced by the forward iterator", len(sf_n), 4)
    if sf_n - sf_p:
        ctx.bad("S15", "child_iterators:state-fields-agree", "ts_tree_cursor_child_iterator_previous does not step %s back (the forward iterator advances %s): the value handed to the next entry is stale" % (
            sorted(sf_n - sf_p), sorted(sf_n)), {"function": pv.name})
    else:
        ctx.ok("S15", "child_iterators:state-fields-agree", "both iterators keep %s up to date" % sorted(sf_n))
    # the structural index counts the non-extra children *before* a child: stepping onto the previous child decrements it iff
    # that child is not an extra (whether the child being left is an extra does not matter)
    dec = [pt for pt, n, l, op in stores(pv) if strip(l).get("k") == "mem" and strip(l).get("f") == "structural_child_index" and op in ("--", "post--", "pre--", "-=")]
    if not dec:
        ctx.bad("S15", "child_iterator_previous:structural-index-follows-the-child-stepped-onto", "ts_tree_cursor_child_iterator_previous no longer decrements the structural child index")
        return
    # the local that holds the child stepped onto: defined as children[self->child_index] *after* the decrement of child_index
    cand = None
    for pt, e in pv.points():
        for n in own_walk(e):
            if n.get("k") == "decl" and n.get("t") == "Subtree" and n.get("init") is not None and "child_index" in show(n["init"]):
                cand = n.get("name")
    if not cand:
        ctx.bad("S15", "child_iterator_previous:structural-index-follows-the-child-stepped-onto", "the local holding the child stepped onto (Subtree x = children[self->child_index]) was not found")
        return
    ctx.gate("S15", pv, dec, [("the structural index is stepped back only when the child stepped onto is not an extra", "ts_subtree_extra(%s)" % cand, False)],
             accept_desc="decrementing the structural child index")


def rule_s13(ctx, F):
    """S13: for the smallest-descendant search a node is "empty" when its *content* is empty (start == end).  An empty
    node may end exactly at the start of the searched range; whether it does is a question about where the node starts
    and ends, not about the whitespace before it.  A zero-width token that carries padding (an external scanner skipped
    blanks and emitted an empty token) must still be found for the range [p, p] at its position."""
    for name, start_fn in (("ts_node__descendant_for_byte_range", "ts_node_start_byte"), ("ts_node__descendant_for_point_range", "ts_node_start_point")):
        fn = ctx.need_fn(F, name, "S13")
        if not fn:
            continue
        key = "%s:emptiness-is-start-equals-end" % name.replace("ts_node__", "")
        # the emptiness flag, whatever it is called: the bool local that selects between the strict and the non-strict
        # comparison of the child's end with the range start (`flag ? end < start : end <= start`)
        fn.defs(0)
        ids = set()
        for pt, e in fn.points():
            for x in walk(e):
                if x.get("k") == "cond" and strip(x["c"]).get("k") == "ref" and strip(x["c"]).get("dk") == "local":
                    ids.add(strip(x["c"])["id"])
        ids = sorted(ids) or fn.ids_named("is_empty")
        ds = [d for i in ids for d in fn.defs(i) if isinstance(d, dict) and d.get("k") not in ("uninit", "param")]
        if not ds:
            conds = [fn.cond(b.id) for b in fn.blocks.values() if fn.cond(b.id) is not None and start_fn in show(fn.cond(b.id)) and "node_end" in show(fn.cond(b.id))]
            if conds:
                ctx.ok("S13", key, "emptiness is tested inline as `%s`" % show(conds[0])[:60], nontrivial=False)
            else:
                ctx.bad("S13", key, "%s no longer has an emptiness test comparing the child's start with its end" % name)
            continue
        txt = show(ds[0])
        callee = callee_name(strip(ds[0])) if strip(ds[0]).get("k") == "call" else None
        if callee and callee in F.fns:
            rets = [show(e["e"]) for pt, e in F.fns[callee].points() if e.get("k") == "ret" and e.get("e") is not None]
            txt += " := " + " | ".join(rets)
        if ("total_bytes" in txt or "padding" in txt) or not (start_fn in txt or "ts_subtree_size" in txt):
            ctx.bad("S13", key, "%s decides emptiness by `%s`: a zero-width node with padding is not treated as empty, so descendant_for_range(p, p) at its position returns its neighbour although "
                    "child-by-index and the cursor show the node there" % (name, txt[:90]))
        else:
            ctx.ok("S13", key, "a child is empty iff `%s`" % txt[:70])


def rule_s8(ctx, F):
    """S8: a field lookup answers only from map entries of the requested field.  The entries of a production are
    sorted by field id; ts_node_child_by_field_id narrows [field_map, field_map_end) from both sides and then
    walks it with `field_map++`.  Every read of an entry's child_index / inherited flag must be below an
    established lower bound (`field_map->field_id < field_id` false — later entries are larger still) and an
    established upper bound: either the end of the range was trimmed (`field_map_end[-1].field_id > field_id`
    false, end not moved since) or the entry itself was compared since the last `field_map++`."""
    from flow import GateMonitor, Search
    fn = ctx.need_fn(F, "ts_node_child_by_field_id", "S8")
    if not fn:
        return
    # the range is what ts_language_field_map hands out through its two out-parameters (names are whatever they are today)
    fmc = [c for pt, c in fn.calls() if callee_name(c) == "ts_language_field_map" and len(c.get("a", [])) >= 4]
    if fmc:
        bind_names(fn, {"field_map": arg_var(fmc[0], 2), "field_map_end": arg_var(fmc[0], 3)})
    if len(fn.params) >= 2:
        bind_names(fn, {"field_id": fn.params[1]["name"]})
    fm = fn.ids_named("field_map")
    fid = fn.ids_named("field_id")
    if not fm or not fid:
        ctx.bad("S8", "ts_node_child_by_field_id:entry-reads", "ts_node_child_by_field_id no longer has `field_map` / `field_id`")
        return
    reads = []
    for pt, e in fn.points():
        for n in own_walk(e):
            if n.get("k") == "mem" and n.get("f") in ("child_index", "inherited") and strip(n["b"]).get("k") == "ref" and strip(n["b"]).get("id") in fm:
                reads.append(pt)
    reads = sorted(set(reads))
    ctx.floor("reads of a field-map entry in ts_node_child_by_field_id", len(reads), 2)
    if not reads:
        return
    ctx.gate("S8", fn, reads, [("no entry of a larger field is consulted",
                               [("field_map_end[-1].field_id > field_id", False), ("field_map_end[-1].field_id <= field_id", True), ("field_map_end[-1].field_id == field_id", True),
                                ("field_map->field_id == field_id", True), ("field_map->field_id != field_id", False), ("field_map->field_id > field_id", False)])],
             accept_desc="reading a field-map entry")

    class Lower(GateMonitor):
        # the lower bound survives `field_map++` (the entries are sorted), not a fresh range from ts_language_field_map
        def elem(self, m, pt, e, s):
            for n in own_walk(e):
                if n.get("k") == "call":
                    for a in n.get("a", []):
                        a = strip(a)
                        if a.get("k") == "un" and a.get("op") == "&" and strip(a["e"]).get("k") == "ref" and strip(a["e"]).get("id") in fm:
                            m = 0
                if n.get("k") == "assign" and strip(n["l"]).get("k") == "ref" and strip(n["l"]).get("id") in fm:
                    m = 0
            return GateMonitor.elem(self, m, pt, e, s)
    mon = Lower(reads, [("field_map->field_id < field_id", False), ("field_map->field_id >= field_id", True), ("field_map->field_id == field_id", True), ("field_map->field_id != field_id", False)],
                None, (), kill_fn=lambda src: set(fid))
    mon.label = "no entry of a smaller field is consulted"
    sr = Search(fn, mon)
    v = sr.run(0)
    key = "ts_node_child_by_field_id:no entry of a smaller field is consulted"
    if v is None:
        ctx.ok("S8", key, "every path to a read of field_map->child_index/inherited passed `field_map->field_id < field_id` = false after the range was fetched (%d reads)" % len(reads),
               sample={"reads": [fn.loc(p) for p in reads][:4]})
    else:
        ctx.bad("S8", key, "ts_node_child_by_field_id reads a field-map entry at %s without having skipped the entries of smaller fields" % fn.loc(v.pt), {"path": sr.render_path(v.path)[-6:]})


def run(ctx):
    for cfg in configs(ctx):
        ctx.config = cfg
        F = ctx.extract.cfacts(cfg)
        ctx.analysed["c_functions_" + cfg] = len(F.fn_list)
        rule_w1(ctx, F)
        rule_f1(ctx, F)
        rule_siblings(ctx, F)
        rule_s3(ctx, F)
        rule_s3b(ctx, F)
        rule_s4(ctx, F)
        rule_s5(ctx, F)
        rule_s6(ctx, F)
        rule_s7(ctx, F)
        rule_s8(ctx, F)
        rule_s9(ctx, F)
        rule_s10(ctx, F)
        rule_s11(ctx, F)
        rule_s12(ctx, F)
        rule_s13(ctx, F)
        rule_s14(ctx, F)
        rule_s15(ctx, F)
        rule_v1(ctx, F)
    return ctx.finish(
        "Sibling-agreement (CFG isomorphism under substitution), field-coverage and index-width rules over node.c / tree_cursor.c: byte- and point-range "
        "descendant search are the same algorithm; child/named-child APIs share one implementation; child iterators read aliases and advance the structural "
        "index only for non-extra children; cursor entries carry all five fields; field lookup uses one selection test; no tree index is narrowed. "
        "Does not decide value-dependent agreement of position-based search with the cursor walk.")
