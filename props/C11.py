"""C11 — query cursor views agree: limit reporting, cursor re-initialisation, match removal
(DESIGN.md §4 C11).  Decides: every discard of a state caused by capture-list-pool exhaustion is
preceded by setting did_exceed_match_limit; ts_query_cursor_exec re-initialises every per-execution
field; remove_match releases and removes exactly the state with the given id.
"""
import re
from common import *  # noqa: F401,F403
from cstores import stores, writes_record, lvalue_chain

NONE32 = 4294967295


class LimitMonitor(Monitor):
    """m = (acquired, exhausted, flagged)."""

    def __init__(self, fn):
        self.fn = fn
        self.m = M(fn)
        self.discards = 0

    def elem(self, m, pt, e, s):
        acq, exh, flg = m
        for n in own_walk(e):
            k = n.get("k")
            if k == "assign" and self.m.match("_->capture_list_id = capture_list_pool_acquire(_)", n):
                acq = True
            if k == "assign" and self.m.match("self->did_exceed_match_limit = 1", n):
                flg = True
            discard = None
            if k == "call" and n.get("fn") == "_array__erase" and any(x.get("k") == "mem" and x["f"] in ("states", "finished_states") for x in walk(n["a"][0])):
                discard = "state erased"
            if k == "assign" and n["op"] == "=" and strip(n["l"]).get("k") == "mem" and strip(n["l"])["f"] == "dead" and strip(n["r"]).get("v") == 1:
                discard = "state marked dead"
            if k == "ret" and self.fn.name == "ts_query_cursor__prepare_to_capture" and strip(n.get("e") or {}).get("k") == "null":
                discard = "capture refused (NULL)"
            if discard and exh:
                self.discards += 1
                if not flg:
                    return Viol("%s because the capture-list pool is exhausted, without setting did_exceed_match_limit" % discard, pt)
        return (acq, exh, flg)

    def edge(self, m, bid, edge, cond, truth, s):
        acq, exh, flg = m
        if cond is not None and truth is not None:
            if s.m.cond_matches("capture_list_pool_is_empty(&self->capture_list_pool)", True, cond, truth):
                return (acq, True, flg)
            if s.m.cond_matches("capture_list_pool_is_empty(&self->capture_list_pool)", False, cond, truth):
                return (acq, False, flg)
            if acq and s.m.cond_matches("_->capture_list_id == %d" % NONE32, True, cond, truth):
                return (acq, True, flg)
        return m


def rule_p1(ctx, F):
    n = 0
    for fn in F.fn_list:
        if fn.file != "lib/src/query.c":
            continue
        has = any(c.get("fn") in ("capture_list_pool_is_empty", "capture_list_pool_acquire") for _, c in fn.calls())
        if not has or fn.name.startswith("capture_list_pool_"):
            continue
        n += 1
        mon = LimitMonitor(fn)
        s = Search(fn, mon)
        v = s.run((False, False, False))
        key = "%s:abandon-state-without-flag" % fn.name
        if v is None:
            ctx.ok("P1", key, "every state discarded under pool exhaustion in %s is preceded by did_exceed_match_limit = true (%d states)" % (fn.name, s.states),
                   sample={"function": fn.name, "states": s.states})
        else:
            ctx.bad("P1", key, "%s: %s at %s" % (fn.name, v.msg, fn.loc(v.pt)), {"function": fn.name, "site": fn.loc(v.pt), "path": s.render_path(v.path)})
    ctx.floor("functions testing for capture-list-pool exhaustion", n, 2)
    # the only writers of the flag: constructor (false), exec (false), exhaustion sites (true)
    sites = []
    for fn in F.fn_list:
        for pt, nd, l, op in stores(fn):
            if writes_record(l, "TSQueryCursor") == "did_exceed_match_limit":
                sites.append((fn.name, strip(nd["r"]).get("v")))
    false_sites = sorted(f for f, v in sites if v == 0)
    if false_sites and set(false_sites) <= {"ts_query_cursor_exec", "ts_query_cursor_new"}:
        ctx.ok("P1", "flag-cleared-only-at-exec", "did_exceed_match_limit is cleared only by %s" % false_sites)
    else:
        ctx.bad("P1", "flag-cleared-only-at-exec", "did_exceed_match_limit is cleared in %s; only ts_query_cursor_exec/new may clear it (else a reported overflow is lost)" % false_sites)
    fn = ctx.need_fn(F, "ts_query_cursor_did_exceed_match_limit", "P1")
    if fn:
        r = [e for pt, e in fn.points() if e.get("k") == "ret"]
        if len(r) == 1 and M(fn).match("self->did_exceed_match_limit", r[0]["e"]):
            ctx.ok("P1", "accessor-reads-flag", "ts_query_cursor_did_exceed_match_limit returns the flag")
        else:
            ctx.bad("P1", "accessor-reads-flag", "ts_query_cursor_did_exceed_match_limit no longer returns self->did_exceed_match_limit")


CURSOR_FIELDS = {
    # field: (class, how it is re-initialised by ts_query_cursor_exec)
    "query": ("RESET", "self->query = query"),
    "cursor": ("RESET", "ts_tree_cursor_reset(&self->cursor, node)"),
    "states": ("RESET", "(&self->states)->size = 0"),
    "finished_states": ("RESET", "(&self->finished_states)->size = 0"),
    "finished_states_heap_size": ("RESET", "self->finished_states_heap_size = 0"),
    "capture_list_pool": ("RESET", "capture_list_pool_reset(&self->capture_list_pool)"),
    "depth": ("RESET", "self->depth = 0"),
    "next_state_id": ("RESET", "self->next_state_id = 0"),
    "next_finished_state_id": ("RESET", "self->next_finished_state_id = 0"),
    "query_options": ("RESET", "self->query_options = _"),
    "query_state": ("RESET", "self->query_state = _"),
    "operation_count": ("RESET", "self->operation_count = 0"),
    "on_visible_node": ("RESET", "self->on_visible_node = 1"),
    "ascending": ("RESET", "self->ascending = 0"),
    "halted": ("RESET", "self->halted = 0"),
    "did_exceed_match_limit": ("RESET", "self->did_exceed_match_limit = 0"),
    "max_start_depth": ("CONFIG", "set by ts_query_cursor_set_max_start_depth; deliberately survives exec"),
    "included_range": ("CONFIG", "set by set_byte_range/set_point_range; deliberately survives exec"),
    "containing_range": ("CONFIG", "set by set_containing_*_range; deliberately survives exec"),
}


def rule_f1(ctx, F):
    fields = F.record_fields("TSQueryCursor")
    fn = ctx.need_fn(F, "ts_query_cursor_exec", "F1")
    if not fields or not fn:
        ctx.bad("F1", "missing-record:TSQueryCursor", "record TSQueryCursor not found")
        return
    for f in fields:
        if f not in CURSOR_FIELDS:
            ctx.bad("F1", "UNCLASSIFIED-FIELD:TSQueryCursor.%s" % f, "TSQueryCursor has a field `%s` the rule table does not classify (is it reset by ts_query_cursor_exec?)" % f)
            continue
        cls, how = CURSOR_FIELDS[f]
        if cls == "CONFIG":
            ctx.ok("F1", "TSQueryCursor.%s" % f, "CONFIG: " + how, nontrivial=False)
            continue
        pts = [pt for pt, n in find(fn, how)]
        ctx.on_all_paths("F1", "TSQueryCursor.%s" % f, fn, pts, "ts_query_cursor_exec re-initialises %s (`%s`)" % (f, how))
    for f in CURSOR_FIELDS:
        if f not in fields:
            ctx.bad("F1", "STALE-FIELD:TSQueryCursor.%s" % f, "rule table names a field `%s` that TSQueryCursor no longer has" % f)
    # capture_list_pool_reset really frees every list
    fn = ctx.need_fn(F, "capture_list_pool_reset", "F1")
    if fn:
        if find(fn, "self->free_capture_list_count = self->list.size") and find(fn, "_->size = %d" % NONE32):
            ctx.ok("F1", "capture_list_pool_reset", "marks every list unused and counts them all free")
        else:
            ctx.bad("F1", "capture_list_pool_reset", "capture_list_pool_reset no longer marks every capture list free")


def rule_p2(ctx, F):
    fn = ctx.need_fn(F, "ts_query_cursor_remove_match", "P2")
    if not fn:
        return
    rel = [pt for pt, n in find(fn, "capture_list_pool_release(&self->capture_list_pool, _->capture_list_id)")]
    era = [pt for pt, c in fn.calls() if c.get("fn") in ("_array__erase", "finished_state_erase")]
    ctx.floor("release sites in remove_match", len(rel), 2)
    ctx.floor("erase sites in remove_match", len(era), 3)
    ctx.gate("P2", fn, rel + era, [("only the state whose id is the removed match", "state->id == match_id", True)], accept_desc="releasing/erasing a state")
    ctx.before("P2", "ts_query_cursor_remove_match:release-before-erase", fn, era, rel, "the removed state's capture list is released before the state is erased")


def rule_p3(ctx, F):
    """Document order of the capture stream rests on finished_states being a min-heap: every
    removal restores heap order in the direction the replacement element needs."""
    er = ctx.need_fn(F, "finished_state_erase", "P3")
    if er:
        repl = [pt for pt, n, l, op in stores(er) if strip(l).get("k") == "un" and "contents" in show(l) and "contents" in show(n["r"])]
        up = [pt for pt, n in find(er, "finished_state_sift_up(states, index, pool)")]
        down = [pt for pt, n in find(er, "finished_state_sift_down(states, index, pool)")]
        if not repl or not up or not down:
            ctx.bad("P3", "finished_state_erase:both-directions", "finished_state_erase must fill the hole with the last element and then sift it *up or down* (replacement store %d, sift_up %d, sift_down %d): "
                    "the last element of a min-heap can be smaller than the erased slot's parent" % (len(repl), len(up), len(down)), {"function": "finished_state_erase"})
        else:
            ctx.after("P3", "finished_state_erase:sift-after-replace", er, repl, up + down, "after filling the hole the replacement is sifted into place")
            ctx.gate("P3", er, down, [("sift down only when the replacement does not precede its parent",
                                      [("index > 0", False), ("index == 0", True), ("finished_state_precedes(&states->contents[index], &states->contents[(index - 1) / 2], pool)", False),
                                       ("finished_state_precedes(_, _, pool)", False)])], accept_desc="sifting the replacement down")
            ctx.gate("P3", er, up, [("sift up only when the replacement precedes its parent", "finished_state_precedes(_, _, pool)", True), ("…and has a parent", [("index > 0", True), ("index == 0", False), ("index != 0", True)])], accept_desc="sifting the replacement up")
    pop = ctx.need_fn(F, "finished_state_pop", "P3")
    if pop:
        repl = [pt for pt, n, l, op in stores(pop) if "contents" in show(l) and "contents" in show(n.get("r") or {})]
        down = [pt for pt, n in find(pop, "finished_state_sift_down(states, 0, pool)")]
        ctx.established_at_exit("P3", "finished_state_pop:sift-down-root", pop, down, [("states->size > 0", False)], "after removing the root the new root is sifted down")
    su = ctx.need_fn(F, "finished_state_sift_up", "P3")
    if su:
        sw = [pt for pt, n in find(su, "finished_state_swap(states, index, _)")]
        ctx.gate("P3", su, sw, [("swap with the parent only when the element precedes it", "finished_state_precedes(_, _, pool)", True)], accept_desc="swapping with the parent")
        bind(su, "parent", "(index - 1) / 2")
        bind(su, "parent", "_ / 2")
        par = su.ids_named("parent")
        d = su.single_def(par[0]) if par else None
        if d is not None and M(su).match("(index - 1) / 2", d):
            ctx.ok("P3", "finished_state_sift_up:parent-index", "parent is (index - 1) / 2")
        else:
            ctx.bad("P3", "finished_state_sift_up:parent-index", "sift_up no longer compares with (index - 1) / 2")
        ctx.established_at_exit("P3", "finished_state_sift_up:until-ordered", su, [], [("index > 0", False), ("finished_state_precedes(_, _, pool)", False)], "sift_up stops only at the root or below a preceding parent")
    sd = ctx.need_fn(F, "finished_state_sift_down", "P3")
    if sd:
        sw = [pt for pt, n in find(sd, "finished_state_swap(states, index, smallest)")]
        ctx.gate("P3", sd, sw, [("swap only with a smaller child", "smallest == index", False)], accept_desc="swapping with a child")
        ctx.established_at_exit("P3", "finished_state_sift_down:until-ordered", sd, [], [("smallest == index", True)], "sift_down stops only when neither child precedes")
        cmp = find(sd, "finished_state_precedes(...)")
        ctx.floor("child comparisons in sift_down", len(cmp), 2)
    # the heap is consulted only after new finished states were sifted in, and a changed sort key re-sifts
    nc = ctx.need_fn(F, "ts_query_cursor_next_capture", "P3")
    if nc:
        reads = [pt for pt, n in find(nc, "&(&self->finished_states)->contents[0]")] or [pt for pt, e in nc.points() if e.get("k") == "decl" and e["name"] == nc.cur("state") and "finished_states" in show(e.get("init") or {})]
        heapify = [pt for pt, n in find(nc, "ts_query_cursor__heapify_finished_states(self)")]
        ctx.before("P3", "next_capture:heapify-before-root", nc, reads, heapify, "the heap root is read only after newly finished states were sifted in")
        bump = [pt for pt, n, l, op in stores(nc) if op == "++" and "consumed_capture_count" in show(l)]
        resift = [pt for pt, n in find(nc, "finished_state_sift_down(&self->finished_states, 0, &self->capture_list_pool)")]
        ctx.floor("consumed_capture_count increments in next_capture", len(bump), 2)
        ctx.floor("re-sift calls in next_capture", len(resift), 2)
    rm = ctx.need_fn(F, "ts_query_cursor_remove_match", "P3")
    if rm:
        raw = [pt for pt, c in rm.calls() if c.get("fn") == "_array__erase" and "finished_states" in show(c["a"][0])]
        ctx.gate("P3", rm, raw, [("a plain array erase is used on finished_states only while no heap order exists", "self->finished_states_heap_size > 0", False)], accept_desc="array_erase on finished_states")


def rule_p4(ctx, F):
    """P4: the capture stream is in document order and complete: a capture of a finished match is
    handed out only when it lies before every capture of an unfinished match (ties by pattern index),
    every capture handed out is consumed, captures outside the range are skipped (not returned), and
    the stream ends only when the search is exhausted and nothing finished is left."""
    fn = ctx.need_fn(F, "ts_query_cursor_next_capture", "P4")
    if not fn:
        return
    pick = [pt for pt, n in find(fn, "first_finished_state = state")]
    ctx.floor("choices of a finished capture in ts_query_cursor_next_capture", len(pick), 1)
    ctx.gate("P4", fn, pick, [("a finished capture is chosen only if it is not after the first unfinished capture", [("node_start_byte < first_finished_capture_byte", True), ("node_start_byte == first_finished_capture_byte", True)]),
                              ("…at the same byte only for an earlier pattern", [("node_start_byte < first_finished_capture_byte", True), ("state->pattern_index < first_finished_pattern_index", True)]),
                              ("…and only if it lies inside the cursor's range", "node_outside_of_range", False)], accept_desc="choosing the finished capture")
    d = [x for i in fn.ids_named("first_finished_capture_byte") for x in fn.defs(i) if x is not None and x.get("k") != "uninit"]
    if d and any(M(fn).match("first_unfinished_capture_byte", x) for x in d):
        ctx.ok("P4", "ts_query_cursor_next_capture:bound-is-first-unfinished", "the bound a finished capture must beat starts as the first unfinished capture's byte")
    else:
        ctx.bad("P4", "ts_query_cursor_next_capture:bound-is-first-unfinished", "first_finished_capture_byte is no longer initialised from first_unfinished_capture_byte: finished captures are no longer compared with unfinished ones")
    rets = [pt for pt, e in fn.points() if e.get("k") == "ret" and strip(e["e"]).get("k") == "int" and strip(e["e"]).get("v") == 1]
    from C06 import incs
    cons = incs(fn, "state->consumed_capture_count")
    ctx.before("P4", "ts_query_cursor_next_capture:returned-capture-is-consumed", fn, rets, cons, "every capture handed out is marked consumed")
    idx = [pt for pt, n in find(fn, "*capture_index = state->consumed_capture_count")]
    ctx.before("P4", "ts_query_cursor_next_capture:index-before-consume", fn, rets, idx, "the returned capture index is the not-yet-consumed one")
    skip = [pt for pt in cons if pt not in set()]  # all increments; the one not followed by `return true` is the skip
    ends = [pt for pt, e in fn.points() if e.get("k") == "ret" and strip(e["e"]).get("k") == "int" and strip(e["e"]).get("v") == 0]
    ctx.gate("P4", fn, ends, [("the stream ends only when the search is exhausted", "ts_query_cursor__advance(self, 1)", False), ("…and no finished match is left", "self->finished_states.size == 0", True)],
             accept_desc="ending the capture stream")
    rel = [pt for pt, n in find(fn, "finished_state_pop(&self->finished_states, &self->capture_list_pool)")]
    ctx.gate("P4", fn, rel, [("a finished match is dropped only when all its captures were consumed", "state->consumed_capture_count >= captures->size", True)], accept_desc="dropping a finished match")
    fix = [pt for pt, n in find(fn, "finished_state_sift_down(&self->finished_states, 0, &self->capture_list_pool)")]
    ctx.floor("heap repairs after consuming from the root", len(fix), 2)


def rule_range(ctx, F):
    """R2: range restriction.  A match may start at a node only under the range licence (rooted
    pattern: the node intersects the range; unrooted: its parent does), inside the containing range and
    within max_start_depth — at both places where states are created; the intersection/containment
    tests compare bytes and points on both sides; setters reject inverted ranges and map end 0 to MAX."""
    fn = ctx.need_fn(F, "ts_query_cursor__advance", "R2")
    if fn:
        adds = [pt for pt, c in fn.calls() if callee_name(c) == "ts_query_cursor__add_state"]
        ctx.floor("state creations in ts_query_cursor__advance", len(adds), 2)
        for nm, pat in (("parent_intersects_range", "ts_node_is_null(parent_node) || range_intersects(_, &self->included_range)"),
                        ("node_intersects_range", "parent_intersects_range && range_intersects(&node_range, &self->included_range)"),
                        ("node_within_containing_range", "range_within(&node_range, &self->containing_range)"),
                        ("node_intersects_containing_range", "range_intersects(&node_range, &self->containing_range)")):
            bind(fn, nm, pat)
        ctx.gate("R2", fn, adds, [
            ("a match starts only at a node inside the containing range", "node_within_containing_range", True),
            ("…on a visible node", "self->on_visible_node", True),
            ("a rooted pattern starts only at a node intersecting the range; an unrooted one only under a parent that does", [("node_intersects_range", True), ("parent_intersects_range", True)]),
            ("…rooted ⇒ the node itself intersects", [("pattern->is_rooted", False), ("node_intersects_range", True)]),
            ("…unrooted ⇒ not directly under an ERROR", [("pattern->is_rooted", True), ("parent_is_error", False)]),
            ("the start depth is within max_start_depth", "start_depth <= self->max_start_depth", True),
            ("the node carries the field the pattern's first step asks for", [("step->field", False), ("field_id == step->field", True)]),
        ], accept_desc="starting a match at this node")
        for nm, pat in (("parent_intersects_range", "ts_node_is_null(parent_node) || range_intersects(_, &self->included_range)"),
                        ("node_intersects_range", "parent_intersects_range && range_intersects(&node_range, &self->included_range)"),
                        ("node_within_containing_range", "range_within(&node_range, &self->containing_range)"),
                        ("node_intersects_containing_range", "range_intersects(&node_range, &self->containing_range)")):
            bind(fn, nm, pat)
            d = [x for i in fn.ids_named(nm) for x in fn.defs(i) if x is not None and x.get("k") != "uninit"]
            if d and M(fn).match(pat, d[0]):
                ctx.ok("R2", "advance:%s-definition" % nm, "%s = %s" % (nm, pat))
            else:
                ctx.bad("R2", "advance:%s-definition" % nm, "%s is no longer `%s` in ts_query_cursor__advance" % (nm, pat))
        desc = [pt for pt, c in fn.calls() if callee_name(c) == "ts_tree_cursor_goto_first_child_internal"]
        ctx.gate("R2", fn, desc, [("the walk descends only into nodes that intersect the containing range", "node_intersects_containing_range", True),
                                  ("…and only if a match can start or continue below", "ts_query_cursor__should_descend(self, node_intersects_range)", True)], accept_desc="descending into the node")
    for name, parts in (("range_intersects", ["a->end_byte > b->start_byte", "a->start_byte < b->end_byte", "point_gt(a->end_point, b->start_point)", "point_lt(a->start_point, b->end_point)"]),
                        ("range_within", ["a->start_byte >= b->start_byte", "a->end_byte <= b->end_byte", "point_gte(a->start_point, b->start_point)", "point_lte(a->end_point, b->end_point)"])):
        g = ctx.need_fn(F, name, "R2")
        if not g:
            continue
        rets = [strip(e["e"]) for pt, e in g.points() if e.get("k") == "ret"]
        atoms = []
        for r in rets:
            for c in conjuncts(r):
                atoms += disjuncts(c)
        m = M(g)
        for p in parts:
            key = "%s:tests:%s" % (name, p)
            if any(m.match(p, a) for a in atoms):
                ctx.ok("R2", key, "%s tests `%s`" % (name, p), nontrivial=False)
            else:
                ctx.bad("R2", key, "%s no longer tests `%s`: byte and point bounds must both hold on both sides" % (name, p))
    for name, fld, kind in (("ts_query_cursor_set_byte_range", "included_range", "byte"), ("ts_query_cursor_set_containing_byte_range", "containing_range", "byte"),
                            ("ts_query_cursor_set_point_range", "included_range", "point"), ("ts_query_cursor_set_containing_point_range", "containing_range", "point")):
        g = ctx.need_fn(F, name, "R2")
        if not g:
            continue
        st = [pt for pt, n in find(g, "self->%s.start_%s = start_%s" % (fld, kind, kind))] + [pt for pt, n in find(g, "self->%s.end_%s = end_%s" % (fld, kind, kind))]
        if len(st) != 2:
            ctx.bad("R2", name + ":stores-both-ends", "%s no longer stores both ends of %s" % (name, fld))
            continue
        bad_cond = "start_byte > end_byte" if kind == "byte" else "point_gt(start_point, end_point)"
        ctx.gate("R2", g, st, [("an inverted range is rejected, not stored", bad_cond, False)], accept_desc="storing the range")


def rule_rust(ctx):
    """Text predicates: each multi-chunk node text is assembled in a freshly cleared scratch buffer."""
    import rsrules
    from rsrules import calls_named
    ctx.config = "rust"
    F = ctx.extract.rsfacts("tree_sitter")
    fns = [f for f in F.fn_list if f.name.endswith("NodeText::<'a, T>::get_text") or f.name.endswith("NodeText::get_text") or "NodeText" in f.name and f.name.endswith("::get_text")]
    if len(fns) != 1:
        ctx.bad("R1", "NodeText::get_text:anchor", "the text-predicate helper NodeText::get_text was not found exactly once (found %d)" % len(fns))
        return
    fn = fns[0]
    ext = [pt for pt, c, d in calls_named(fn, "Vec", "extend_from_slice")]
    clr = [pt for pt, c, d in calls_named(fn, "Vec", "::clear")]
    ctx.floor("buffer appends in NodeText::get_text", len(ext), 2)
    ctx.before("R1", "NodeText::get_text:buffer-cleared-per-text", fn, ext, clr,
               "the scratch buffer is cleared inside get_text before a multi-chunk text is assembled (one NodeText serves several texts per match)")
    sat = [f for f in F.fn_list if f.name.endswith("satisfies_text_predicates")]
    if sat:
        ctx.ok("R1", "satisfies_text_predicates:present", "QueryMatch::satisfies_text_predicates analysed (%d blocks)" % len(sat[0].blocks), nontrivial=False)
    rule_any_all(ctx, F)
    rule_pairing(ctx, F)


def rule_pairing(ctx, F):
    """T2: `#eq? @a @b` pairs the nodes of the two captures and then checks that neither has nodes left over.  A node is
    taken from one capture only when the other capture has a node to pair it with (both were peeked); taking first and
    testing afterwards swallows the extra node of the longer capture, and the left-over check then passes for captures
    whose node counts differ by one."""
    import rsrules
    from rsrules import text_gate, deep_text, calls_named
    cl = [f for f in F.fn_list if "satisfies_text_predicates::{closure#0}" in f.name and f.name.count("{closure") == 1]
    if len(cl) != 1:
        return
    fn = cl[0]
    final = set()
    for pt, c, d in calls_named(fn, "is_none"):
        t = deep_text(fn, c["a"][0], user=True)
        if "Iterator>::next(" in t:
            final.add(t.split("Iterator>::next(")[1][:12])
    takes = []
    for pt, c, d in calls_named(fn, "Peekable", "::next"):
        arg = deep_text(fn, c["a"][0], user=True)
        if "nodes_" not in arg:
            continue
        # the calls that feed the final `.next().is_none()` left-over check are reads of the remainder, not pairings
        fed = any(deep_text(fn, c2["a"][0], user=True).find("next(" + arg) >= 0 and fn.loc(p2) == fn.loc(pt) for p2, c2, d2 in calls_named(fn, "is_none"))
        if not fed:
            takes.append((pt, arg))
    ctx.floor("nodes taken for pairing in the two-capture predicate", len(takes), 2)
    pts = [pt for pt, a in takes]
    text_gate(ctx, "T2", fn, pts, [("a node is taken from @a only if @b has one to pair it with", [(("is_some(", "peek(&nodes_1"), True)]),
                                  ("…and from @b only if @a has one", [(("is_some(", "peek(&nodes_2"), True)])], accept_desc="taking a node for pairing")


def rule_any_all(ctx, F):
    """T1: `#any-eq?`, `#any-not-eq?`, `#any-match?` … hold only if some captured node satisfies them.  In the three
    predicate arms that carry a `match_all_nodes` flag, the answer `true` is given only after (a) a node satisfied the
    test, or (b) the flag says *all* nodes must pass and none failed, or (c) there was no node at all.  A plain `true`
    after the loop accepts a match in which no node satisfies an `any-` predicate."""
    import rsrules
    from rsrules import cond_text
    cl = [f for f in F.fn_list if "satisfies_text_predicates::{closure#0}" in f.name and f.name.count("{closure") == 1]
    if len(cl) != 1:
        ctx.bad("T1", "satisfies_text_predicates:closure", "the per-predicate closure of satisfies_text_predicates was not found exactly once (%d)" % len(cl))
        return
    fn = cl[0]
    trues = [pt for pt, e in fn.points() for x in own_walk(e) if x.get("k") == "assign" and show(x["l"]) == "_0" and strip(x["r"]).get("k") == "int" and strip(x["r"]).get("v") == 1]
    ARMS = ("EqString", "EqCapture", "MatchString")

    class AnyAll(Monitor):
        # m = (arm, licensed)
        def elem(self, m, pt, e, s):
            if pt in trues and m[0] in ARMS and not m[1]:
                return Viol("answers `true` in the %s arm although no node satisfied the predicate, the all-nodes flag was not consulted and the node list was not found empty" % m[0], pt)
            return m

        def edge(self, m, bid, edge, cond, truth, s):
            if cond is None:
                return m
            if isinstance(edge.lab, dict):
                txt, _ = cond_text(fn, cond, True)
                if txt == "discriminant(*predicate)" or txt.startswith("discriminant(*predicate"):
                    return (edge.lab.get("name") or "other", False)
                return m
            if truth is None:
                return m
            txt, t = cond_text(fn, cond, truth)
            both = "is_positive_match" in txt and re.search(r"\bis_positive\b", txt.replace("is_positive_match", "")) is not None
            if both and ((" == " in txt and t) or (" != " in txt and not t)):
                return (m[0], True)
            if "match_all_nodes" in txt and t:
                return (m[0], True)
            if ("is_empty" in txt or "is_none(" in txt) and "peek" in txt and t:
                return (m[0], True)
            return m
    sr = Search(fn, AnyAll(), budget=400000)
    v = sr.run(("start", False))
    if v is None:
        ctx.ok("T1", "satisfies_text_predicates:any-needs-a-witness", "in the EqString / EqCapture / MatchString arms `true` is answered only with a satisfying node, under the all-nodes flag, or for an empty node list (%d states)" % sr.states)
    else:
        ctx.bad("T1", "satisfies_text_predicates:any-needs-a-witness", "satisfies_text_predicates %s (%s): `(#any-eq? @k \"zz\")` accepts matches in which no @k node equals \"zz\"" % (v.msg, fn.loc(v.pt)),
                {"path": sr.render_path(v.path)[-6:]})


RANGE_SETTERS = {"ts_query_cursor_set_byte_range", "ts_query_cursor_set_point_range", "ts_query_cursor_set_containing_byte_range", "ts_query_cursor_set_containing_point_range",
                 "ts_query_cursor_new", "ts_query_cursor_exec"}


def rule_both_units(ctx, F):
    """R3: a cursor's range is given either in bytes or in points; the other unit is left at 0 / MAX.  So wherever the
    cursor compares a node against one bound of its range it compares in both units: in every function (but the setters)
    the byte bound and the point bound of `included_range` / `containing_range` are read equally often."""
    from collections import Counter
    n = 0
    for fn in F.fn_list:
        if not fn.file.endswith("query.c") or fn.name in RANGE_SETTERS or not fn.blocks:
            continue
        c = Counter()
        for pt, e in fn.points():
            for x in own_walk(e):
                if x.get("k") == "mem" and x.get("f") in ("start_byte", "start_point", "end_byte", "end_point"):
                    b = strip(x["b"])
                    if b.get("k") == "mem" and b.get("f") in ("included_range", "containing_range"):
                        c[(b["f"], x["f"])] += 1
        for rng in ("included_range", "containing_range"):
            for side in ("start", "end"):
                nb, np_ = c[(rng, side + "_byte")], c[(rng, side + "_point")]
                if nb == 0 and np_ == 0:
                    continue
                n += 1
                key = "%s:%s.%s-in-both-units" % (fn.name, rng, side)
                if nb == np_:
                    ctx.ok("R3", key, "%s compares against %s.%s in bytes and in points (%d each)" % (fn.name, rng, side, nb), nontrivial=False)
                else:
                    ctx.bad("R3", key, "%s reads %s.%s_byte %d time(s) but %s.%s_point %d time(s): under a range given in the other unit the missing comparison never fires "
                            "(a point range leaves start_byte at 0), so captures or matches outside the range are returned" % (fn.name, rng, side, nb, rng, side, np_))
    ctx.floor("range bounds compared in both units", n, 3)


def rule_limit_in_use(ctx, F):
    """L2: the match limit bounds the capture lists *in use*, whatever was allocated before.  A cursor that ran without a
    limit keeps its lists; when a lower limit is set afterwards, handing out one of those spare lists must still be
    refused once `limit` lists are in use — otherwise a re-used cursor finds more matches than a fresh one with the same
    limit and never reports that the limit was exceeded.  So every successful answer of capture_list_pool_acquire lies
    behind a test that involves max_capture_list_count."""
    fn = ctx.need_fn(F, "capture_list_pool_acquire", "L2")
    if not fn:
        return
    oks = [pt for pt, e in fn.points() if e.get("k") == "ret" and e.get("e") is not None and not (strip(e["e"]).get("k") == "int" and strip(e["e"]).get("v") in (65535, 4294967295)) and "CAPTURE_LIST_NONE" not in show(e["e"])]
    ctx.floor("successful answers of capture_list_pool_acquire", len(oks), 2)
    alts = [("capture_list_pool_is_empty(self)", False), ("i >= self->max_capture_list_count", False), ("_ >= self->max_capture_list_count", False), ("_ < self->max_capture_list_count", True)]
    ctx.gate("L2", fn, oks, [("a list is handed out only while fewer than the limit are in use", alts)], accept_desc="handing out a capture list")
    h = F.fns.get("capture_list_pool_is_empty")
    if h is not None:
        rets = [show(e["e"]) for pt, e in h.points() if e.get("k") == "ret" and e.get("e") is not None]
        if rets and all("max_capture_list_count" in r for r in rets):
            in_use = all("free_capture_list_count" in r for r in rets)
            ctx.ok("L2", "capture_list_pool_is_empty:compares-with-the-limit", "capture_list_pool_is_empty is `%s`" % rets[0][:90], nontrivial=False)
        else:
            ctx.bad("L2", "capture_list_pool_is_empty:compares-with-the-limit", "capture_list_pool_is_empty no longer compares with max_capture_list_count")


def rule_rooted(ctx, F):
    """R4: a pattern is "rooted" only if no later step of it sits at the root's depth.  The range restriction lets a rooted
    pattern start only at a node that itself intersects the range (R2); a top-level `(x)+ @c` has a second depth-0 step
    (the loop-back pass-through) and may start anywhere under an intersecting parent — otherwise the cursor starts the
    repetition in the middle of a run and reports a truncated match the unrestricted cursor never reports.  In
    ts_query_new the scan over the pattern's steps moves on to the next step only after finding that the current one is
    not at the start depth (and stops at the dead end)."""
    from flow import GateMonitor, Search as _Search
    fn = ctx.need_fn(F, "ts_query_new", "R4")
    if not fn:
        return
    key = "ts_query_new:every-step-depth-compared"
    unroot = [pt for pt, n in find(fn, "is_rooted = 0")]
    if not unroot:
        ctx.bad("R4", key, "ts_query_new no longer clears is_rooted for a pattern with a second step at the root's depth")
        return
    # the loop around that store: blocks from which the store is reachable and that are reachable from it … the store is
    # followed by `break`, so take the cycle through the comparison that guards it
    guard = set()
    for pt in unroot:
        for b in fn.blocks.values():
            if any(e.to == pt[0] for e in b.succs) and fn.cond(b.id) is not None:
                guard.add(b.id)
    def dist(src, dst):
        seen, frontier, d = {src}, [src], 0
        while frontier:
            if dst in frontier:
                return d
            nxt = []
            for x in frontier:
                for ed in fn.blocks[x].succs:
                    if ed.to not in seen:
                        seen.add(ed.to)
                        nxt.append(ed.to)
            frontier, d = nxt, d + 1
        return None
    steps = []
    for pt, e in fn.points():
        if any(n.get("k") == "un" and n.get("op") in ("post++", "pre++") for n in own_walk(e)):
            ds = [(dist(pt[0], g), dist(g, pt[0])) for g in guard]
            ds = [a + b for a, b in ds if a is not None and b is not None]
            if ds:
                steps.append((min(ds), pt))
    if not steps:
        ctx.bad("R4", key, "the loop step of the scan that computes is_rooted was not found")
        return
    # the innermost loop around the comparison: the increment on the shortest cycle through it
    best = min(d for d, pt in steps)
    cand = [pt for d, pt in steps if d == best]
    mon_ok = []
    for pt in cand:
        g = GateMonitor([pt], [("child_step->depth == start_depth", False)], None, ())
        g.label = "depth compared"
        sr = _Search(fn, g)
        mon_ok.append((pt, sr.run(0) is None))
    ctx.analysed.setdefault("R4_loop_steps", [fn.loc(pt) for pt in cand])
    if all(ok for pt, ok in mon_ok):
        ctx.ok("R4", key, "the scan advances to the next step only after `child_step->depth == start_depth` was found false for the current one")
    else:
        ctx.bad("R4", key, "ts_query_new's scan for a second step at the root's depth can move on to the next step without comparing the current step's depth (%s): a pattern whose extra depth-0 step is skipped — "
                "e.g. the pass-through step of a top-level `(x)+` — counts as rooted, and under a byte/point range the cursor starts it in the middle of a run of siblings" % ", ".join(fn.loc(pt) for pt, ok in mon_ok))


def rule_definite(ctx, F):
    """D1: next_capture hands out the captures of an unfinished match only when the match cannot fail any more.
    ts_query_cursor__first_in_progress_capture reports `*is_definite` — in every case in which it is true the state's
    next step is guaranteed by the grammar (root_pattern_guaranteed) *and* not anchored (the analysis ignores `.` anchors:
    an anchored step can still fail on an intervening named node, e.g. a comment, and the capture would be in the capture
    stream but in no match)."""
    from flow import cond_cases
    fn = ctx.need_fn(F, "ts_query_cursor__first_in_progress_capture", "D1")
    if not fn:
        return
    # the out-parameter that reports definiteness: the function's `bool *` parameter (whatever it is called)
    out_bool = {p["id"] for p in fn.params if str(p.get("t") or "").replace(" ", "") in ("_Bool*", "bool*")}
    sts = [(pt, n) for pt, e in fn.points() for n in own_walk(e) if n.get("k") == "assign" and n.get("op") == "=" and strip(n["l"]).get("k") == "un" and strip(n["l"]).get("op") == "*"
           and strip(strip(n["l"])["e"]).get("k") == "ref" and strip(strip(n["l"])["e"]).get("id") in out_bool]
    if not sts:
        ctx.bad("D1", "first_in_progress_capture:is_definite", "ts_query_cursor__first_in_progress_capture no longer stores *is_definite")
        return
    m = M(fn)
    need = [("step->root_pattern_guaranteed", True, "the rest of the pattern is guaranteed"), ("step->is_immediate", False, "the next step is not anchored")]
    for pt, n in sts:
        r = strip(n["r"])
        if r.get("k") == "int" and not r.get("v"):
            continue
        cases = cond_cases(n["r"], True)
        for pat, want, what in need:
            key = "first_in_progress_capture:definite-only-if:%s" % pat.split("->")[-1]
            ok = bool(cases) and all(any(m.match(pat, ex) and tr == want for ex, tr in case) for case in cases)
            if ok:
                ctx.ok("D1", key, "*is_definite is true only when %s (`%s` is %s in every case of `%s`)" % (what, pat, want, show(n["r"])[:70]), sample={"site": fn.loc(pt)})
            else:
                ctx.bad("D1", key, "*is_definite = `%s` (%s) can be true although not (%s): next_capture then returns a capture of a match that can still fail, and the capture stream "
                        "contains a triple that no match contains" % (show(n["r"])[:80], fn.loc(pt), what), {"site": fn.loc(pt)})
    # the caller believes it: a definite in-progress capture is returned without waiting
    g = ctx.need_fn(F, "ts_query_cursor_next_capture", "D1")
    if g:
        use = [pt for pt, c in g.calls() if callee_name(c) == "ts_query_cursor__first_in_progress_capture"]
        ctx.floor("calls of first_in_progress_capture in next_capture", len(use), 1)


# ------------------------------------------------------------------------------------------------
# S1: arrays that are binary-searched are only ever filled in order
# ------------------------------------------------------------------------------------------------
ORDER_PRESERVING = {"array_insert_sorted_by", "array_insert_sorted_with", "array_clear", "array_delete", "array_erase", "array_pop", "array_init", "array_new",
                    "array_search_sorted_by", "array_search_sorted_with", "array_get", "array_back", "array_front", "array_reserve"}
# by-hand exceptions: (array, function, outermost macro) -> reason
SORTED_TABLED = {
    ("TSQuery.step_offsets", "ts_query__parse_pattern", "array_push"):
        "appended while the pattern is parsed: the step index of each new entry is the current (only growing) number of steps, and an entry with the same index is not added twice",
}


def array_subject(n, fn):
    """The array a `->size` / `->contents` / `->capacity` access refers to: 'Rec.field' for a struct field, 'fn:name' for a local."""
    b = strip(n)
    while isinstance(b, dict) and b.get("k") in ("un", "cast", "paren"):
        b = strip(b.get("e"))
    if not isinstance(b, dict):
        return None
    if b.get("k") == "mem" and b.get("rec"):
        return "%s.%s" % (b["rec"], b["f"])
    if b.get("k") == "ref" and b.get("dk") in ("local", "param"):
        return "%s:%s" % (fn.name, b["name"])
    return None


def rule_sorted(ctx, F):
    """S1: binary search is only right on a sorted array.  Every array that some function looks up with
    array_search_sorted_* is modified only by order-preserving operations (sorted insert, removal, clearing,
    a whole-array copy from the same field) — an append or bulk append leaves it unsorted and the lookup
    silently misses entries (e.g. should_descend then skips repetition nodes that contain rootless matches)."""
    searched = {}
    mods = []
    for fn in F.fn_list:
        if not fn.file.startswith("lib/src") or not fn.blocks:
            continue
        for pt, e in fn.points():
            ms = fn.macro(pt)
            for n in own_walk(e):
                k = n.get("k")
                if "_array__search_sorted" in ms and k == "mem" and n.get("f") == "contents":
                    a = array_subject(n["b"], fn)
                    if a:
                        searched.setdefault(a, set()).add(fn.name)
                tgt = None
                if k == "assign":
                    l = strip(n["l"])
                    if l.get("k") == "idx":
                        l = strip(l["b"])
                    if l.get("k") == "mem" and l.get("f") in ("size", "contents"):
                        tgt = array_subject(l["b"], fn)
                elif k == "un" and n.get("op") in ("post++", "pre++", "post--", "pre--") and strip(n["e"]).get("k") == "mem" and strip(n["e"]).get("f") == "size":
                    tgt = array_subject(strip(n["e"])["b"], fn)
                elif k == "call" and str(callee_name(n) or "").startswith("_array__"):
                    for a in n.get("a", []):
                        x = strip(a)
                        while isinstance(x, dict) and x.get("k") in ("un", "cast"):
                            x = strip(x.get("e"))
                        if isinstance(x, dict) and x.get("k") == "mem" and x.get("f") in ("contents", "size"):
                            tgt = tgt or array_subject(x["b"], fn)
                            break
                if tgt:
                    src = None
                    if k == "call" and callee_name(n) == "_array__assign":
                        srcs = [array_subject(strip(x)["b"], fn) for a in n.get("a", []) for x in own_walk(a) if x.get("k") == "mem" and x.get("f") == "contents"]
                        src = [x for x in srcs if x and x != tgt]
                    mods.append((tgt, fn, pt, ms[0] if ms else "(direct store)", src))
    ctx.analysed["binary_searched_arrays"] = sorted(searched)
    ctx.floor("arrays looked up with array_search_sorted_*", len(searched), 4)
    seen = set()
    for tgt, fn, pt, outer, src in mods:
        if tgt not in searched:
            continue
        key = "%s:%s:%s" % (tgt, fn.name, outer)
        if key in seen:
            continue
        if outer in ORDER_PRESERVING:
            seen.add(key)
            ctx.ok("S1", key, "order-preserving (%s)" % outer, nontrivial=False)
        elif outer == "array_assign" and src is not None and all(x.split(".")[-1] == tgt.split(".")[-1] and "." in x for x in src):
            seen.add(key)
            ctx.ok("S1", key, "whole-array copy from the same (sorted) field of another object", nontrivial=False)
        elif (tgt, fn.name, outer) in SORTED_TABLED:
            seen.add(key)
            ctx.ok("S1", key, "tabled: " + SORTED_TABLED[(tgt, fn.name, outer)], nontrivial=False)
        else:
            seen.add(key)
            ctx.bad("S1", key, "%s modifies `%s` with %s (%s), but %s look(s) it up by binary search: an entry added out of order is never found"
                    % (fn.name, tgt, outer, fn.loc(pt), ", ".join(sorted(searched[tgt]))[:120]), {"function": fn.name, "site": fn.loc(pt), "array": tgt})
    ctx.floor("modifications of binary-searched arrays examined", len(seen), 6)


def run(ctx):
    for cfg in configs(ctx):
        ctx.config = cfg
        F = ctx.extract.cfacts(cfg)
        ctx.analysed["c_functions_" + cfg] = len(F.fn_list)
        rule_p1(ctx, F)
        rule_f1(ctx, F)
        rule_p2(ctx, F)
        rule_p3(ctx, F)
        rule_p4(ctx, F)
        rule_range(ctx, F)
        rule_sorted(ctx, F)
        rule_definite(ctx, F)
        rule_both_units(ctx, F)
        rule_limit_in_use(ctx, F)
        rule_rooted(ctx, F)
    rule_rust(ctx)
    return ctx.finish(
        "Pairing and field-coverage rules over query.c: every discard of a query state under capture-list-pool exhaustion is preceded by "
        "did_exceed_match_limit = true; ts_query_cursor_exec re-initialises each per-execution field of TSQueryCursor on every path; "
        "remove_match touches only the state with the given id. Does not decide capture/match stream equality or range semantics.")
