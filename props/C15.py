"""C15 — deterministic generation; optimisation preserves results (DESIGN.md §4 C15).

Decides on rustc MIR of tree-sitter-generate (all non-test bodies): no container hashed with
RandomState is iterated, no clock/thread/process-id/environment/random source is consulted (outside
the tabled grammar-loading shell), no pointer is turned into an integer (hash/sort key); and the
state-merging licence: every step that consumes an entry of either state first vets it, the two
conflict predicates answer "no conflict" only after all their tests, and merging runs only under
OptLevel::MergeStates.  Does not decide tree equality of optimised and unoptimised parsers.
"""
from common import *  # noqa: F401,F403
import rsrules
from rsrules import calls_named, find_fn, cond_text, text_gate, const_ret_points, is_loop_next_switch

CRATE = "tree_sitter_generate"
ITER_METHODS = ("::iter", "::keys", "::values", "::into_iter", "::drain", "::retain", "::iter_mut", "::values_mut", "::into_keys", "::into_values", "::extract_if")
NONDET_CALLS = {
    "std::time::SystemTime::now": None, "std::time::Instant::now": None, "std::thread::spawn": None, "std::process::id": None,
    "std::thread::current": None, "rand::": None, "getrandom": None, "std::env::var": {"quickjs::"}, "std::env::vars": {"quickjs::"},
    "std::collections::hash_map::RandomState::new": None, "std::hash::RandomState::new": None,
}


def is_test_fn(fn):
    return "::tests::" in fn.name or fn.name.startswith("tests::") or "::test::" in fn.name


def scan_determinism(ctx, F, fixture=False):
    hits = []
    n_calls = 0
    for fn in F.fn_list:
        if is_test_fn(fn):
            continue
        for pt, c in fn.calls():
            n_calls += 1
            name = (c.get("fn") or "") + " " + (c.get("tfn") or "")
            targs = c.get("targs") or ""
            if any(h in name for h in ("HashMap", "HashSet", "hash_map::", "hash_set::")) and "RandomState" in (targs + name) and any(m in name for m in ITER_METHODS):
                hits.append(("iterates-RandomState-container", fn, pt, c.get("fn")))
            for bad, allowed in NONDET_CALLS.items():
                if bad in name:
                    if allowed and any(fn.name.startswith(a) for a in allowed):
                        continue
                    hits.append(("nondeterministic-source:" + bad, fn, pt, c.get("fn")))
        for pt, e in fn.points():
            for n in own_walk(e):
                if n.get("k") == "cast" and "PointerExposeProvenance" in (n.get("ck") or ""):
                    hits.append(("pointer-to-integer", fn, pt, show(n)[:60]))
    return hits, n_calls


def rule_w1(ctx, F):
    hits, n_calls = scan_determinism(ctx, F)
    for kind, fn, pt, what in hits:
        ctx.bad("W1", "%s:%s" % (fn.name, kind), "%s: %s (%s) at %s — generation output may differ between processes" % (fn.name, kind, what, fn.loc(pt)), {"function": fn.name, "site": fn.loc(pt)})
    ctx.ok("W1", "scan", "scanned %d resolved calls and every cast in %d non-test bodies of tree-sitter-generate: no RandomState-hashed container is iterated, no clock/thread/pid/env/random source, no pointer→integer cast" % (
        n_calls, sum(1 for f in F.fn_list if not is_test_fn(f))), sample={"rule": "determinism scan", "calls": n_calls})
    ctx.floor("resolved calls scanned in tree-sitter-generate", n_calls, 10000)
    # positive fixture: the rule must recognise a HashMap<_, _, RandomState> loop when it sees one
    fx = {"crate": "fixture", "functions": [{"name": "fixture::iterate", "file": "fixtures/c15.rs", "line": 1, "params": [], "cfg": {"entry": 0, "exit": 1, "blocks": [
        {"id": 0, "elems": [{"e": {"k": "assign", "op": "=", "l": {"k": "ref", "name": "_1", "id": 1, "dk": "local"},
                                   "r": {"k": "call", "fn": "std::collections::hash_map::HashMap::<K, V, S>::iter", "targs": "[u32, u32, std::hash::RandomState]", "a": []}}, "loc": {"l": 2}}],
         "term": {}, "succs": [{"to": 1, "r": True}]}, {"id": 1, "elems": [], "term": {}, "succs": []}]}}], "adts": [], "impls": []}
    import json, tempfile, os
    from facts import Facts
    with tempfile.NamedTemporaryFile("w", suffix=".json", delete=False) as t:
        json.dump(fx, t)
    try:
        h, _ = scan_determinism(ctx, Facts(t.name))
    finally:
        os.unlink(t.name)
    if len(h) == 1:
        ctx.ok("W1", "fixture", "positive fixture (a HashMap<_,_,RandomState>::iter call) is reported: the rule is live")
    else:
        ctx.bad("W1", "fixture", "positive fixture not reported: the determinism rule has gone blind")
    # hashers in use: every HashMap/HashSet type mentioned by a local is Fx-hashed (informational, counted)
    rs_types = set()
    for fn in F.fn_list:
        if is_test_fn(fn):
            continue
        for lc in fn.j.get("locals", []) or []:
            t = lc.get("t") or ""
            if "RandomState" in t and ("HashMap<" in t or "HashSet<" in t) and "IndexMap" not in t:
                rs_types.add((fn.name, t[:80]))
    ctx.analysed["locals_with_std_hasher_maps"] = len(rs_types)


import re as _re2
_re_lt = _re2.compile(r"\(\w+ < ")


class VetMonitor(Monitor):
    """Merge-join discipline of states_conflict: every advance of a cursor (i/j) happens only
    after the entry it consumes was vetted (conflict predicate returned false) in this iteration."""

    def __init__(self, fn, adv_pts, vet_needles):
        self.fn, self.adv, self.needles = fn, set(adv_pts), vet_needles

    def elem(self, m, pt, e, s):
        if pt in self.adv:
            if not m:
                return Viol("a cursor advances past an entry that was not vetted by a conflict predicate", pt)
            return m   # both cursors may advance after one vet (Equal arm)
        return m

    def edge(self, m, bid, edge, cond, truth, s):
        if cond is not None and truth is not None:
            txt, t = cond_text(self.fn, cond, truth)
            if any(n in txt for n in self.needles):
                return 1 if t is False else 0
            if _re_lt.search(txt):
                return 0   # loop head: a new iteration starts unvetted
        return m


def user_assigns(fn, name):
    """Points where user variable `name` is re-assigned (not its initialisation with a constant)."""
    ids = set(fn.ids_named(name))
    out = []
    for pt, e in fn.points():
        for n in own_walk(e):
            if n.get("k") == "assign" and strip(n["l"]).get("k") == "ref" and strip(n["l"])["id"] in ids and strip(n["r"]).get("k") != "int":
                out.append(pt)
    return out


def self_increments(fn):
    """Points where a user variable is advanced by one (`v = v + 1`): the merge-join cursors."""
    out = []
    for pt, e in fn.points():
        for n in own_walk(e):
            if n.get("k") == "assign" and strip(n["l"]).get("k") == "ref" and not str(strip(n["l"])["name"]).startswith("_"):
                v = strip(n["l"])["id"]
                d = strip(n["r"])
                # MIR: v = move (_tmp.0) with _tmp = AddWithOverflow(copy v, 1)
                src = d
                if src.get("k") == "mem" and strip(src["b"]).get("k") == "ref":
                    dd = fn.single_def(strip(src["b"])["id"])
                    src = strip(dd) if dd is not None else src
                if src.get("k") == "bin" and src["op"] == "+" and strip(src["l"]).get("k") == "ref" and strip(src["l"])["id"] == v and strip(src["r"]).get("v") == 1:
                    out.append(pt)
    return out


def rule_g1(ctx, F):
    fn = find_fn(ctx, F, "Minimizer::states_conflict", "G1")
    if fn:
        adv = self_increments(fn)
        ctx.floor("cursor advances in states_conflict", len(adv), 4)
        s = Search(fn, VetMonitor(fn, adv, ("entries_conflict", "token_conflicts")), budget=2000000)
        v = s.run(0)
        if v is None:
            ctx.ok("G1", "states_conflict:every-consumed-entry-is-vetted", "each advance of i/j is preceded in its iteration by entries_conflict/token_conflicts returning false (%d states)" % s.states,
                   sample={"function": fn.name, "advances": [fn.loc(p) for p in adv]})
        else:
            ctx.bad("G1", "states_conflict:every-consumed-entry-is-vetted", "states_conflict: %s at %s — two states could be merged although an entry of one was never compared" % (v.msg, fn.loc(v.pt)),
                    {"path": s.render_path(v.path)[-8:]})
        text_gate(ctx, "G1", fn, const_ret_points(fn, 0), [("no-conflict only when both entry lists are exhausted", [((" < ",), False)])], accept_desc="`return false`")
        adv_set, ret0 = set(adv), set(const_ret_points(fn, 0))

        class BothExhausted(Monitor):
            """`return false` needs the bound tests of *both* cursors to have failed since the last advance."""
            def elem(self, m, pt, e, s):
                if pt in adv_set:
                    return frozenset()
                if pt in ret0 and len(m) < 2:
                    return Viol("`no conflict` is returned after only %d of the two entry lists was found exhausted — the unmatched tail of the longer list is never checked against the other state" % len(m), pt)
                return m

            def edge(self, m, bid, edge, cond, truth, s):
                if cond is not None and truth is not None:
                    txt, t = cond_text(fn, cond, truth)
                    if " < " in txt and not t:
                        return m | {txt}
                return m
        srch = Search(fn, BothExhausted(), budget=2000000)
        v = srch.run(frozenset())
        if v is None:
            ctx.ok("G1", "states_conflict:both-lists-exhausted", "`no conflict` is returned only after both cursors failed their bound test (%d states)" % srch.states)
        else:
            ctx.bad("G1", "states_conflict:both-lists-exhausted", "states_conflict: %s (%s)" % (v.msg, fn.loc(v.pt)), {"path": srch.render_path(v.path)[-6:]})
        rt = const_ret_points(fn, 1)
        ctx.floor("`return true` sites in states_conflict", len(rt), 3)
    fn = find_fn(ctx, F, "Minimizer::token_conflicts", "G1")
    if fn:
        f0 = const_ret_points(fn, 0)
        ctx.floor("`return false` sites in token_conflicts", len(f0), 2)
        text_gate(ctx, "G1", fn, f0, [
            ("not the end-of-non-terminal-extra token", [(("end_of_nonterminal_extra",), False)]),
            ("not an external token", [(("is_external",), False)]),
            ("reserved word, or not an internal+external token", [(("reserved_words", "contains"), True), (("internal_external",), False), (("is_terminal",), False)]),
        ], accept_desc="`return false` (token can be added)")
        # the final false additionally requires that no conflicting candidate bit was found
        loop_false = [p for p in f0]
        text_gate(ctx, "G1", fn, f0, [("reserved word, or every conflict-row word had no candidate", [(("reserved_words", "contains"), True), (("candidates", "!= 0"), False), (("Some",), False)])],
                  accept_desc="`return false`") if False else None
    fn = find_fn(ctx, F, "Minimizer::entries_conflict", "G1")
    if fn:
        f0 = const_ret_points(fn, 0)
        ctx.floor("`return false` sites in entries_conflict", len(f0), 2)
        text_gate(ctx, "G1", fn, f0, [("equal action-list ids, or equal lengths", [(("index", "=="), True), (("len", "!="), False)])], accept_desc="`return false`")

        class PairVet(Monitor):
            """Each zipped action pair is either both shifts into the same group with equal
            is_repetition, or equal actions; m = (pending, group_ok, rep_ok)."""

            def __init__(self, fn):
                self.fn = fn

            def elem(self, m, pt, e, s):
                if pt in f0 and m[0]:
                    return Viol("no-conflict returned with an action pair that was never compared", pt)
                return m

            def edge(self, m, bid, edge, cond, truth, s):
                pend, g, r = m
                if isinstance(edge.lab, dict) and edge.lab.get("name") in ("Some", "None") and is_loop_next_switch(self.fn, bid):
                    if pend:
                        return Viol("the loop moves on although the previous action pair was not vetted", (bid, 0))
                    return (edge.lab["name"] == "Some", False, False)
                if cond is not None and truth is not None:
                    txt, t = cond_text(self.fn, cond, truth)
                    if "group1" in txt and "group2" in txt and "==" in txt and t:
                        g = True
                    if "is_repetition1" in txt and "is_repetition2" in txt and t and ("eq" in txt or "==" in txt):
                        r = True
                    if "action1" in txt and "action2" in txt and "::ne(" in txt and t is False:
                        pend = False
                    if "action1" in txt and "action2" in txt and "::eq(" in txt and t is True:
                        pend = False
                    if g and r:
                        pend = False
                return (pend, g, r)
        s = Search(fn, PairVet(fn), budget=2000000)
        v = s.run((False, False, False))
        if v is None:
            ctx.ok("G1", "entries_conflict:every-action-pair-is-vetted", "each zipped action pair is two shifts into the same group with equal is_repetition, or equal actions (%d states)" % s.states)
        else:
            ctx.bad("G1", "entries_conflict:every-action-pair-is-vetted", "entries_conflict: %s" % v.msg, {"path": s.render_path(v.path)[-8:]})
    fn = find_fn(ctx, F, "Minimizer::state_successors_differ", "G1")
    if fn:
        f0 = const_ret_points(fn, 0)
        n_group_tests = 0
        for bid in fn.blocks:
            c = fn.cond(bid)
            if c is not None and not fn.blocks[bid].term.get("switch"):
                txt, t = cond_text(fn, c, True)
                if "group1" in txt and "group2" in txt:
                    n_group_tests += 1
        if n_group_tests >= 2 and f0:
            ctx.ok("G1", "state_successors_differ:compares-groups", "shift and goto successors are compared by group (%d tests)" % n_group_tests)
        else:
            ctx.bad("G1", "state_successors_differ:compares-groups", "state_successors_differ no longer compares successor groups for both terminals and non-terminals (%d tests)" % n_group_tests)
    fn = find_fn(ctx, F, "minimize_parse_table::minimize_parse_table", "G1")
    if fn:
        m = [pt for pt, c, d in calls_named(fn, "merge_compatible_states")]
        text_gate(ctx, "G1", fn, m, [("state merging only under OptLevel::MergeStates", [(("OptLevel", "contains"), True)])], accept_desc="merge_compatible_states")


def index_stores(fn, container, value):
    """Points storing the constant `value` through `container[...]` (IndexMut) in MIR."""
    out = []
    for pt, e in fn.points():
        for n in own_walk(e):
            if n.get("k") == "assign" and strip(n["r"]).get("k") == "int" and strip(n["r"]).get("v") == value:
                l = strip(n["l"])
                if l.get("k") == "un" and l["op"] == "*" and strip(l["e"]).get("k") == "ref":
                    d = fn.single_def(strip(l["e"])["id"])
                    if d is not None and strip(d).get("k") == "call" and "index_mut" in (strip(d).get("fn") or "") + (strip(d).get("tfn") or ""):
                        from rsrules import trace_root
                        if trace_root(fn, strip(d)["a"][0]) == container:
                            out.append(pt)
    return out


def rule_g2(ctx, F):
    """dedup::split_state_id_groups: the scratch membership flags of a split are cleared before the
    split-off states are published as a new group (they are examined again later in the same call)."""
    fn = find_fn(ctx, F, "dedup::split_state_id_groups", "G2")
    if not fn:
        return
    sets = index_stores(fn, "is_split", 1)
    clears = index_stores(fn, "is_split", 0)
    publish = [pt for pt, c, d in calls_named(fn, "Vec", "::push") if "Vec<u32>" in (c.get("targs") or "")]
    ctx.floor("is_split[..] = true stores", len(sets), 1)
    if not clears:
        ctx.bad("G2", "split_state_id_groups:flags-cleared-before-publish", "split_state_id_groups sets is_split[..] = true but never clears it: states split off from a group are skipped when their new group is "
                "visited later in the same call, so mutually incompatible states stay merged", {"function": fn.name})
        return
    if not publish:
        ctx.bad("G2", "split_state_id_groups:publish-anchor", "push of the split-off group not found")
        return
    retain = [pt for pt, c, d in calls_named(fn, "::retain")]
    # the clearing loop runs to exhaustion before the publish (a zero-iteration pass is vacuous)
    from rsrules import TextGate
    sg = Search(fn, TextGate(fn, publish, [(("::next", "=None"), True)], est_pts=()), budget=2000000)
    cl_blocks = {pt[0] for pt in clears}
    # the loop whose `next() = None` edge precedes the publish must be the one that contains the clear
    head = None
    for b in fn.blocks.values():
        if is_loop_next_switch(fn, b.id):
            body = [e.to for e in b.succs if isinstance(e.lab, dict) and e.lab.get("name") == "Some"]
            if body and cl_blocks & reachable_blocks(fn, body[0], avoid_edges={(b.id, e.idx) for e in b.succs}):
                head = b.id
    class ClearLoop(Monitor):
        def elem(self, m, pt, e, s):
            if pt in publish and not m:
                return Viol("the split-off group is appended without the clearing loop having run", pt)
            return m

        def edge(self, m, bid, edge, cond, truth, s):
            if bid == head and isinstance(edge.lab, dict) and edge.lab.get("name") == "None":
                return True
            return m
    s2 = Search(fn, ClearLoop(), budget=2000000)
    v = s2.run(False) if head is not None else Viol("no loop containing `is_split[..] = false` found")
    if v is None:
        ctx.ok("G2", "split_state_id_groups:flags-cleared-before-publish", "the loop that clears the membership flags of the split-off states runs to exhaustion before the new group is appended (it is examined again later in this call)")
    else:
        ctx.bad("G2", "split_state_id_groups:flags-cleared-before-publish", "split_state_id_groups: %s" % v.msg, {"path": s2.render_path(v.path)[-6:] if v.path else []})
    text_gate(ctx, "G2", fn, sets, [("a state is split off only when the predicate says it conflicts", [(("should_split",), True), (("call_mut",), True), (("FnMut",), True)])], accept_desc="marking a state as split")


def loop_depth(fn, bid):
    """Number of natural loops that contain block `bid`."""
    from flow import dominators, reachable_blocks
    dom = dominators(fn)
    depth = 0
    seen_heads = set()
    for b in fn.blocks.values():
        for e in b.succs:
            h = e.to
            if h in dom.get(b.id, ()) and (h, b.id) not in seen_heads:       # back edge b -> h
                seen_heads.add((h, b.id))
    heads = {}
    for h, tail in seen_heads:
        heads.setdefault(h, set()).add(tail)
    for h, tails in heads.items():
        # natural loop of h: nodes that reach a tail without passing through h
        body = {h}
        work = list(tails)
        while work:
            x = work.pop()
            if x in body:
                continue
            body.add(x)
            work.extend(p.src for p in fn.blocks[x].preds)
        if bid in body:
            depth += 1
    return depth


def rule_g5(ctx, F):
    """G5: a group is split by comparing its members *pairwise*.  The first partition uses Minimizer::states_conflict,
    which is not transitive (A may be compatible with both B and C while B and C conflict), so comparing every member
    with one representative leaves conflicting states in one group.  In dedup::split_state_id_groups the predicate is
    evaluated inside two nested loops over the group's members (inside the loop over the groups)."""
    fn = find_fn(ctx, F, "dedup::split_state_id_groups", "G5")
    if not fn:
        return
    calls = [pt for pt, c in fn.calls() if any(k in (c.get("fn") or "") + (c.get("tfn") or "") for k in ("call_mut", "FnMut", "should_split"))]
    key = "split_state_id_groups:members-compared-pairwise"
    if not calls:
        ctx.bad("G5", key, "the call of the split predicate was not found in split_state_id_groups")
        return
    d = max(loop_depth(fn, pt[0]) for pt in calls)
    if d >= 3:
        ctx.ok("G5", key, "the split predicate is evaluated at loop depth %d: for every group, every member against every later member" % d)
    else:
        ctx.bad("G5", key, "the split predicate in split_state_id_groups is evaluated at loop depth %d (groups × members): each member is compared with one representative only, but states_conflict is not "
                "transitive — two states that conflict with each other and are both compatible with the representative stay merged" % d)


def rule_g6(ctx, F):
    """G6: merging does not reserve a word where it was not reserved.  merge_compatible_states gives the merged state the
    *union* of its members' reserved words (minus its own tokens); a word reserved in one member only would then no longer
    be lexed as the word token in the other member's context, and the optimised parser rejects input the unoptimised one
    accepts.  So, as long as the merge unions the sets, states_conflict must compare them: somewhere in its call tree the
    words of one state's `reserved_words` are tested against the other state's `reserved_words`, in both directions."""
    mg = find_fn(ctx, F, "Minimizer::merge_compatible_states", "G6")
    sc = find_fn(ctx, F, "Minimizer::states_conflict", "G6")
    if not mg or not sc:
        return
    key = "states_conflict:reserved-words-compared"
    fam_m = [mg] + [f for f in F.fn_list if f.name.startswith(mg.name + "::{closure")]
    union = [fn.loc(pt) for fn in fam_m for pt, c in fn.calls() if "TokenSet::insert_all" in (c.get("fn") or "") and c.get("a") and "reserved_words" in rsrules.deep_text(fn, c["a"][0], user=True)]
    if not union:
        ctx.ok("G6", key, "merge_compatible_states does not union the members' reserved words (nothing to compare)", nontrivial=False)
        return
    # the call tree of states_conflict inside the minimiser
    reach, work = {}, [sc]
    while work:
        f = work.pop()
        if f.name in reach:
            continue
        reach[f.name] = f
        for pt, c in f.calls():
            g = c.get("fn") or ""
            if "Minimizer::" in g:
                for h in F.fn_list:
                    if h.name == g or h.name.startswith(g + "::{closure"):
                        work.append(h)
        for h in F.fn_list:
            if h.name.startswith(f.name + "::{closure"):
                work.append(h)

    def base(fn, e):
        t = rsrules.deep_text(fn, e, user=True)
        return t.split(".reserved_words")[0].lstrip("&*(") if ".reserved_words" in t else None

    hosts = []
    for name, f in reach.items():
        if "::{closure" in name:
            continue
        fam = [f] + [h for n, h in reach.items() if n.startswith(name + "::{closure")]
        walked, tested = set(), set()
        for h in fam:
            for pt, c in h.calls():
                g = c.get("fn") or ""
                args = c.get("a") or []
                bs = [b for b in (base(h, a) for a in args) if b is not None]
                if not bs:
                    continue
                if "TokenSet" in g and any(k in g for k in ("::iter", "::into_iter")) or "IntoIterator" in g:
                    walked.add((h.name, bs[0]))
                elif "TokenSet::contains" in g:
                    tested.add((h.name, bs[0]))
                elif ("PartialEq" in g or "is_subset" in g or "is_superset" in g) and len(bs) == 2 and bs[0] != bs[1]:
                    hosts.append((f, True))
        if any(w != t for w in walked for t in tested):
            hosts.append((f, False))
    ctx.analysed["G6_call_tree"] = sorted(reach)
    if not hosts:
        ctx.bad("G6", key, "merge_compatible_states unions the members' reserved words (%s) but nothing in states_conflict's call tree (%d functions) tests the words of one state's reserved set against the other's: "
                "two same-core states that differ only in the reserved-word set of their context are merged, and a word reserved in one context becomes reserved in both — "
                "the optimised parser rejects input the unoptimised parser accepts" % (union[0], len(reach)), {"function": sc.name, "union": union})
        return
    f, symmetric = hosts[0]
    if symmetric or f is sc:
        ctx.ok("G6", key, "%s compares the two states' reserved words" % f.name.split("::")[-1])
        return
    # a one-directional helper is called both ways round
    pairs = set()
    for pt, c in sc.calls():
        if (c.get("fn") or "") == f.name:
            pairs.add(tuple(rsrules.trace_root(sc, a) for a in (c.get("a") or [])[-2:]))
    if any((b, a) in pairs and a != b for a, b in pairs):
        ctx.ok("G6", key, "states_conflict calls %s both ways round (%s)" % (f.name.split("::")[-1], sorted(pairs)))
    else:
        ctx.bad("G6", key, "states_conflict compares the reserved words in one direction only (%s called with %s): a word that only the other state reserves still leaks into this one" % (f.name.split("::")[-1], sorted(pairs)))


def rule_g7(ctx, F):
    """G7: FIRST and LAST sets are each computed by a fresh walk.  ParseItemSetBuilder::new computes, per non-terminal, its
    FIRST set and then its LAST set with one shared work list and one shared visited set; each walk starts by pushing the
    non-terminal itself.  The visited set is emptied between the last insertion of the previous walk and that push —
    otherwise the LAST walk skips every non-terminal the FIRST walk visited, LAST sets come out too small, the token
    conflict map under-reports which tokens can follow which, and the minimiser merges states whose look-aheads conflict
    lexically (the optimised parser then rejects input the unoptimised one accepts)."""
    from rsrules import deep_text
    fn = find_fn(ctx, F, "ParseItemSetBuilder::new", "G7")
    if not fn:
        return
    key = "ParseItemSetBuilder::new:visited-set-fresh-per-walk"
    ins, clr, seeds = {}, {}, []
    for pt, c in fn.calls():
        g = c.get("fn") or ""
        a = c.get("a") or []
        if not a:
            continue
        root = rsrules.trace_root(fn, a[0])
        if "HashSet" in g and g.endswith("::insert") and root:
            ins.setdefault(root, set()).add(pt)
        elif "HashSet" in g and g.endswith("::clear") and root:
            clr.setdefault(root, set()).add(pt)
        elif "Vec" in g and g.endswith("::push") and len(a) > 1 and "Symbol::non_terminal(" in deep_text(fn, a[1], user=True):
            seeds.append(pt)
    visited = [r for r in ins if not str(r).startswith("_")]
    ctx.floor("walks seeded with the non-terminal itself", len(seeds), 2)
    if not visited:
        ctx.bad("G7", key, "the visited set of the FIRST/LAST walks was not found in ParseItemSetBuilder::new")
        return
    seedset = set(seeds)
    for r in visited:
        i_pts, c_pts = ins[r], clr.get(r, set())

        class Fresh(Monitor):
            def elem(self, m, pt, e, s):
                if pt in c_pts:
                    return False
                if pt in seedset and m:
                    return Viol("a walk is started (its root pushed) while `%s` still holds the non-terminals visited by the previous walk" % r, pt)
                if pt in i_pts:
                    return True
                return m
        sr = Search(fn, Fresh(), budget=3000000)
        v = sr.run(False)
        if v is None:
            ctx.ok("G7", key, "every walk starts with `%s` empty: it is cleared between its last insertion and the push of the next walk's root (%d walks, %d states)" % (r, len(seeds), sr.states))
        else:
            ctx.bad("G7", key, "ParseItemSetBuilder::new: %s (%s): the second walk skips what the first one visited, so LAST sets are too small, token conflicts are under-reported and "
                    "conflicting states are merged" % (v.msg, fn.loc(v.pt)), {"path": sr.render_path(v.path)[-6:]})


def rule_u1(ctx, F):
    """U1: a parse state's reductions are short-circuited ("unit reduction") only if every action in
    it is the same single-child reduce (production 0) of a symbol that leaves no trace in the tree —
    not named, not aliased (simple or per-production), not a supertype, not an extra — and the state
    is not EOF-gated.  Dropping one of these tests removes nodes from trees the unoptimised parser builds."""
    fn = find_fn(ctx, F, "Minimizer::remove_unit_reductions", "U1")
    if not fn:
        return
    accept = []
    for pt, e in fn.points():
        for x in own_walk(e):
            if x.get("k") == "assign" and strip(x["l"]).get("k") == "ref" and "Option<&" in (strip(x["l"]).get("t") or "") and not str(strip(x["l"]).get("name", "_")).startswith("_"):
                r = rsrules.cond_def(fn, x["r"])
                if r.get("k") == "agg" and r.get("variant") == "Some":
                    accept.append(pt)
    ctx.floor("acceptances of a unit-reduction symbol", len(accept), 1)
    text_gate(ctx, "U1", fn, accept, [
        ("the action is a reduce", [(("discriminant(*", "=Reduce"), True)]),
        ("…of a single child", [((".as:Reduce.child_count", "=1"), True)]),
        ("…by production 0 (no fields, no per-production aliases)", [((".as:Reduce.production_id", "=0"), True), ((".as:Reduce.production_id", "=default"), True)]),
        ("the symbol has no simple alias", [(("simple_aliases", "contains_key"), False)]),
        ("…is not a supertype", [(("supertype_symbols", "contains"), False)]),
        ("…is not an extra", [(("extra_symbols", "contains"), False)]),
        ("…is not aliased in any production", [(("HashSet", "contains("), False)]),
        ("…and is not a named rule", [(("PartialEq::ne(", ".kind"), True)]),
        ("all unit reductions of the state are of one symbol", [(("Option::<T>::is_none(",), True), (("PartialEq>::eq(",), True)]),
    ], accept_desc="accepting a unit-reduction symbol")
    ins = [pt for pt, c, d in calls_named(fn, "HashMap", "::insert")]
    ins = [pt for pt in ins if True]
    if ins:
        text_gate(ctx, "U1", fn, ins[:1], [("a state is short-circuited only if all its actions were unit reductions", [(("only_unit_reductions",), True)]),
                                          ("…and it is not EOF-gated", [(("has_eof_gated_reduce",), False)])], accept_desc="recording the state")
    else:
        ctx.bad("U1", "remove_unit_reductions:records-states", "remove_unit_reductions no longer records short-circuited states in a map")


def rule_b1(ctx, F):
    """B1: bit-set discipline.  A single-bit mask `1 << (X % 64)` selects bit X only in word X / 64 of
    a multi-word bit set: wherever such a mask is and-ed / or-ed with a word, that word is indexed by
    `X / 64` or the operation is guarded by `X / 64 == <word index>`.  (The conflict and coincidence
    bit sets decide which parse states may be merged and which tokens are keywords.)"""
    from rsrules import deep_text, TextGate
    n = 0
    for fn in F.fn_list:
        if is_test_fn(fn):
            continue
        for pt, e in fn.points():
            for x in own_walk(e):
                if not (x.get("k") == "assign" and strip(x["r"]).get("k") == "bin" and strip(x["r"]).get("op") == "<<"):
                    continue
                sh = strip(x["r"])
                l = strip(sh["l"])
                rt = deep_text(fn, sh["r"], user=False)
                if not (l.get("k") == "int" and l.get("v") == 1 and rt.endswith(" % 64)") and rt.startswith("(")):
                    continue
                if strip(x["l"]).get("k") != "ref":
                    continue
                X = rt[1:-len(" % 64)")]
                derived = {strip(x["l"])["id"]}
                grew = True
                minus_one = False
                while grew:
                    grew = False
                    for pt2, e2 in fn.points():
                        for y in own_walk(e2):
                            if y.get("k") == "assign" and strip(y["l"]).get("k") == "ref" and strip(y["l"])["id"] not in derived:
                                r = strip(y["r"])
                                while r.get("k") in ("un", "cast") or (r.get("k") == "mem" and r.get("f") in ("0",)):
                                    r = strip(r.get("e") or r.get("b"))
                                if r.get("k") == "ref" and r.get("id") in derived:
                                    derived.add(strip(y["l"])["id"])
                                    grew = True
                                elif r.get("k") == "bin" and r.get("op") == "-" and strip(r["l"]).get("k") == "ref" and strip(r["l"]).get("id") in derived:
                                    minus_one = True      # `(1 << k) - 1`: a low-bits mask, another idiom
                if minus_one:
                    continue
                uses = []
                for pt2, e2 in fn.points():
                    for y in own_walk(e2):
                        if y.get("k") == "bin" and y.get("op") in ("&", "|"):
                            for a, b in (("l", "r"), ("r", "l")):
                                o = strip(y[a])
                                if o.get("k") == "ref" and o.get("id") in derived:
                                    uses.append((pt2, y[b]))
                n += 1
                seen_keys = getattr(ctx, "_b1_keys", None)
                if seen_keys is None:
                    seen_keys = ctx._b1_keys = {}
                key = "%s:%s:bit-%s" % (fn.name.split("::")[-1] if "closure" not in fn.name else "::".join(fn.name.split("::")[-2:]), fn.file.split("/")[-1], X[-40:])
                seen_keys[key] = seen_keys.get(key, 0) + 1
                if seen_keys[key] > 1:
                    key += "#%d" % seen_keys[key]
                if not uses:
                    ctx.bad("B1", key + ":unused", "single-bit mask for `%s` at %s is never combined with a word" % (X, fn.loc(pt)))
                    continue
                bad = None
                for pt2, other in uses:
                    ot = deep_text(fn, other, user=False)
                    if ("(%s / 64)" % X) in ot:
                        continue
                    srch = Search(fn, TextGate(fn, [pt2], [(("/ 64", "=="), True)]), budget=500000)
                    if srch.run(0) is None:
                        continue
                    bad = (pt2, ot)
                    break
                if bad is None:
                    ctx.ok("B1", key, "the mask for bit `%s` meets only word `%s / 64` (%d use(s))" % (X, X, len(uses)), sample={"site": fn.loc(pt)} if n <= 3 else None)
                else:
                    ctx.bad("B1", key, "%s: the single-bit mask `1 << (%s %% 64)` is combined at %s with a word (`%s`) that is not word `%s / 64` and without an `… / 64 == w` guard: "
                            "bit %s + 64k of the set is affected as well" % (fn.name, X, fn.loc(bad[0]), bad[1][:60], X, X), {"site": fn.loc(bad[0])})
    ctx.floor("single-bit masks into multi-word bit sets", n, 12)


def rule_g3(ctx, F):
    """G3: the successor comparison sees every shift.  After the first partition, states stay merged only while their
    shift (and goto) successors lie in the same groups; the per-state shift map that feeds this comparison takes, for
    every terminal entry, the *last* action of its list if that is a Shift (a Shift is always last, also behind Reduces in
    a conflict entry).  The closure building it may answer `None` only because the list is empty or its last action is
    not a Shift — never because of the length of the list."""
    cands = [f for f in F.fn_list if "merge_compatible_states::{closure" in f.name and calls_named(f, "SymbolKey::new") and calls_named(f, "ActionListPool::get")]
    if len(cands) != 1:
        ctx.bad("G3", "merge_compatible_states:shift-map-closure", "expected exactly one closure that turns a terminal entry's action list into a (symbol, shift target) pair, found %d" % len(cands))
        return
    fn = cands[0]
    nones = [pt for pt, e in fn.points() for x in own_walk(e) if x.get("k") == "assign" and show(x["l"]) == "_0" and
             not (strip(x["r"]).get("k") == "agg" and strip(x["r"]).get("variant") == "Some")]
    somes = some_ret_points(fn)
    if not nones or not somes:
        ctx.bad("G3", "merge_compatible_states:shift-map-closure", "the shift-map closure no longer has both outcomes (Some((symbol, state)) / None)")
        return

    class Lic(Monitor):
        # m: 0 = nothing established, 1 = list empty / last action is not a Shift (licence for None), 2 = last action is a Shift
        def elem(self, m, pt, e, s):
            if pt in nones and m != 1:
                return Viol("answers None for an entry without having found its action list empty or its last action to be something other than a Shift", pt)
            if pt in somes and m != 2:
                return Viol("answers Some without having found the last action to be a Shift", pt)
            return m

        def edge(self, m, bid, edge, cond, truth, s):
            if cond is None or not isinstance(edge.lab, dict):
                return m
            txt, _ = cond_text(fn, cond, True, deep=True)
            name = edge.lab.get("name")
            if "discriminant(" in txt and "::last(" in txt and "Try>::branch" in txt:
                return 1 if name == "Break" else m
            if txt.startswith("discriminant(") and "::last(" in rsrules.deep_text(fn, strip(rsrules.cond_def(fn, cond))["a"][0], user=True):
                if name == "Shift":
                    return 2
                return 1
            return m
    sr = Search(fn, Lic(), budget=200000)
    v = sr.run(0)
    if v is None:
        ctx.ok("G3", "merge_compatible_states:shift-map-takes-last-action", "the shift map records the last action of every terminal entry when it is a Shift; None only for an empty list or a non-Shift last action (%d states)" % sr.states,
               sample={"closure": fn.name, "line": fn.line})
    else:
        ctx.bad("G3", "merge_compatible_states:shift-map-takes-last-action", "%s %s: a Shift behind other actions of a conflict entry (`[Reduce, Shift]`) is left out of the successor comparison, so states whose "
                "successors were split apart stay merged and the merged state keeps one context's shift target" % (fn.name.split("::")[-3] + " closure", v.msg), {"path": sr.render_path(v.path)[-6:]})


from rsrules import some_ret_points


def rule_g4(ctx, F):
    """G4: the conflict matrix is filled for every *ordered* pair of tokens.  `does_conflict(i, j)` is directional
    (token i takes strings away from token j), so the loops around the call in merge_compatible_states both run over all
    terminals; a triangular loop with mirroring loses the conflicts that exist in one direction only, and two states that
    differ in such a look-ahead get merged."""
    fn = find_fn(ctx, F, "Minimizer::merge_compatible_states", "G4")
    if not fn:
        return
    calls = calls_named(fn, "does_conflict")
    key = "merge_compatible_states:conflict-matrix-full"
    if len(calls) != 1:
        ctx.bad("G4", key, "expected one does_conflict call in merge_compatible_states, found %d" % len(calls))
        return
    pt, c, d = calls[0]
    idx = [strip(a) for a in c["a"][1:3]]
    names = [a.get("name") for a in idx if a.get("k") == "ref"]
    # the ranges the two index variables iterate over
    ranges = []
    for p2, e in fn.points():
        for x in own_walk(e):
            if x.get("k") == "agg" and str(x.get("adt") or "").endswith("Range") and pt[0] in reachable_blocks(fn, p2[0]):
                f = {y["f"]: rsrules.deep_text(fn, y["e"], user=False) for y in x.get("fields", [])}
                if f.get("start") == "0":
                    ranges.append((p2, f.get("end")))
    ends = sorted({e for _, e in ranges})
    tri = [e for e in ends if e in names]
    if len(names) == 2 and len(ranges) >= 2 and not tri and len(ends) == 1:
        ctx.ok("G4", key, "does_conflict(%s, %s) is evaluated inside two loops that both run over 0..%s" % (names[0], names[1], ends[0]), sample={"site": fn.loc(pt)})
    else:
        ctx.bad("G4", key, "the loops around does_conflict(%s) in merge_compatible_states run over %s: the directional conflict test is not made for every ordered pair, so a conflict that exists "
                "in one direction only is lost and states differing in that look-ahead are merged" % (", ".join(str(n) for n in names), ", ".join("0..%s" % e for e in ends) or "?"), {"site": fn.loc(pt)})


class FoldAll(Monitor):
    """Every item a particular `for` loop yields is folded into the accumulator before the loop asks for the next one.
    m = (in_iteration, folded); only the loop whose `match next()` switch is `switch_bid` is tracked."""

    def __init__(self, fn, switch_bid, fold_pts):
        self.fn, self.sw, self.fold = fn, switch_bid, set(fold_pts)

    def elem(self, m, pt, e, s):
        if pt in self.fold:
            return (m[0], True)
        return m

    def edge(self, m, bid, edge, cond, truth, s):
        if bid == self.sw and isinstance(edge.lab, dict) and edge.lab.get("name") in ("Some", "None"):
            if m[0] and not m[1]:
                return Viol("the loop moves on to the next item without having added the current one", (bid, 0))
            return (edge.lab["name"] == "Some", False)
        return m

    def exit(self, m, bid, s):
        if m[0] and not m[1]:
            return Viol("the function returns from inside the loop, leaving the remaining items out")
        return None


def origin_calls(fn, e, depth=0, seen=None):
    """Names of the calls an expression's value comes from, following locals that have exactly one definition
    (also loop iterators, whose address is taken by `next`)."""
    seen = seen if seen is not None else set()
    out = []
    for n in own_walk(e) if isinstance(e, dict) else []:
        if n.get("k") == "call":
            out.append(n.get("fn") or "")
        if n.get("k") == "ref" and n.get("dk") != "param" and n.get("id") not in seen and depth < 12:
            seen.add(n["id"])
            ds = [d for d in fn.defs(n["id"]) if isinstance(d, dict) and d.get("k") not in ("uninit", "param")]
            if len(ds) == 1:
                out += origin_calls(fn, ds[0], depth + 1, seen)
    return out


def loop_switch_of(fn, next_pt):
    """The `match iter.next()` switch block fed by the `next` call at next_pt."""
    from taint import root_var
    dest = None
    for n in own_walk(fn.blocks[next_pt[0]].elems[next_pt[1]]["e"]):
        if n.get("k") == "assign" and isinstance(n.get("r"), dict) and n["r"].get("k") == "call":
            dest = root_var(n["l"])
    for bid in fn.blocks:
        if not is_loop_next_switch(fn, bid):
            continue
        d = fn.single_def(strip(fn.cond(bid))["id"])
        if d is not None and root_var(strip(d)["a"][0]) == dest:
            return bid
    return None


def rule_f1(ctx, F):
    """F1: the character sets the conflict analysis starts from are complete.  A token's starting characters are
    *all* characters some transition out of its start state accepts — leading separators included, because the
    lexer reads them as part of the token — and a state's following characters are the union over *every*
    terminal that may follow.  Dropping a class of transitions makes two tokens look conflict-free, and the
    merge licence (token_conflicts) then merges states that differ on such a look-ahead."""
    table = [("build_tables::token_conflicts::get_starting_chars", "transition_chars", "CharacterSet::add", [], "every transition out of the start state (separators too) adds its characters"),
             ("build_tables::token_conflicts::get_following_chars::{closure#0}", "TokenSet::iter", "CharacterSet::add", [(("is_terminal",), False)], "every terminal that may follow adds its starting characters")]
    for name, source, fold, skips, what in table:
        fn = find_fn(ctx, F, name, "F1")
        if not fn:
            continue
        key = name.split("::")[2] + ":" + "all-items-folded"
        nxt = [pt for pt, c, d in calls_named(fn, "Iterator::next") if any(source in x for x in origin_calls(fn, c["a"][0]))]
        folds = [pt for pt, c, d in calls_named(fn, fold)]
        if len(nxt) != 1 or not folds:
            ctx.bad("F1", key, "%s: expected one loop over %s(..) folding with %s (found %d loop(s), %d fold(s))" % (name, source, fold, len(nxt), len(folds)))
            continue
        sw = loop_switch_of(fn, nxt[0])
        if sw is None:
            ctx.bad("F1", key, "%s: the loop over %s(..) has no recognisable `match next()` switch" % (name, source))
            continue

        class M2(FoldAll):
            def edge(self, m, bid, edge, cond, truth, s, _skips=skips, _fn=fn):
                if cond is not None and truth is not None and _skips and m[0]:
                    txt, t = cond_text(_fn, cond, truth)
                    for needles, want in _skips:
                        if t == want and all(n in txt for n in needles):
                            return (m[0], True)          # a licensed skip (non-terminals have no starting characters)
                return FoldAll.edge(self, m, bid, edge, cond, truth, s)
        sr = Search(fn, M2(fn, sw, folds), budget=500000)
        v = sr.run((False, False))
        if v is None:
            ctx.ok("F1", key, "%s: %s (%d states)" % (name, what, sr.states), sample={"function": name, "loop": fn.loc(nxt[0]), "fold": fn.loc(folds[0])})
        else:
            ctx.bad("F1", key, "%s: %s — %s" % (name, what, v.msg), {"path": sr.render_path(v.path)[-6:]})


def run(ctx):
    ctx.config = "rust"
    F = ctx.extract.rsfacts(CRATE)
    ctx.analysed["rust_functions"] = len(F.fn_list)
    rule_w1(ctx, F)
    rule_g1(ctx, F)
    rule_g2(ctx, F)
    rule_b1(ctx, F)
    rule_u1(ctx, F)
    rule_f1(ctx, F)
    rule_g3(ctx, F)
    rule_g4(ctx, F)
    rule_g5(ctx, F)
    rule_g6(ctx, F)
    rule_g7(ctx, F)
    return ctx.finish(
        "Determinism scan and merge-licence gates over rustc MIR of tree-sitter-generate: no iteration over RandomState-hashed containers, no clock/thread/pid/env/random source, no pointer→integer casts; "
        "states_conflict vets every entry it consumes, token_conflicts/entries_conflict say `no conflict` only after all their tests, merging only under OptLevel::MergeStates. "
        "Does not decide equality of trees produced by optimised and unoptimised parsers.")
